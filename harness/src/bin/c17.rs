//! C17 — generation is deterministic and independent of incidental ordering.
//!
//! OBSERVED, not proved (the proofs are in lean/NitroVerif/Props/C17.lean and speak about the model):
//!  (a) `repeat`  the built CLI is run N times in FRESH processes (std's `RandomState` reseeds per process) on fresh
//!                copies of a generated project; every written file and the `--output-format json` stdout must be
//!                byte-identical (`generate` on valid projects, `check` on projects with several injected faults);
//!  (b) `lib`     the library entry points composed in-process exactly like crates/cli/src/generate.rs must give the
//!                bytes the CLI wrote (buffer + "\n//# sourceMappingURL=<name>.map\n");
//!  (c) `perm`    permuted projects (definitions shuffled inside files, moved across schema files, files renamed so
//!                that the glob order changes): same verdict, and every declaration file parses (`nvh::tsparse`) to the
//!                same declarations modulo declaration order / union member order / object field order;
//!  (c'') `dup-names` small schemas that define a type name twice across kinds / take a built-in scalar's name / define
//!                a directive twice (fix 8cdbacf) are REJECTED by `check` in every order of their definitions (single
//!                file and cut into files whose glob order varies), schemas that re-declare a built-in directive are
//!                accepted in every order — the verdict only: WHICH definition the DuplicatedName diagnostic names
//!                depends on the order, as for duplicate fragment names;
//!  (c''') `multi-def` FAULTY schemas whose fault needs several definitions (directive reference cycles of length 1-3 with
//!                referrers outside the cycle, `implements` cycles, missing transitive interfaces, non-covariant fields
//!                along an interface chain, union members of the wrong kind, a type referenced from several definitions
//!                and defined nowhere, input/output mix-ups, misapplied directives; valid controls; random directive
//!                reference graphs judged by "rejected iff cyclic, exactly the cycle members reported"; random
//!                `implements` graphs) in EVERY order of their <= 4 participating definitions, as one file and as one
//!                file per definition (file names whose sorted order is the order): same exit status of `check` /
//!                `generate` and the same multiset of (file type, message, definition, position inside it); the
//!                family and the comparison are in c17/multidef.rs;
//!  (a'') `tied-positions` FAULTY multi-file projects in which k = 2..6 diagnostics of one stage sit at the SAME (line, column)
//!                of DIFFERENT files (a fault template instantiated once per file with identifiers of equal width; verbatim
//!                copy-pasted operation files): duplicate names across kinds, unknown types, misplaced / unknown / repeated
//!                directives, duplicate fields / values / arguments, interface and union faults, kind mix-ups, extensions,
//!                parse errors, operation faults of every rule, imports. N fresh processes per (command, output format:
//!                human, json, rdjson): exit code, stdout (diagnostic ORDER), stderr and all files byte-identical
//!                (c17/ties.rs; added after seeded mutation m5: a position sort that ignores the file);
//!  (d) `loader`  the real loader ABI (`loader_native`), required files loaded in different orders, many tasks per
//!                process (every `HashMap::new()` gets a fresh `RandomState`): `emit_js` output must not vary.
//! O failures: any byte difference between runs (signature = file kind + first differing construct), any
//! verdict/denotation difference under permutation.
//! K (small): the model's `identifiers`/`bag`/`localTypeNames` against the `__tmp_` renames visible in the real schema
//! declaration file; the model's `requiredFiles` (members, and WHETHER the order can vary) against the real
//! `get_required_files`; the site list compiled into the driver against the scanner's current output.
use nvh::cli::{fresh_dir, run_cli, snapshot, Project};
use nvh::gen::*;
use nvh::gm::*;
use nvh::render::*;
use nvh::*;
use serde_json::{json, Value};
use std::collections::{BTreeMap, BTreeSet};
use std::path::{Path, PathBuf};
use std::time::Duration;

#[path = "c17/targeted.rs"]
mod targeted;
#[path = "c17/multidef.rs"]
mod multidef;
#[path = "c17/ties.rs"]
mod ties;

type Files = Vec<(String, String)>;

const CONFIG: &str = "graphql.config.yaml";
const OUTPUTS: [(&str, &str); 3] = [("schemaOutput", "gen/schema.d.ts"), ("resolversOutput", "gen/resolvers.d.ts"), ("serverGraphqlOutput", "gen/server-schema.ts")];

// ---------------------------------------------------------------------------------------------
// project generation

struct Spec {
    schema: SchemaModel,
    schema_files: Vec<(String, Vec<TsItem>)>,
    op_files: Vec<(String, String)>,
    cfg: ProjectCfg,
    features: BTreeSet<String>,
}

fn schema_file_name(i: usize) -> String {
    ["schema/a_root.graphql", "schema/b_types.graphql", "schema/c_more.graphql", "schema/d_ext.graphql"][i % 4].to_string()
}

/// an empty file is not a GraphQL document (`Document : Definition+`; the CLI reports a parse error): keep ≥ 1 item per file
fn no_empty_file(files: &mut Vec<(String, Vec<TsItem>)>) {
    loop {
        let Some(empty) = files.iter().position(|(_, i)| i.is_empty()) else { return };
        let Some(big) = (0..files.len()).filter(|k| files[*k].1.len() >= 2).max_by_key(|k| files[*k].1.len()) else {
            files.retain(|(_, i)| !i.is_empty());
            return;
        };
        let it = files[big].1.pop().unwrap();
        files[empty].1.push(it);
    }
}

fn gen_spec(rng: &mut Rng, idx: usize) -> Spec {
    let gcfg = GenCfg { hostile_text: false, ..GenCfg::default() };
    let schema = gen_schema(rng, &gcfg);
    let mut features = BTreeSet::new();
    let items = if idx % 2 == 0 {
        features.insert("schema:extensions".to_string());
        split_into_extensions(rng, &schema).items
    } else {
        schema.doc.items.clone()
    };
    // generator bias: a cluster with two interfaces sharing only the LATER implementer and a union whose first member
    // does not match (order dependence of "first match" instead of "any match"), plus an operation file that uses it
    let mut items = items;
    let biased = idx % 2 == 1 || rng.chance(1, 3);
    if biased {
        features.insert("bias:first-vs-any-cluster".to_string());
        items.extend(sdl_items(&targeted::bias_cluster_sdl(&schema.query)));
    }
    let nfiles = 2 + rng.below(3);
    let mut schema_files: Vec<(String, Vec<TsItem>)> = (0..nfiles).map(|i| (schema_file_name(i), vec![])).collect();
    for it in items {
        let k = rng.below(nfiles);
        schema_files[k].1.push(it);
    }
    no_empty_file(&mut schema_files);
    let nfiles = schema_files.len();
    features.insert(format!("schema-files:{nfiles}"));
    let nops = 2 + rng.below(2);
    let mut op_files = vec![];
    for k in 0..nops {
        let (doc, f) = gen_doc(rng, &schema, &gcfg);
        for x in f {
            features.insert(format!("op:{x}"));
        }
        op_files.push((format!("ops/q{k}.graphql"), doc_text(&doc)));
    }
    if biased {
        op_files.push(("ops/qz_c17.graphql".to_string(), targeted::BIAS_OPS.to_string()));
    }
    let cfg = gen_project_cfg(rng, &schema, idx % 3 != 1);
    features.insert(format!("mode:{}", cfg.mode));
    if idx % 3 != 1 {
        features.insert("scalar-name-clash-possible".into());
    }
    Spec { schema, schema_files, op_files, cfg, features }
}

/// the items of an SDL text, through the REAL parser
fn sdl_items(sdl: &str) -> Vec<TsItem> {
    let doc = nitrogql_parser::parse_type_system_document(sdl).unwrap_or_else(|e| panic!("harness SDL does not parse: {e:?}\n{sdl}"));
    from_real_tsdoc_ext(&doc).items
}

fn spec_files(s: &Spec) -> Files {
    let mut out: Files = vec![];
    for (p, items) in &s.schema_files {
        out.push((p.clone(), tsdoc_text(&TsDoc { items: items.clone() })));
    }
    for (p, t) in &s.op_files {
        out.push((p.clone(), t.clone()));
    }
    out.push((CONFIG.to_string(), s.cfg.yaml("schema/*.graphql", "ops/*.graphql", &OUTPUTS)));
    out
}

fn write_project(files: &Files, dir: &Path) {
    let mut p = Project::default();
    for (path, text) in files {
        p.add(path, text);
    }
    p.write(dir);
}

fn files_json(files: &Files) -> Value {
    Value::Array(files.iter().map(|(p, t)| json!([p, t])).collect())
}
fn files_from_json(v: &Value) -> Files {
    v.as_array().map(|a| a.iter().map(|x| (x[0].as_str().unwrap_or("").to_string(), x[1].as_str().unwrap_or("").to_string())).collect()).unwrap_or_default()
}

// ---------------------------------------------------------------------------------------------
// classification of written files, first differing construct

fn file_kind(rel: &str) -> &'static str {
    let map = rel.ends_with(".map");
    let base = rel.trim_end_matches(".map");
    if base == OUTPUTS[0].1 {
        if map { "schema-map" } else { "schema-dts" }
    } else if base == OUTPUTS[1].1 {
        if map { "resolvers-map" } else { "resolvers-dts" }
    } else if base == OUTPUTS[2].1 {
        "server-graphql"
    } else if base.ends_with(".graphql.ts") || base.ends_with(".graphql.d.ts") {
        if map { "operation-map" } else { "operation-dts" }
    } else {
        "input"
    }
}

/// stable description of where two texts first differ: the nearest enclosing declaration keyword (never a name)
fn first_diff_construct(a: &str, b: &str) -> String {
    if let (Ok(x), Ok(y)) = (serde_json::from_str::<Value>(a), serde_json::from_str::<Value>(b)) {
        fn walk(x: &Value, y: &Value, path: &str) -> Option<String> {
            match (x, y) {
                (Value::Object(m), Value::Object(n)) => {
                    let keys: BTreeSet<&String> = m.keys().chain(n.keys()).collect();
                    for k in keys {
                        match (m.get(k), n.get(k)) {
                            (Some(p), Some(q)) => {
                                if p != q {
                                    return walk(p, q, &format!("{path}.{k}")).or(Some(format!("{path}.{k}")));
                                }
                            }
                            _ => return Some(format!("{path}.{k}:missing")),
                        }
                    }
                    None
                }
                (Value::Array(p), Value::Array(q)) => {
                    if p.len() != q.len() {
                        return Some(format!("{path}[]:length"));
                    }
                    let same: BTreeSet<String> = p.iter().map(|v| v.to_string()).collect();
                    let other: BTreeSet<String> = q.iter().map(|v| v.to_string()).collect();
                    Some(if same == other { format!("{path}[]:order") } else { format!("{path}[]:elements") })
                }
                _ => {
                    if x != y {
                        Some(path.to_string())
                    } else {
                        None
                    }
                }
            }
        }
        return walk(&x, &y, "json").unwrap_or_else(|| "json:formatting".into());
    }
    let la: Vec<&str> = a.lines().collect();
    let lb: Vec<&str> = b.lines().collect();
    let mut i = 0;
    while i < la.len() && i < lb.len() && la[i] == lb[i] {
        i += 1;
    }
    fn sorted<'x>(l: &Vec<&'x str>) -> Vec<&'x str> {
        let mut v = l.clone();
        v.sort();
        v
    }
    let reorder = if sorted(&la) == sorted(&lb) { "lines-reordered" } else { "lines-differ" };
    let mut j = i.min(la.len().saturating_sub(1));
    loop {
        let t = la.get(j).map(|s| s.trim_start()).unwrap_or("");
        for kw in ["export declare namespace", "export type", "type", "declare const", "export const", "directive", "scalar", "interface", "union", "enum", "input", "extend"] {
            if t.starts_with(kw) {
                return format!("{reorder}:in-{}", kw.replace(' ', "-"));
            }
        }
        if j == 0 {
            break;
        }
        j -= 1;
    }
    format!("{reorder}:top")
}

// ---------------------------------------------------------------------------------------------
// (a) repeated runs in fresh processes

struct Ctx<'a> {
    rep: &'a mut Report,
    drv: &'a mut Driver,
    cli: String,
    scratch: String,
    counter: usize,
    /// development aid (`--dump 1`): print the diagnostics of every tied-positions project
    dump: bool,
}

struct RunOut {
    code: Option<i32>,
    stdout: String,
    stderr: String,
    files: BTreeMap<String, Vec<u8>>,
}

impl<'a> Ctx<'a> {
    fn run_once(&mut self, files: &Files, cmd: &str) -> RunOut {
        self.counter += 1;
        let dir = fresh_dir(&self.scratch, &format!("run{}", self.counter));
        write_project(files, &dir);
        let r = run_cli(&self.cli, &dir, &["--output-format", "json", cmd], &[], Duration::from_secs(60));
        let root = dir.to_string_lossy().to_string();
        let root_json = root.replace('/', "\\/");
        let norm = |s: &str| s.replace(&root_json, "<ROOT>").replace(&root, "<ROOT>");
        let mut snap = BTreeMap::new();
        for (k, v) in snapshot(&dir) {
            let bytes = match String::from_utf8(v.clone()) {
                Ok(t) => norm(&t).into_bytes(),
                Err(_) => v,
            };
            snap.insert(k, bytes);
        }
        let _ = std::fs::remove_dir_all(&dir);
        RunOut { code: if r.timed_out { Some(-999) } else { r.code }, stdout: norm(&r.stdout), stderr: norm(&r.stderr), files: snap }
    }

    /// N fresh processes on fresh copies: everything observable must be byte-identical. Returns the first run.
    fn repeat(&mut self, files: &Files, cmd: &str, runs: usize, expect_ok: Option<bool>) -> RunOut {
        let case = json!({"kind": "repeat", "cmd": cmd, "runs": runs, "expect_ok": expect_ok, "files": files_json(files)});
        let first = self.run_once(files, cmd);
        self.rep.evaluations += 1;
        self.rep.o_cases += 1;
        if let Some(ok) = expect_ok {
            if (first.code == Some(0)) != ok {
                self.rep.fail("O", &format!("unexpected-verdict:{cmd}:{}", if ok { "valid-project-rejected" } else { "faulty-project-accepted" }),
                    &format!("`{cmd}` exits {:?} on a project that is {} by construction: {} {}", first.code, if ok { "valid" } else { "faulty" },
                        first.stdout.chars().take(400).collect::<String>(), first.stderr.chars().take(300).collect::<String>()), case.clone());
            }
        }
        for r in 1..runs {
            let next = self.run_once(files, cmd);
            self.rep.evaluations += 1;
            self.rep.o_cases += 1;
            if next.code != first.code {
                self.rep.fail("O", &format!("nondeterministic:{cmd}:exit-code"), &format!("run 1 exits {:?}, run {} exits {:?}", first.code, r + 1, next.code), case.clone());
                break;
            }
            if next.stdout != first.stdout {
                let c = first_diff_construct(&first.stdout, &next.stdout);
                self.rep.fail("O", &format!("nondeterministic:{cmd}:stdout:{c}"),
                    &format!("--output-format json stdout differs between run 1 and run {} ({c}):\n{}\n---\n{}", r + 1, first.stdout.chars().take(600).collect::<String>(), next.stdout.chars().take(600).collect::<String>()), case.clone());
                break;
            }
            let ka: Vec<&String> = first.files.keys().collect();
            let kb: Vec<&String> = next.files.keys().collect();
            if ka != kb {
                self.rep.fail("O", &format!("nondeterministic:{cmd}:file-set"), &format!("written files differ: {ka:?} vs {kb:?}"), case.clone());
                break;
            }
            let mut stop = false;
            for (k, a) in &first.files {
                let b = &next.files[k];
                if a != b {
                    let (ta, tb) = (String::from_utf8_lossy(a), String::from_utf8_lossy(b));
                    let c = first_diff_construct(&ta, &tb);
                    self.rep.fail("O", &format!("nondeterministic:{cmd}:{}:{c}", file_kind(k)),
                        &format!("{k} differs between run 1 and run {} of the same project in fresh processes ({c})", r + 1), case.clone());
                    stop = true;
                }
            }
            if stop {
                break;
            }
        }
        self.rep.count(&format!("repeat:{cmd}:runs"));
        first
    }

    // -----------------------------------------------------------------------------------------
    // (b) library entry points, composed like crates/cli/src/generate.rs

    fn lib_vs_cli(&mut self, files: &Files, cli_out: &RunOut) {
        if cli_out.code != Some(0) {
            return; // nothing was generated (already reported as an unexpected verdict)
        }
        let case = json!({"kind": "lib", "files": files_json(files)});
        let cfg_text = files.iter().find(|(p, _)| p == CONFIG).map(|(_, t)| t.clone()).unwrap_or_default();
        let config = match nvh::real::parse_config_text(&cfg_text) {
            Ok(Some(c)) => c,
            other => {
                self.rep.fail("O", "lib:config-rejected", &format!("parse_config rejects the config the CLI accepted: {other:?}"), case);
                return;
            }
        };
        // glob order of the CLI = sorted absolute paths
        let mut schema_files: Vec<&(String, String)> = files.iter().filter(|(p, _)| p.starts_with("schema/")).collect();
        schema_files.sort_by(|a, b| Path::new(&a.0).cmp(Path::new(&b.0)));
        let mut op_files: Vec<&(String, String)> = files.iter().filter(|(p, _)| p.starts_with("ops/") && p.ends_with(".graphql")).collect();
        op_files.sort_by(|a, b| Path::new(&a.0).cmp(Path::new(&b.0)));
        let texts: Vec<String> = schema_files.iter().map(|(_, t)| t.clone()).collect();
        let root = PathBuf::from("/<ROOT>");
        let schema_out = root.join(config.generate.schema_output.clone().unwrap_or_default());
        let resolvers_out = config.generate.resolvers_output.clone().map(|p| root.join(p));
        let mode_ext = match config.generate.mode {
            nitrogql_config_file::GenerateMode::WithLoaderTS5_0 => "d.graphql.ts",
            nitrogql_config_file::GenerateMode::WithLoaderTS4_0 => "graphql.d.ts",
            nitrogql_config_file::GenerateMode::StandaloneTS4_0 => "graphql.ts",
        };
        let nschema = schema_files.len();
        let ops: Vec<(String, String)> = op_files.iter().map(|(p, t)| (p.clone(), t.clone())).collect();
        let r = nvh::real::with_schema(&texts, |resolved, schema| {
            let mut outs: Vec<(String, Result<String, String>)> = vec![];
            outs.push((OUTPUTS[0].1.to_string(), nvh::real::print_schema_types(resolved, &config)));
            if let Some(ro) = &resolvers_out {
                outs.push((OUTPUTS[1].1.to_string(), lib_resolvers(resolved, &config, ro, &schema_out)));
            }
            for (k, (p, t)) in ops.iter().enumerate() {
                let mut decl = root.join(p);
                decl.set_extension(mode_ext);
                let rel = decl.strip_prefix(&root).unwrap().to_string_lossy().to_string();
                let o = nvh::real::with_operation(schema, t, nschema + k, |doc, diags| {
                    if !diags.is_empty() {
                        return Err(format!("library check reports {diags:?}"));
                    }
                    lib_operation(schema, doc, &config, &decl, &schema_out)
                });
                outs.push((rel, match o {
                    Ok(x) => x,
                    Err(e) => Err(format!("{e:?}")),
                }));
            }
            outs
        });
        self.rep.evaluations += 1;
        self.rep.o_cases += 1;
        match r {
            Err(stage) => {
                if cli_out.code == Some(0) {
                    self.rep.fail("O", "lib:pipeline-rejects", &format!("the library pipeline stops ({stage:?}) on a project the CLI generates"), case);
                }
            }
            Ok(outs) => {
                for (rel, out) in outs {
                    self.rep.o_cases += 1;
                    let kind = file_kind(&rel);
                    match (out, cli_out.files.get(&rel)) {
                        (Err(e), _) => self.rep.fail("O", &format!("lib:{kind}:print-failed"), &format!("{rel}: library printer fails: {e}"), case.clone()),
                        (Ok(_), None) => self.rep.fail("O", &format!("lib:{kind}:cli-wrote-nothing"), &format!("{rel}: the CLI wrote no such file"), case.clone()),
                        (Ok(text), Some(bytes)) => {
                            let name = Path::new(&rel).file_name().unwrap().to_string_lossy().to_string();
                            let expect = format!("{text}\n//# sourceMappingURL={name}.map\n");
                            if expect.as_bytes() != bytes.as_slice() {
                                let c = first_diff_construct(&expect, &String::from_utf8_lossy(bytes));
                                self.rep.fail("O", &format!("lib:{kind}:{c}"), &format!("{rel}: library text + trailer ≠ bytes written by the CLI ({c})"), case.clone());
                            } else {
                                self.rep.count(&format!("lib-eq-cli:{kind}"));
                            }
                        }
                    }
                }
            }
        }
    }

    // -----------------------------------------------------------------------------------------
    // (c) permuted projects

    /// returns the exit code of the permuted project
    fn perm_compare(&mut self, how: &str, a: &Files, b: &Files, opmap: &[(String, String)], base: Option<&RunOut>, faulty: bool) -> Option<i32> {
        let code = self.perm_compare_inner(how, a, b, opmap, base, faulty);
        code
    }

    fn perm_compare_inner(&mut self, how: &str, a: &Files, b: &Files, opmap: &[(String, String)], base: Option<&RunOut>, faulty: bool) -> Option<i32> {
        let case = json!({"kind": "perm", "how": how, "faulty": faulty, "a": files_json(a), "b": files_json(b), "opmap": opmap});
        let cmd = if faulty { "check" } else { "generate" };
        let ra_owned;
        let ra = match base {
            Some(r) => r,
            None => {
                ra_owned = self.run_once(a, cmd);
                &ra_owned
            }
        };
        let rb = self.run_once(b, cmd);
        self.rep.evaluations += 1;
        self.rep.o_cases += 1;
        self.rep.count(&format!("perm:{how}"));
        if ra.code != rb.code {
            self.rep.fail("O", &format!("perm:{how}:verdict"), &format!("`{cmd}` exits {:?} on the project and {:?} on the permuted project: {}", ra.code, rb.code,
                rb.stdout.chars().take(500).collect::<String>()), case);
            return rb.code;
        }
        if how.starts_with("dup-names") {
            // repeated names: the verdict is order-independent, the diagnostics name whichever definition comes later
            return rb.code;
        }
        if faulty {
            // same multiset of diagnostics (message texts)
            let msgs = |s: &str| -> Vec<String> {
                let v: Value = serde_json::from_str(s).unwrap_or(Value::Null);
                let mut m: Vec<String> = v["check"]["errors"].as_array().map(|a| a.iter().map(|e| format!("{}|{}", e["fileType"], e["message"])).collect()).unwrap_or_default();
                m.sort();
                m
            };
            let (ma, mb) = (msgs(&ra.stdout), msgs(&rb.stdout));
            if ma != mb {
                self.rep.fail("O", &format!("perm:{how}:diagnostic-set"), &format!("diagnostics differ as a multiset of messages:\n{ma:?}\n---\n{mb:?}"), case);
            }
            return rb.code;
        }
        let mut pairs: Vec<(String, String)> = vec![(OUTPUTS[0].1.into(), OUTPUTS[0].1.into()), (OUTPUTS[1].1.into(), OUTPUTS[1].1.into())];
        for (pa, pb) in opmap {
            for ext in ["d.graphql.ts", "graphql.d.ts", "graphql.ts"] {
                let (mut da, mut db) = (PathBuf::from(pa), PathBuf::from(pb));
                da.set_extension(ext);
                db.set_extension(ext);
                let (da, db) = (da.to_string_lossy().to_string(), db.to_string_lossy().to_string());
                if ra.files.contains_key(&da) || rb.files.contains_key(&db) {
                    pairs.push((da, db));
                }
            }
        }
        for (pa, pb) in pairs {
            self.rep.o_cases += 1;
            let kind = file_kind(&pa);
            match (ra.files.get(&pa), rb.files.get(&pb)) {
                (None, None) => {}
                (Some(_), None) | (None, Some(_)) => self.rep.fail("O", &format!("perm:{how}:{kind}:file-missing"), &format!("{pa} / {pb}: written for one order only"), case.clone()),
                (Some(x), Some(y)) => {
                    let (tx, ty) = (String::from_utf8_lossy(x).to_string(), String::from_utf8_lossy(y).to_string());
                    match (nvh::tsparse::parse_file(&tx), nvh::tsparse::parse_file(&ty)) {
                        (Ok(px), Ok(py)) => {
                            let (cx, cy) = (canon(&px), canon(&py));
                            if cx != cy {
                                let what = first_stmt_diff(&cx, &cy);
                                self.rep.fail("O", &format!("perm:{how}:{kind}:denotation:{}", what.0), &format!("{pa}: declarations differ beyond order after `{how}`: {}", what.1), case.clone());
                            } else if tx != ty {
                                self.rep.count(&format!("perm-order-only-difference:{kind}"));
                            } else {
                                self.rep.count(&format!("perm-identical:{kind}"));
                            }
                        }
                        (ex, ey) => self.rep.fail("O", &format!("perm:{how}:{kind}:unparsable"), &format!("{pa}: emitted file does not parse: {:?} {:?}", ex.err().map(|e| e.msg), ey.err().map(|e| e.msg)), case.clone()),
                    }
                }
            }
        }
        // server schema: same multiset of lines (definition and member order may follow the source order)
        if how == "union-member-order" {
            return rb.code; // the `union U = …` line itself differs
        }
        if let (Some(x), Some(y)) = (ra.files.get(OUTPUTS[2].1), rb.files.get(OUTPUTS[2].1)) {
            let lines = |v: &Vec<u8>| {
                let mut l: Vec<String> = String::from_utf8_lossy(v).lines().map(|s| s.to_string()).collect();
                l.sort();
                l
            };
            if lines(x) != lines(y) {
                self.rep.fail("O", &format!("perm:{how}:server-graphql:lines"), "server schema differs as a multiset of lines", case.clone());
            }
        }
        rb.code
    }

    fn permutations_of(&mut self, rng: &mut Rng, spec: &Spec, base_files: &Files, base: &RunOut, n: usize) {
        for k in 0..n {
            let how = ["shuffle-in-file", "move-across-files", "rename-files", "all"][k % 4];
            let mut schema_files = spec.schema_files.clone();
            let mut op_files = spec.op_files.clone();
            let mut opmap: Vec<(String, String)> = op_files.iter().map(|(p, _)| (p.clone(), p.clone())).collect();
            if how == "shuffle-in-file" || how == "all" {
                for (_, items) in schema_files.iter_mut() {
                    rng.shuffle(items);
                }
            }
            if how == "move-across-files" || how == "all" {
                let n = schema_files.len();
                let all: Vec<TsItem> = schema_files.iter().flat_map(|(_, i)| i.clone()).collect();
                for (_, items) in schema_files.iter_mut() {
                    items.clear();
                }
                for it in all {
                    let k = rng.below(n);
                    schema_files[k].1.push(it);
                }
                no_empty_file(&mut schema_files);
            }
            if how == "rename-files" || how == "all" {
                let mut names: Vec<String> = (0..schema_files.len()).map(|i| format!("schema/{}{}.graphql", ["z", "m", "b", "y", "k"][rng.below(5)], i)).collect();
                rng.shuffle(&mut names);
                for (i, (p, _)) in schema_files.iter_mut().enumerate() {
                    *p = names[i].clone();
                }
                let mut onames: Vec<String> = (0..op_files.len()).map(|i| format!("ops/{}{}.graphql", ["w", "c", "n"][rng.below(3)], i)).collect();
                rng.shuffle(&mut onames);
                for (i, (p, _)) in op_files.iter_mut().enumerate() {
                    opmap[i].1 = onames[i].clone();
                    *p = onames[i].clone();
                }
            }
            let permuted = Spec { schema: SchemaModel { doc: spec.schema.doc.clone(), query: spec.schema.query.clone(), mutation: spec.schema.mutation.clone(), subscription: spec.schema.subscription.clone() },
                schema_files, op_files, cfg: spec.cfg.clone(), features: BTreeSet::new() };
            let b = spec_files(&permuted);
            self.perm_compare(how, base_files, &b, &opmap, Some(base), false);
        }
    }

    // -----------------------------------------------------------------------------------------
    // (c') targeted projects: every order of ≤ 6 definitions, single- and multi-file

    fn targeted_project(&mut self, rng: &mut Rng, t: &targeted::Targeted, max_orders: usize, multi: usize) -> RunOut {
        let layout = |order: &[usize], cuts: &[usize], names: &[String]| -> Files {
            let mut files: Files = vec![];
            let mut start = 0;
            for (k, cut) in cuts.iter().chain(std::iter::once(&order.len())).enumerate() {
                let text: String = order[start..*cut].iter().map(|i| format!("{}\n", t.defs[*i])).collect();
                if !text.is_empty() {
                    files.push((names[k].clone(), text));
                }
                start = *cut;
            }
            files.push(("ops/q.graphql".to_string(), t.ops.to_string()));
            files.push((CONFIG.to_string(), targeted::TARGETED_CONFIG.to_string()));
            files
        };
        let n = t.defs.len();
        let mut orders = targeted::all_orders(n);
        let identity = orders.remove(0);
        if orders.len() > max_orders {
            rng.shuffle(&mut orders);
            // keep the reverse order in any case
            let rev: Vec<usize> = (0..n).rev().collect();
            orders.truncate(max_orders);
            if !orders.contains(&rev) {
                orders.push(rev);
            }
        }
        let single = vec!["schema/schema.graphql".to_string()];
        let base_files = layout(&identity, &[], &single);
        let base = self.run_once(&base_files, "generate");
        self.rep.evaluations += 1;
        let opmap = vec![("ops/q.graphql".to_string(), "ops/q.graphql".to_string())];
        let how = format!("all-orders:{}", t.name);
        let mut accepted = if base.code == Some(0) { 1 } else { 0 };
        for o in &orders {
            let files = layout(o, &[], &single);
            if self.perm_compare(&how, &base_files, &files, &opmap, Some(&base), false) == Some(0) {
                accepted += 1;
            }
        }
        // multi-file: random orders cut into 2-3 files with random names (glob order = sorted names)
        let how_multi = format!("all-orders-multi-file:{}", t.name);
        for _ in 0..multi {
            let mut o = identity.clone();
            rng.shuffle(&mut o);
            let mut cuts: Vec<usize> = (0..1 + rng.below(2)).map(|_| 1 + rng.below(n - 1)).collect();
            cuts.sort();
            cuts.dedup();
            let mut names: Vec<String> = (0..3).map(|i| format!("schema/{}{}.graphql", ["z", "a", "m", "k"][rng.below(4)], i)).collect();
            rng.shuffle(&mut names);
            let files = layout(&o, &cuts, &names);
            self.perm_compare(&how_multi, &base_files, &files, &opmap, Some(&base), false);
        }
        if accepted == 0 {
            self.rep.fail("O", &format!("targeted:{}:rejected-in-every-order", t.name), &format!("a valid project is rejected: {}", base.stdout.chars().take(400).collect::<String>()),
                json!({"kind": "repeat", "cmd": "generate", "runs": 1, "expect_ok": true, "files": files_json(&base_files)}));
        }
        self.rep.nontrivial(&format!("targeted|{}", t.name));
        self.rep.count_n(&format!("targeted-orders:{}", t.name), orders.len() as u64 + multi as u64);
        base
    }

    // -----------------------------------------------------------------------------------------
    // (c'') repeated names / re-declared built-in directives: the verdict of `check` in every order

    fn dup_names_project(&mut self, rng: &mut Rng, t: &targeted::DupNames, max_orders: usize, multi: usize) {
        let layout = |order: &[usize], cuts: &[usize], names: &[String]| -> Files {
            let mut files: Files = vec![];
            let mut start = 0;
            for (k, cut) in cuts.iter().chain(std::iter::once(&order.len())).enumerate() {
                let text: String = order[start..*cut].iter().map(|i| format!("{}\n", t.defs[*i])).collect();
                if !text.is_empty() {
                    files.push((names[k].clone(), text));
                }
                start = *cut;
            }
            files.push(("ops/q.graphql".to_string(), "query Q { __typename }\n".to_string()));
            files.push((CONFIG.to_string(), targeted::TARGETED_CONFIG.to_string()));
            files
        };
        let n = t.defs.len();
        let mut orders = targeted::all_orders(n);
        let identity = orders.remove(0);
        if orders.len() > max_orders {
            rng.shuffle(&mut orders);
            let rev: Vec<usize> = (0..n).rev().collect();
            orders.truncate(max_orders);
            if !orders.contains(&rev) {
                orders.push(rev);
            }
        }
        let single = vec!["schema/schema.graphql".to_string()];
        let base_files = layout(&identity, &[], &single);
        // the expected verdict in the written order (2 fresh processes), then every other order against it
        let base = self.repeat(&base_files, "check", 2, Some(!t.expect_rejected));
        let how = format!("dup-names:{}", t.name);
        for o in &orders {
            let files = layout(o, &[], &single);
            self.perm_compare(&how, &base_files, &files, &[], Some(&base), true);
        }
        let how_multi = format!("dup-names-multi-file:{}", t.name);
        for _ in 0..multi {
            let mut o = identity.clone();
            rng.shuffle(&mut o);
            let mut cuts: Vec<usize> = (0..1 + rng.below(2)).map(|_| 1 + rng.below(n - 1)).collect();
            cuts.sort();
            cuts.dedup();
            let mut names: Vec<String> = (0..3).map(|i| format!("schema/{}{}.graphql", ["z", "a", "m", "k"][rng.below(4)], i)).collect();
            rng.shuffle(&mut names);
            let files = layout(&o, &cuts, &names);
            self.perm_compare(&how_multi, &base_files, &files, &[], Some(&base), true);
        }
        self.rep.nontrivial(&format!("dup-names|{}", t.name));
        self.rep.count_n(&format!("dup-names-orders:{}", t.name), orders.len() as u64 + multi as u64);
    }

    // -----------------------------------------------------------------------------------------
    // (c''') faults that need several definitions: every order, one file and one file per definition

    fn multidef_fail(&mut self, m: &multidef::MultiDef, defs: &[String], la: &multidef::Layout, cmd_a: &'static str, lb: &multidef::Layout, cmd_b: &'static str, kind: &str, what: String) {
        let sig = format!("perm:multi-def:{}:{kind}", m.class);
        if self.rep.failures.iter().any(|f| f.stream == "O" && f.signature == sig) {
            self.rep.fail("O", &sig, &what, Value::Null); // counted; the first (smallest) project of the class is the replay
            return;
        }
        let (sa, sb, w) = multidef::shrink(&self.cli, &self.scratch, defs, la, cmd_a, lb, cmd_b, kind);
        let what = if w.is_empty() { what } else { w };
        self.rep.fail("O", &sig, &format!("project '{}': {what}", m.name), multidef::case_json(m.class, &m.name, defs, &sa, cmd_a, &sb, cmd_b));
    }

    fn multidef_expect(&mut self, class: &str, name: &str, defs: &[String], layout: &multidef::Layout, out: &multidef::Out, expect_rejected: Option<bool>, recursing: Option<&BTreeSet<String>>) {
        let case = json!({"kind": "multidef-expect", "class": class, "project": name, "defs": defs, "a": Value::Array(layout.iter().map(|(p, ids)| json!([p, ids])).collect()),
            "expect_rejected": expect_rejected, "recursing": recursing.map(|r| r.iter().cloned().collect::<Vec<_>>()),
            "files_a": files_json(&multidef::layout_files(defs, layout))});
        if let Some(rej) = expect_rejected {
            let ok = if rej { out.code == Some(1) } else { out.code == Some(0) };
            if !ok {
                self.rep.fail("O", &format!("multi-def:{class}:{}", if rej { "faulty-schema-accepted" } else { "valid-schema-rejected" }),
                    &format!("project '{name}': `check` exits {:?} on a schema that is {} by construction: {} {}", out.code, if rej { "faulty" } else { "valid" },
                        out.stdout.chars().take(400).collect::<String>(), out.stderr.chars().take(200).collect::<String>()), case.clone());
            }
        }
        if let Some(want) = recursing {
            let (got, other) = multidef::recursing_names(&out.stdout);
            if &got != want || !other.is_empty() {
                self.rep.fail("O", &format!("multi-def:{class}:recursing-set"),
                    &format!("project '{name}': the directives on a cycle of the reference graph are {want:?}; `check` reports {got:?} as recursing (other diagnostics: {other:?})"), case);
            }
        }
    }

    fn multidef_project(&mut self, rng: &mut Rng, m: &multidef::MultiDef, max_orders: usize, generate_all: bool) {
        let n = m.defs.len();
        let defs: Vec<String> = m.defs.iter().chain(m.rest.iter()).cloned().collect();
        let mut orders = targeted::all_orders(n);
        if orders.len() > max_orders + 1 {
            let identity = orders.remove(0);
            rng.shuffle(&mut orders);
            orders.truncate(max_orders);
            let rev: Vec<usize> = (0..n).rev().collect();
            if !orders.contains(&rev) {
                orders.push(rev);
            }
            orders.insert(0, identity);
        }
        // with 1-2 participating definitions the position of the other definitions still rotates
        let rounds = orders.len().max(if m.rest.is_empty() { 1 } else { 3 });
        let gen_pick = 1 + rng.below(rounds.max(2) - 1);
        let mut plan: Vec<(multidef::Layout, &'static str)> = vec![];
        for k in 0..rounds {
            let o = &orders[k % orders.len()];
            for one_per_file in [false, true] {
                let l = multidef::make_layout(o, m.rest.len(), k, one_per_file);
                plan.push((l.clone(), "check"));
                if generate_all || k == 0 || k == gen_pick {
                    plan.push((l, "generate"));
                }
            }
        }
        let jobs: Vec<multidef::Job> = plan.iter().map(|(l, cmd)| multidef::Job { files: multidef::layout_files(&defs, l), cmd }).collect();
        self.counter += 1;
        let outs = multidef::run_jobs(&self.cli, &self.scratch, &format!("p{}", self.counter), &jobs);
        self.rep.evaluations += jobs.len() as u64;
        self.rep.count(&format!("multi-def:class:{}", m.class));
        self.rep.count_n("multi-def:layouts", plan.len() as u64);
        self.rep.count(&format!("multi-def:base-verdict:{}", match outs[0].code { Some(0) => "accepted", Some(1) => "rejected", _ => "other" }));
        self.rep.nontrivial(&format!("multi-def|{}|{:?}", m.name, defs));
        // the written order against the construction
        self.rep.o_cases += 1;
        self.multidef_expect(m.class, &m.name, &defs, &plan[0].0, &outs[0], m.expect_rejected, m.recursing.as_ref());
        // every other layout / command against the written order
        let mut reported: BTreeSet<&'static str> = BTreeSet::new();
        for i in 1..plan.len() {
            self.rep.o_cases += 1;
            if let Some((kind, what)) = multidef::compare(&defs, &plan[0].0, &outs[0], plan[0].1, &plan[i].0, &outs[i], plan[i].1) {
                if reported.insert(kind) {
                    self.multidef_fail(m, &defs, &plan[0].0, plan[0].1, &plan[i].0, plan[i].1, kind, what);
                } else {
                    self.rep.count(&format!("fail:O:perm:multi-def:{}:{kind}", m.class));
                }
            }
        }
    }

    // -----------------------------------------------------------------------------------------
    // (a') schema given as an introspection JSON that omits built-in scalars

    fn introspection_project(&mut self, label: &str, json_text: String, ops: Vec<(String, String)>, scalars_yaml: &str, runs: usize, expect_ok: Option<bool>) {
        let mut files: Files = vec![("schema.json".to_string(), json_text)];
        files.extend(ops);
        files.push((CONFIG.to_string(), format!(
            "schema: \"schema.json\"\ndocuments: \"ops/*.graphql\"\nextensions:\n  nitrogql:\n    generate:\n      schemaOutput: \"gen/schema.d.ts\"\n      resolversOutput: \"gen/resolvers.d.ts\"\n      serverGraphqlOutput: \"gen/server-schema.ts\"\n{scalars_yaml}")));
        let first = self.repeat(&files, "generate", runs, expect_ok);
        self.rep.count(&format!("introspection-project:{label}:{}", if first.code == Some(0) { "generated" } else { "rejected" }));
        if first.code == Some(0) {
            self.rep.nontrivial(&format!("{files:?}"));
        }
    }

    // -----------------------------------------------------------------------------------------
    // K: local type names

    fn k_localnames(&mut self, spec: &Spec, out: &RunOut) {
        let Some(bytes) = out.files.get(OUTPUTS[0].1) else { return };
        let text = String::from_utf8_lossy(bytes).to_string();
        // scalar type map as `get_scalar_types` builds it: config entry (built-in defaults overridden by the config)
        let mut map: BTreeMap<String, Vec<String>> = BTreeMap::new();
        map.insert("ID".into(), vec!["string | number".into(), "string".into()]);
        map.insert("String".into(), vec!["string".into()]);
        map.insert("Int".into(), vec!["number".into()]);
        map.insert("Float".into(), vec!["number".into()]);
        map.insert("Boolean".into(), vec!["boolean".into()]);
        for (n, c) in &spec.cfg.scalars {
            let v = match c {
                ScalarCfg::Single(t) => vec![t.clone()],
                ScalarCfg::SendReceive { send, receive } => vec![send.clone(), receive.clone()],
                ScalarCfg::Separate { resolver_output, resolver_input, operation_output, operation_input } => vec![resolver_output.clone(), resolver_input.clone(), operation_output.clone(), operation_input.clone()],
            };
            map.insert(n.clone(), v);
        }
        let scalar_names: BTreeSet<String> = spec.schema.types().filter(|t| t.kind == TypeKind::Scalar).map(|t| t.name.clone()).chain(BUILTIN_SCALARS.iter().map(|s| s.to_string())).collect();
        let groups: Vec<Sexp> = map.iter().filter(|(n, _)| scalar_names.contains(*n)).map(|(_, v)| Sexp::list(v.iter().map(|t| Sexp::str(t.as_str())).collect())).collect();
        let mut type_names: Vec<String> = spec.schema.types().map(|t| t.name.clone()).collect();
        type_names.extend(BUILTIN_SCALARS.iter().map(|s| s.to_string()));
        let req = Sexp::call("localnames", vec![Sexp::call("texts", groups), Sexp::call("types", type_names.iter().map(|n| Sexp::str(n.as_str())).collect())]);
        let ans = self.drv.one(&req);
        self.rep.k_cases += 1;
        let mut predicted: BTreeSet<String> = BTreeSet::new();
        for pair in ans.args() {
            if let Some(l) = pair.as_list() {
                let (n, loc) = (l[0].as_str().unwrap_or(""), l[1].as_str().unwrap_or(""));
                if n != loc {
                    predicted.insert(n.to_string());
                }
            }
        }
        let mut observed: BTreeSet<String> = BTreeSet::new();
        let mut rest = text.as_str();
        while let Some(i) = rest.find("__tmp_") {
            let tail = &rest[i + 6..];
            let end = tail.find(|c: char| !(c.is_ascii_alphanumeric() || c == '_')).unwrap_or(tail.len());
            observed.insert(tail[..end].to_string());
            rest = &tail[end..];
        }
        if predicted != observed {
            self.rep.fail("K", "localnames", &format!("types renamed to __tmp_*: model {predicted:?}, real schema declaration file {observed:?}"),
                json!({"kind": "localnames", "request": req.to_line(), "observed": observed}));
        }
        self.rep.count(if observed.is_empty() { "localnames:none-renamed" } else { "localnames:some-renamed" });
    }
}

fn path_to_ts(p: PathBuf) -> PathBuf {
    const TS_TO_JS: [(&str, &str); 7] = [(".d.ts", ".js"), (".d.cts", ".cjs"), (".d.mts", ".mjs"), (".ts", ".js"), (".tsx", ".js"), (".cts", ".cjs"), (".mts", ".mjs")];
    let mut p = p;
    if let Some(name) = p.file_name().map(|n| n.to_string_lossy().to_string()) {
        for (ts, js) in TS_TO_JS {
            if name.ends_with(ts) {
                p.set_file_name(format!("{}{}", &name[..name.len() - ts.len()], js));
                return p;
            }
        }
    }
    p
}

fn lib_resolvers(resolved: &nitrogql_ast::TypeSystemDocument, config: &nitrogql_config_file::Config, resolvers_out: &Path, schema_out: &Path) -> Result<String, String> {
    use nitrogql_printer::{ResolverTypePrinter, ResolverTypePrinterOptions};
    catch(std::panic::AssertUnwindSafe(|| {
        let mut result = String::new();
        let mut writer = sourcemap_writer::JustWriter::new(&mut result);
        let mut options = ResolverTypePrinterOptions::from_config(config);
        options.schema_source = config.generate.schema_module_specifier.clone().unwrap_or_else(|| path_to_ts(nitrogql_utils::relative_path(resolvers_out, schema_out)).to_string_lossy().to_string());
        let mut printer = ResolverTypePrinter::new(options, &mut writer);
        let plugins: Vec<nitrogql_plugin::Plugin> = vec![];
        match printer.print_document(resolved, &plugins) {
            Ok(()) => Ok(result),
            Err(e) => Err(format!("ResolverTypePrinter error: {e}")),
        }
    }))
    .and_then(|x| x)
}

fn lib_operation(schema: &graphql_type_system::Schema<std::borrow::Cow<str>, nitrogql_ast::base::Pos>, doc: &nitrogql_ast::OperationDocument, config: &nitrogql_config_file::Config, decl: &Path, schema_out: &Path) -> Result<String, String> {
    use nitrogql_printer::{print_types_for_operation_document, OperationTypePrinterOptions};
    catch(std::panic::AssertUnwindSafe(|| {
        let mut result = String::new();
        let mut writer = sourcemap_writer::JustWriter::new(&mut result);
        let mut options = OperationTypePrinterOptions::from_config(config);
        options.schema_source = config.generate.schema_module_specifier.clone().unwrap_or_else(|| path_to_ts(nitrogql_utils::relative_path(decl, schema_out)).to_string_lossy().to_string());
        print_types_for_operation_document(options, schema, doc, &mut writer);
        result
    }))
}

// ---------------------------------------------------------------------------------------------
// canonical form of a parsed declaration file: declaration order, union/intersection member order and object
// field order are not part of the denotation

fn canon(s: &Sexp) -> Sexp {
    let Some(l) = s.as_list() else { return s.clone() };
    let head = s.head().unwrap_or("");
    let mut kids: Vec<Sexp> = l.iter().map(canon).collect();
    let sort_from = |kids: &mut Vec<Sexp>, from: usize, dedup: bool| {
        let mut tail: Vec<Sexp> = kids.split_off(from);
        tail.sort_by_key(|x| x.to_line());
        if dedup {
            tail.dedup();
        }
        kids.extend(tail);
    };
    match head {
        "union" | "inter" => sort_from(&mut kids, 1, true),
        "obj" | "tsfile" => sort_from(&mut kids, 1, false),
        "namespace" => {
            if let Some(body) = kids.get(3).and_then(|b| b.as_list()).map(|b| b.to_vec()) {
                let mut b = body;
                b.sort_by_key(|x| x.to_line());
                kids[3] = Sexp::list(b);
            }
        }
        "exportlist" => {
            if let Some(body) = kids.get(2).and_then(|b| b.as_list()).map(|b| b.to_vec()) {
                let mut b = body;
                b.sort_by_key(|x| x.to_line());
                kids[2] = Sexp::list(b);
            }
        }
        _ => {}
    }
    Sexp::list(kids)
}

/// (statement kind of the first declaration present on one side only, description)
fn first_stmt_diff(a: &Sexp, b: &Sexp) -> (String, String) {
    let (la, lb) = (a.args().to_vec(), b.args().to_vec());
    let sb: BTreeSet<String> = lb.iter().map(|x| x.to_line()).collect();
    let sa: BTreeSet<String> = la.iter().map(|x| x.to_line()).collect();
    for x in la.iter().chain(lb.iter()) {
        let line = x.to_line();
        if !(sa.contains(&line) && sb.contains(&line)) {
            let kind = x.head().unwrap_or("?").to_string();
            if kind == "namespace" {
                // descend into the namespace with the same name on the other side
                let name = x.args().get(1).map(|n| n.to_line()).unwrap_or_default();
                let other = la.iter().chain(lb.iter()).find(|y| y.head() == Some("namespace") && y.args().get(1).map(|n| n.to_line()) == Some(name.clone()) && y.to_line() != line);
                if let (Some(o), Some(bx), ) = (other, x.args().get(2)) {
                    if let Some(bo) = o.args().get(2) {
                        let (d, t) = first_stmt_diff(&Sexp::call("ns", bx.as_list().unwrap_or(&[]).to_vec()), &Sexp::call("ns", bo.as_list().unwrap_or(&[]).to_vec()));
                        return (format!("namespace/{d}"), t);
                    }
                }
            }
            return (kind, line.chars().take(400).collect());
        }
    }
    ("none".into(), String::new())
}

// ---------------------------------------------------------------------------------------------
// (d) loader

fn abi_call_str<R>(s: &str, f: impl FnOnce(*const u8, usize) -> R) -> R {
    let p = loader_native::alloc_string(s.len());
    unsafe {
        std::ptr::copy_nonoverlapping(s.as_ptr(), p, s.len());
    }
    let r = f(p, s.len());
    unsafe {
        loader_native::free_string(p, s.len());
    }
    r
}
fn abi_result() -> String {
    let p = loader_native::get_result_ptr();
    let n = loader_native::get_result_size();
    String::from_utf8_lossy(unsafe { std::slice::from_raw_parts(p, n) }).into_owned()
}

struct LoaderCase {
    main: String,
    files: Files, // absolute path, text
}

fn imports_of(path: &str, text: &str) -> Vec<String> {
    let base = Path::new(path).parent().unwrap_or(Path::new("/")).to_path_buf();
    let mut out = vec![];
    for line in text.lines() {
        if let Some(rest) = line.trim().strip_prefix("#import") {
            if let Some(i) = rest.find("from") {
                let q = rest[i + 4..].trim().trim_matches(|c| c == '"' || c == '\'');
                out.push(nvh::cli::lexical_normalize(&base.join(q)).to_string_lossy().to_string());
            }
        }
    }
    out
}

fn gen_loader_case(rng: &mut Rng) -> LoaderCase {
    let n = 3 + rng.below(3); // imported files
    let names: Vec<String> = (0..n).map(|i| if i % 2 == 0 { format!("/p/f{i}.graphql") } else { format!("/p/sub/f{i}.graphql") }).collect();
    let rel = |from: &str, to: &str| -> String {
        let from_sub = from.starts_with("/p/sub/");
        let t = to.trim_start_matches("/p/");
        if from_sub { format!("../{t}") } else { format!("./{t}") }
    };
    let mut files: Files = vec![];
    for (i, p) in names.iter().enumerate() {
        let mut text = String::new();
        // imports only point to higher indices (acyclic), 0..2 of them
        for j in (i + 1)..n {
            if rng.chance(1, 2) {
                text.push_str(&format!("#import * from \"{}\"\n", rel(p, &names[j])));
            }
        }
        text.push_str(&format!("fragment F{i} on Query {{ __typename }}\n"));
        files.push((p.clone(), text));
    }
    let mut main = String::new();
    let mut k = 0;
    for (i, p) in names.iter().enumerate() {
        if i < 2 || rng.chance(1, 2) {
            main.push_str(&format!("#import * from \"{}\"\n", rel("/p/main.graphql", p)));
            k += 1;
        }
    }
    let _ = k;
    main.push_str("query Main { __typename ...F0 }\n");
    LoaderCase { main, files }
}

/// one task on the real ABI; required files are loaded in a random order each round.
/// Returns (emitted js or error, the get_required_files answers of every round with the loaded set at that time)
fn loader_trial(rng: &mut Rng, case: &LoaderCase) -> (Result<String, String>, Vec<(Vec<String>, Vec<String>)>) {
    let cfg = "schema: \"s.graphql\"\nextensions:\n  nitrogql:\n    generate:\n      mode: with-loader-ts-5.0\n";
    if !abi_call_str(cfg, |p, n| loader_native::load_config(p, n)) {
        return (Err("load_config returned false".into()), vec![]);
    }
    let id = abi_call_str("/p/main.graphql", |fp, fl| abi_call_str(&case.main, |sp, sl| loader_native::initiate_task(fp, fl, sp, sl)));
    if id == 0 {
        return (Err(format!("initiate_task failed: {}", abi_result())), vec![]);
    }
    let mut loaded: Vec<String> = vec!["/p/main.graphql".into()];
    let mut rounds = vec![];
    let mut result = Err("too many rounds".to_string());
    for _ in 0..32 {
        if !loader_native::get_required_files(id) {
            result = Err(format!("get_required_files failed: {}", abi_result()));
            break;
        }
        let req: Vec<String> = abi_result().split('\n').filter(|s| !s.is_empty()).map(|s| s.to_string()).collect();
        rounds.push((loaded.clone(), req.clone()));
        if req.is_empty() {
            result = if loader_native::emit_js(id) { Ok(abi_result()) } else { Err(format!("emit_js failed: {}", abi_result())) };
            break;
        }
        // load a random non-empty subset of the required files, in random order (the rest is asked for again)
        let mut order = req.clone();
        rng.shuffle(&mut order);
        let take = 1 + rng.below(order.len());
        let mut failed = None;
        for r in order.into_iter().take(take) {
            match case.files.iter().find(|(p, _)| *p == r) {
                Some((p, t)) => {
                    if !abi_call_str(p, |fp, fl| abi_call_str(t, |sp, sl| loader_native::load_file(id, fp, fl, sp, sl))) {
                        failed = Some(format!("load_file failed: {}", abi_result()));
                    }
                    loaded.push(p.clone());
                }
                None => failed = Some(format!("loader requires unknown file {r}")),
            }
        }
        if let Some(f) = failed {
            result = Err(f);
            break;
        }
    }
    loader_native::free_task(id);
    (result, rounds)
}

fn loader_stream(ctx: &mut Ctx, rng: &mut Rng, case: &LoaderCase, trials: usize, order_seen: &mut (u64, u64)) {
    let cj = json!({"kind": "loader", "main": case.main, "files": files_json(&case.files), "trials": trials});
    let text_of = |p: &str| -> String { if p == "/p/main.graphql" { case.main.clone() } else { case.files.iter().find(|(q, _)| q == p).map(|(_, t)| t.clone()).unwrap_or_default() } };
    let mut first: Option<Result<String, String>> = None;
    // (loaded set) -> distinct real answers
    let mut answers: BTreeMap<Vec<String>, BTreeSet<Vec<String>>> = BTreeMap::new();
    for t in 0..trials {
        let (out, rounds) = loader_trial(rng, case);
        ctx.rep.evaluations += 1;
        ctx.rep.o_cases += 1;
        match &first {
            None => first = Some(out),
            Some(f) => {
                if *f != out {
                    let c = match (f, &out) {
                        (Ok(a), Ok(b)) => first_diff_construct(a, b),
                        _ => "ok-vs-error".into(),
                    };
                    ctx.rep.fail("O", &format!("loader-emit:{c}"), &format!("emit_js differs between trial 1 and trial {} (files loaded in another order): {:?} vs {:?}", t + 1,
                        f.as_ref().map(|s| s.chars().take(200).collect::<String>()), out.as_ref().map(|s| s.chars().take(200).collect::<String>())), cj.clone());
                }
            }
        }
        for (loaded, req) in rounds {
            let mut key = loaded.clone();
            key.sort();
            answers.entry(key).or_default().insert(req);
        }
    }
    // K: members and order-dependence of get_required_files against the model
    let keys: Vec<Vec<String>> = answers.keys().cloned().collect();
    let reqs: Vec<Sexp> = keys.iter().map(|loaded| {
        Sexp::call("required", loaded.iter().map(|p| {
            let mut v = vec![Sexp::str(p.as_str())];
            v.extend(imports_of(p, &text_of(p)).into_iter().map(Sexp::str));
            Sexp::call("file", v)
        }).collect())
    }).collect();
    let ans = ctx.drv.batch(&reqs);
    for (i, loaded) in keys.iter().enumerate() {
        ctx.rep.k_cases += 1;
        let a = &ans[i];
        let all: BTreeSet<Vec<String>> = a.args().iter().find(|x| x.head() == Some("all")).map(|x| x.args().iter().map(|r| r.as_list().unwrap_or(&[]).iter().map(|s| s.as_str().unwrap_or("").to_string()).collect()).collect()).unwrap_or_default();
        let variants = all.len();
        let real = &answers[loaded];
        if !real.is_subset(&all) {
            ctx.rep.fail("K", "required-files", &format!("get_required_files with {loaded:?} loaded answers {real:?}; the model allows {all:?}"),
                json!({"kind": "loader", "main": case.main, "files": files_json(&case.files), "trials": trials}));
        }
        if variants == 1 && real.len() > 1 {
            ctx.rep.fail("K", "required-files-order", &format!("model: order independent on this input; real answers vary: {real:?}"), cj.clone());
        }
        if variants > 1 {
            order_seen.0 += 1;
            if real.len() > 1 {
                order_seen.1 += 1;
            }
            ctx.rep.count("loader:model-predicts-order-dependence");
        } else {
            ctx.rep.count("loader:model-predicts-order-independence");
        }
    }
    ctx.rep.nontrivial(&format!("loader|{}|{:?}", case.main, case.files));
}

// ---------------------------------------------------------------------------------------------

/// `at_top`: the faults are the FIRST line of every file instead (identifiers of equal width), so that the diagnostics of
/// the files tie pairwise on (line, column); a cross-kind name clash per schema file is added (its second half at the end)
fn faulty_variant(rng: &mut Rng, spec: &Spec, schema_faults: bool, at_top: bool) -> Files {
    let mut files = spec_files(spec);
    let mut k = 0;
    if at_top {
        for (p, t) in files.iter_mut() {
            if schema_faults && p.starts_with("schema/") {
                *t = format!("enum Dup{k} {{ A }} type BadType{k} {{ f{k}: NoSuchType{k} g: NoSuchOther{k} }}\n{t}\ntype Dup{k} {{ x: Int }}\n");
                k += 1;
            }
            if !schema_faults && p.starts_with("ops/") && p.ends_with(".graphql") {
                *t = format!("query Bad{k}a {{ __nope{k} }} query Bad{k}b($v: NoSuchInput{k}) {{ __typename ...Missing{k} }} fragment BadF{k} on NoSuchType{k} {{ x }}\n{t}");
                k += 1;
            }
        }
        return files;
    }
    for (p, t) in files.iter_mut() {
        if schema_faults && p.starts_with("schema/") {
            t.push_str(&format!("\ntype BadType{k} {{ f{k}: NoSuchType{k} g: NoSuchOther{k} }}\n"));
            if rng.coin() {
                t.push_str(&format!("input BadInput{k} {{ x: NoSuchInput{k} }}\n"));
            }
            k += 1;
        }
        if !schema_faults && p.starts_with("ops/") && p.ends_with(".graphql") {
            t.push_str(&format!("\nquery Bad{k}a {{ __nope{k} }}\nquery Bad{k}b($v: NoSuchInput{k}) {{ __typename ...Missing{k} }}\nfragment BadF{k} on NoSuchType{k} {{ x }}\n"));
            k += 1;
        }
    }
    files
}

fn k_sites(ctx: &mut Ctx) {
    let path = concat!(env!("CARGO_MANIFEST_DIR"), "/../translate/hash_sites.json");
    let acc_path = concat!(env!("CARGO_MANIFEST_DIR"), "/../translate/hash_sites_accounted.json");
    let (Ok(found), Ok(acc)) = (std::fs::read_to_string(path), std::fs::read_to_string(acc_path)) else {
        ctx.rep.notes.push("site-list correspondence skipped: translate/hash_sites.json not found".into());
        return;
    };
    let found: Value = serde_json::from_str(&found).unwrap_or(Value::Null);
    let acc: Value = serde_json::from_str(&acc).unwrap_or(Value::Null);
    let mut scanned: BTreeSet<String> = BTreeSet::new();
    for s in found["sites"].as_array().cloned().unwrap_or_default() {
        let class = acc["sites"].as_array().and_then(|a| a.iter().find(|x| x["file"] == s["file"] && x["function"] == s["function"] && x["expr"] == s["expr"])).map(|x| x["class"].as_str().unwrap_or("?").to_string()).unwrap_or("unaccounted".into());
        scanned.insert(format!("{}|{}|{}|{}|{}", s["file"].as_str().unwrap_or(""), s["function"].as_str().unwrap_or(""), s["expr"].as_str().unwrap_or(""), s["count"], class));
    }
    let ans = ctx.drv.one(&Sexp::call("sites", vec![]));
    let model: BTreeSet<String> = ans.args().iter().map(|s| {
        let a = s.args();
        format!("{}|{}|{}|{}|{}", a[0].as_str().unwrap_or(""), a[1].as_str().unwrap_or(""), a[2].as_str().unwrap_or(""), a[3].as_atom().unwrap_or(""), a[4].as_atom().unwrap_or(""))
    }).collect();
    ctx.rep.k_cases += 1;
    if model != scanned {
        let only_model: Vec<&String> = model.difference(&scanned).collect();
        let only_scan: Vec<&String> = scanned.difference(&model).collect();
        ctx.rep.fail("K", "site-list", &format!("hash-iteration sites compiled into the model ≠ sites the scanner finds now: only in model {only_model:?}; only in source {only_scan:?}"), json!({"kind": "sites"}));
    }
    ctx.rep.extra.insert("hash_sites".into(), json!(scanned));
}

fn k_idents(ctx: &mut Ctx, rng: &mut Rng, n: usize) {
    // the tokenizer of get_bag_of_identifiers re-implemented here from its Rust text (char_indices loop), against the model
    fn rust_idents(value: &str) -> Vec<String> {
        let mut result = vec![];
        let mut start_index = 0;
        let mut in_identifier = false;
        for (index, c) in value.char_indices() {
            if !in_identifier {
                if c.is_ascii_alphabetic() || c == '_' {
                    in_identifier = true;
                    start_index = index;
                }
            } else if !c.is_ascii_alphanumeric() && c != '_' {
                result.push(value[start_index..index].to_string());
                in_identifier = false;
            }
        }
        if in_identifier {
            result.push(value[start_index..].to_string());
        }
        result
    }
    let alphabet = ["a", "Z", "_", "9", " ", "|", "<", ">", "é", "{", ":", ".", "$", "-", "x1", "User", "µ", "٣", "ⅻ"];
    let mut texts: Vec<String> = vec!["".into(), "string | number".into(), "Record<string, unknown>".into(), "{ readonly raw: string }".into(), "9a b_ _ __tmp_X".into(), "éa aé µx ٣y".into()];
    for _ in 0..n {
        let len = rng.below(8);
        texts.push((0..len).map(|_| alphabet[rng.below(alphabet.len())]).collect());
    }
    let reqs: Vec<Sexp> = texts.iter().map(|t| Sexp::call("idents", vec![Sexp::str(t.as_str())])).collect();
    let ans = ctx.drv.batch(&reqs);
    for (t, a) in texts.iter().zip(ans.iter()) {
        ctx.rep.k_cases += 1;
        let model: Vec<String> = a.args().iter().map(|s| s.as_str().unwrap_or("").to_string()).collect();
        let real = rust_idents(t);
        if model != real {
            ctx.rep.fail("K", "identifiers", &format!("identifiers of {t:?}: code-transcription {real:?}, model {model:?}"), json!({"kind": "idents", "text": t}));
        }
    }
}

fn replay(ctx: &mut Ctx, rng: &mut Rng, c: &Value) {
    match c["kind"].as_str().unwrap_or("") {
        "repeat" => {
            let files = files_from_json(&c["files"]);
            ctx.repeat(&files, c["cmd"].as_str().unwrap_or("generate"), c["runs"].as_u64().unwrap_or(5).max(5) as usize, c["expect_ok"].as_bool());
        }
        "lib" => {
            let files = files_from_json(&c["files"]);
            let out = ctx.run_once(&files, "generate");
            ctx.lib_vs_cli(&files, &out);
        }
        "perm" => {
            let (a, b) = (files_from_json(&c["a"]), files_from_json(&c["b"]));
            let opmap: Vec<(String, String)> = c["opmap"].as_array().map(|v| v.iter().map(|x| (x[0].as_str().unwrap_or("").to_string(), x[1].as_str().unwrap_or("").to_string())).collect()).unwrap_or_default();
            ctx.perm_compare(c["how"].as_str().unwrap_or("all"), &a, &b, &opmap, None, c["faulty"].as_bool().unwrap_or(false));
        }
        "loader" => {
            let case = LoaderCase { main: c["main"].as_str().unwrap_or("").to_string(), files: files_from_json(&c["files"]) };
            let mut seen = (0, 0);
            loader_stream(ctx, rng, &case, c["trials"].as_u64().unwrap_or(20) as usize, &mut seen);
        }
        "multidef" => {
            let defs: Vec<String> = c["defs"].as_array().map(|a| a.iter().map(|x| x.as_str().unwrap_or("").to_string()).collect()).unwrap_or_default();
            let (la, lb) = (multidef::layout_from_json(&c["a"]), multidef::layout_from_json(&c["b"]));
            let cmd = |v: &Value| -> &'static str { if v.as_str() == Some("generate") { "generate" } else { "check" } };
            let (ca, cb) = (cmd(&c["cmd_a"]), cmd(&c["cmd_b"]));
            let outs = multidef::run_jobs(&ctx.cli, &ctx.scratch, "replay", &[multidef::Job { files: multidef::layout_files(&defs, &la), cmd: ca }, multidef::Job { files: multidef::layout_files(&defs, &lb), cmd: cb }]);
            ctx.rep.evaluations += 2;
            ctx.rep.o_cases += 1;
            if let Some((kind, what)) = multidef::compare(&defs, &la, &outs[0], ca, &lb, &outs[1], cb) {
                ctx.rep.fail("O", &format!("perm:multi-def:{}:{kind}", c["class"].as_str().unwrap_or("?")), &what, c.clone());
            }
        }
        "multidef-expect" => {
            let defs: Vec<String> = c["defs"].as_array().map(|a| a.iter().map(|x| x.as_str().unwrap_or("").to_string()).collect()).unwrap_or_default();
            let la = multidef::layout_from_json(&c["a"]);
            let outs = multidef::run_jobs(&ctx.cli, &ctx.scratch, "replay", &[multidef::Job { files: multidef::layout_files(&defs, &la), cmd: "check" }]);
            ctx.rep.evaluations += 1;
            ctx.rep.o_cases += 1;
            let rec: Option<BTreeSet<String>> = c["recursing"].as_array().map(|a| a.iter().map(|x| x.as_str().unwrap_or("").to_string()).collect());
            ctx.multidef_expect(c["class"].as_str().unwrap_or("?"), c["project"].as_str().unwrap_or("?"), &defs, &la, &outs[0], c["expect_rejected"].as_bool(), rec.as_ref());
        }
        "ties" => {
            let files = files_from_json(&c["files"]);
            let tpl = ties::Tpl { stage: Box::leak(c["stage"].as_str().unwrap_or("?").to_string().into_boxed_str()), name: Box::leak(c["template"].as_str().unwrap_or("?").to_string().into_boxed_str()),
                base: "", per_unit_base: "", unit: "", ids: None, single: true };
            let cmd = c["cmd"].as_str().unwrap_or("check").to_string();
            let format = c["format"].as_str().unwrap_or("json").to_string();
            // a replay uses at least 24 processes: two orders of two tied diagnostics are told apart with probability 1 - 2^-23
            let runs = (c["runs"].as_u64().unwrap_or(6) as usize).max(24);
            ties_project(ctx, &tpl, c["k"].as_u64().unwrap_or(2) as usize, &files, &[(cmd.as_str(), format.as_str())], runs, false);
        }
        "sites" => k_sites(ctx),
        "idents" => k_idents(ctx, rng, 0),
        other => ctx.rep.notes.push(format!("unknown replay kind {other:?}")),
    }
}

/// (c''') faults that need several definitions, every order of the definitions, one file / one file per definition
fn multidef_stream(ctx: &mut Ctx, rng: &mut Rng, args: &Args) {
    for m in multidef::family().iter() {
        ctx.multidef_project(rng, m, args.budget(40, 119), args.thorough());
    }
    for k in 0..args.budget(8, 60) {
        let m = multidef::random_directive_graph(rng, k);
        ctx.multidef_project(rng, &m, 23, args.thorough());
    }
    for k in 0..args.budget(4, 40) {
        let m = multidef::random_interface_graph(rng, k);
        ctx.multidef_project(rng, &m, 23, args.thorough());
    }
}

/// (a'') faulty projects whose diagnostics tie on (line, column) across files, N fresh processes per command and format
fn ties_project(ctx: &mut Ctx, tpl: &ties::Tpl, k: usize, files: &Files, combos: &[(&str, &str)], runs: usize, expect_tie: bool) {
    let mut jobs: Vec<ties::Job> = vec![];
    for (cmd, format) in combos {
        for _ in 0..runs {
            jobs.push(ties::Job { files, cmd, format });
        }
    }
    ctx.counter += 1;
    let outs = ties::run_jobs(&ctx.cli, &ctx.scratch, &format!("p{}", ctx.counter), &jobs);
    ctx.rep.evaluations += jobs.len() as u64;
    ctx.rep.count(&format!("tied-positions:stage:{}", tpl.stage));
    ctx.rep.count(&format!("tied-positions:k:{k}"));
    ctx.rep.nontrivial(&format!("ties|{files:?}"));
    for (c, (cmd, format)) in combos.iter().enumerate() {
        let set = &outs[c * runs..(c + 1) * runs];
        let first = &set[0];
        ctx.rep.o_cases += 1;
        ctx.rep.count(&format!("tied-positions:{cmd}:{format}"));
        if first.code == Some(0) {
            ctx.rep.fail("O", &format!("unexpected-verdict:{cmd}:faulty-project-accepted"),
                &format!("template '{}' ({}): `{cmd}` exits 0 on a project that is faulty by construction", tpl.name, tpl.stage),
                json!({"kind": "repeat", "cmd": cmd, "runs": 1, "expect_ok": false, "files": files_json(files)}));
        }
        if *format == "json" {
            // construction check: do k diagnostics really tie? (a note, not a failure: the property does not ask for it)
            let d = ties::diagnostics(&first.stdout);
            let deg = ties::tie_degree(&d);
            if ctx.dump {
                eprintln!("{} {} k={k} {cmd} exit {:?} tie-degree {deg}", tpl.stage, tpl.name, first.code);
                for x in &d {
                    eprintln!("    {}:{}:{} {}", x.0.trim_start_matches("<ROOT>/"), x.1, x.2, x.3);
                }
                if d.is_empty() {
                    eprintln!("    {}", first.stdout.trim());
                }
            }
            ctx.rep.count(&format!("tied-positions:tie-degree:{}", if tpl.single { "single-diagnostic-stage".to_string() } else { deg.min(k).to_string() }));
            if expect_tie && !tpl.single && deg < k {
                ctx.rep.count(&format!("tied-positions:template-without-tie:{}", tpl.name));
            }
        }
        for (r, next) in set.iter().enumerate().skip(1) {
            if let Some(diff) = ties::difference(first, next) {
                let class = if diff.1 == "differs" { "differs" } else { ties::order_or_content(&diff.2, &diff.3) };
                let sig = format!("nondeterministic:tied-positions:{}:{cmd}:{format}:{}:{class}", tpl.stage, diff.0);
                ctx.rep.fail("O", &sig,
                    &format!("template '{}', {k} instances (one per file): run 1 and run {} of `--output-format {format} {cmd}` in fresh processes differ in {} ({}):\n{}\n---\n{}", tpl.name, r + 1, diff.0, diff.1,
                        diff.2.chars().take(700).collect::<String>(), diff.3.chars().take(700).collect::<String>()),
                    ties::case_json(tpl.stage, tpl.name, k, cmd, format, runs, files, Some(&diff)));
                break;
            }
        }
    }
}

fn ties_stream(ctx: &mut Ctx, rng: &mut Rng, args: &Args) {
    let runs = args.budget(6, 20);
    let tpls = ties::templates();
    // smallest projects first: the first failure of a signature (the one kept as the replay) is the smallest
    let ks: Vec<usize> = if args.thorough() { vec![2, 3, 4, 5, 6] } else { vec![2, 3, 0] };
    let formats = ["json", "human", "rdjson"];
    let mut n = 0usize;
    let parity = (args.seed % 2) as usize;
    for (pass, k) in ks.into_iter().enumerate() {
        for (ti, tpl) in tpls.iter().enumerate() {
            // quick: k = 2 (`check` only), k = 3, and one of 4..6 for every other template (which half: by the seed)
            if k == 0 && ti % 2 != parity {
                continue;
            }
            let k = if k == 0 { 4 + rng.below(3) } else { k };
            let k = k.min(tpl.ids.map(|i| i.len()).unwrap_or(usize::MAX));
            // k = 2, 3: both definitions of a clashing pair in files of their own; later passes: at random
            let split = pass < 2 || rng.coin();
            let files = ties::project(rng, tpl, k, split);
            let mut combos: Vec<(&str, &str)> = formats.iter().map(|f| ("check", *f)).collect();
            if args.thorough() {
                combos.extend(formats.iter().map(|f| ("generate", *f)));
            } else if pass > 0 {
                combos.push(("generate", formats[n % 3]));
            }
            n += 1;
            ties_project(ctx, tpl, k, &files, &combos, runs, split || tpl.per_unit_base.is_empty());
        }
    }
    let untied: Vec<String> = ctx.rep.dist.keys().filter_map(|k| k.strip_prefix("tied-positions:template-without-tie:").map(|s| s.to_string())).collect();
    if !untied.is_empty() {
        ctx.rep.notes.push(format!("tied-positions: templates whose diagnostics did not tie on (line, column) across files (harness construction, not a finding): {untied:?}"));
    }
    ctx.rep.notes.push(format!("tied-positions: {runs} fresh processes per (project, command, output format); k = 3 tied diagnostics in a uniformly random order are told apart with probability 1 - 6^-{} per set of runs", runs - 1));
}

fn main() {
    let args = Args::parse();
    quiet_panics();
    let mut rep = Report::new("C17", "generated projects (schema over 2-4 files with extensions, 2-3 operation files, schema+resolvers+server outputs, random mode and scalar mappings); an evaluation = one CLI process / one in-process library composition / one loader task; non-trivial = distinct project (by its file texts) whose generate succeeds and writes all three output kinds, or a distinct loader import graph");
    let mut drv = Driver::spawn(&args.driver);
    let cli = args.extra.get("cli").cloned().unwrap_or_default();
    let scratch = if args.scratch.is_empty() { std::env::temp_dir().join("nv-c17").to_string_lossy().to_string() } else { args.scratch.clone() };
    let mut rng = Rng::new(args.seed);
    loader_native::init(0);
    let mut ctx = Ctx { rep: &mut rep, drv: &mut drv, cli: cli.clone(), scratch, counter: 0, dump: args.extra.contains_key("dump") };

    if let Some(path) = &args.replay {
        let v: Value = serde_json::from_str(&std::fs::read_to_string(path).expect("replay file")).expect("replay json");
        replay(&mut ctx, &mut rng, &v["case"]);
        rep.write(&args);
        return;
    }

    // development aid: `--only multi-def` runs that stream alone
    if args.extra.get("only").map(|s| s.as_str()) == Some("multi-def") {
        multidef_stream(&mut ctx, &mut rng, &args);
        rep.write(&args);
        return;
    }

    if args.extra.get("only").map(|s| s.as_str()) == Some("tied-positions") {
        ties_stream(&mut ctx, &mut rng, &args);
        rep.write(&args);
        return;
    }

    k_sites(&mut ctx);
    k_idents(&mut ctx, &mut rng, args.budget(300, 3000));

    let have_cli = !cli.is_empty() && Path::new(&cli).exists();
    if !have_cli {
        ctx.rep.fail("O", "cli-missing", "the nitrogql-cli binary is not available: the run-to-run comparison cannot be made", json!({"kind": "none"}));
    }
    let runs = args.budget(5, 40);
    let nprojects = args.budget(6, 14);
    let nperms = args.budget(4, 8);
    if have_cli {
        for idx in 0..nprojects {
            let spec = gen_spec(&mut rng, idx);
            let files = spec_files(&spec);
            for f in &spec.features {
                ctx.rep.count(&format!("feature:{f}"));
            }
            if idx < 2 {
                ctx.rep.sample(json!({"project": files_json(&files)}));
            }
            // (a)
            let first = ctx.repeat(&files, "generate", runs, Some(true));
            let kinds: BTreeSet<&str> = first.files.keys().map(|k| file_kind(k)).collect();
            if first.code == Some(0) && ["schema-dts", "resolvers-dts", "server-graphql", "operation-dts", "schema-map"].iter().all(|k| kinds.contains(k)) {
                ctx.rep.nontrivial(&format!("{files:?}"));
            }
            // (b)
            ctx.lib_vs_cli(&files, &first);
            // K local names
            ctx.k_localnames(&spec, &first);
            // (c)
            ctx.permutations_of(&mut rng, &spec, &files, &first, nperms);
            // faulty projects: diagnostics identical in identical order across processes; same set under permutation
            if idx % 2 == 0 || args.thorough() {
                for schema_faults in [false, true] {
                    let faulty = faulty_variant(&mut rng, &spec, schema_faults, false);
                    let base = ctx.repeat(&faulty, "check", runs, Some(false));
                    ctx.rep.count(if schema_faults { "faults:schema" } else { "faults:operations" });
                    // the same faults as the first line of every file: diagnostics that tie on (line, column) across files
                    let tied = faulty_variant(&mut rng, &spec, schema_faults, true);
                    ctx.repeat(&tied, "check", runs, Some(false));
                    ctx.rep.count(if schema_faults { "faults:schema:tied-at-top" } else { "faults:operations:tied-at-top" });
                    // permuted faulty project: files renamed (glob order changes)
                    let mut renamed = faulty.clone();
                    let mut i = 0;
                    for (p, _) in renamed.iter_mut() {
                        if p.starts_with("schema/") || p.starts_with("ops/") {
                            let dir = if p.starts_with("schema/") { "schema" } else { "ops" };
                            *p = format!("{dir}/{}{}.graphql", ["z", "q", "a", "m"][rng.below(4)], i);
                            i += 1;
                        }
                    }
                    ctx.perm_compare("rename-files", &faulty, &renamed, &[], Some(&base), true);
                }
            }
        }
    }

    if have_cli {
        // (c') targeted first-match-vs-any-match projects, all orders of their definitions
        let mut bases: Vec<(usize, RunOut, Files)> = vec![];
        for (i, t) in targeted::TARGETED.iter().enumerate() {
            let cap = if t.defs.len() <= 5 { args.budget(119, 119) } else { args.budget(60, 719) };
            let base = ctx.targeted_project(&mut rng, t, cap, args.budget(10, 40));
            let files: Files = vec![("schema/schema.graphql".to_string(), t.defs.iter().map(|d| format!("{d}\n")).collect()), ("ops/q.graphql".to_string(), t.ops.to_string()), (CONFIG.to_string(), targeted::TARGETED_CONFIG.to_string())];
            bases.push((i, base, files));
        }
        // the two member orders of the same union
        let find = |n: &str| bases.iter().find(|(i, _, _)| targeted::TARGETED[*i].name == n);
        if let (Some(a), Some(b)) = (find("iface-in-union"), find("iface-in-union-rev")) {
            let (fa, fb, ra) = (a.2.clone(), b.2.clone(), RunOut { code: a.1.code, stdout: a.1.stdout.clone(), stderr: a.1.stderr.clone(), files: a.1.files.clone() });
            ctx.perm_compare("union-member-order", &fa, &fb, &[("ops/q.graphql".to_string(), "ops/q.graphql".to_string())], Some(&ra), false);
        }

        // (c'') repeated names (rejected in every order) / re-declared built-in directives (accepted in every order)
        for t in targeted::DUP_NAMES.iter() {
            ctx.dup_names_project(&mut rng, t, args.budget(23, 119), args.budget(6, 24));
        }

        multidef_stream(&mut ctx, &mut rng, &args);

        // (a'') faulty projects whose diagnostics tie on (line, column) across files
        ties_stream(&mut ctx, &mut rng, &args);

        // (a') introspection-JSON schemas that omit several built-in scalars
        let hand: [(&str, &str, &str, &str); 3] = [
            ("string-boolean-only", "type Query { me: User! }\ntype User { name: String! active: Boolean! }\n", "query Me { me { name active } }\n", ""),
            ("custom-scalar-enum-interface", "type Query { node: Node! when: Date }\ninterface Node { label: String! }\ntype Doc implements Node { label: String! kind: Kind! }\nenum Kind { A B }\nscalar Date\n",
             "query N { node { label ... on Doc { kind } } when }\n", "      type:\n        scalarTypes:\n          Date: \"string\"\n"),
            ("no-builtin-listed", "type Query { me: User! }\ntype User { name: String! }\n", "query Me { me { name } }\n", ""),
        ];
        for (label, sdl, ops, scalars) in hand {
            let types: Vec<TypeDef> = sdl_items(sdl).into_iter().filter_map(|i| match i { TsItem::TypeDef(t) => Some(t), _ => None }).collect();
            let listed: Vec<&str> = if label == "no-builtin-listed" { vec![] } else { targeted::referenced_builtins(&types, &[]) };
            let text = targeted::introspection_text(&types, &[], "Query", None, None, &listed);
            ctx.rep.count(&format!("introspection:builtin-scalars-omitted:{}", 5 - listed.len()));
            ctx.introspection_project(label, text, vec![("ops/q.graphql".to_string(), ops.to_string())], scalars, runs, Some(true));
        }
        for k in 0..args.budget(2, 6) {
            let gcfg = GenCfg { hostile_text: false, ..GenCfg::default() };
            let schema = gen_schema(&mut rng, &gcfg);
            let types: Vec<TypeDef> = schema.types().cloned().collect();
            let dirs: Vec<DirectiveDef> = schema.directive_defs().cloned().collect();
            let listed = targeted::referenced_builtins(&types, &dirs);
            ctx.rep.count(&format!("introspection:builtin-scalars-omitted:{}", 5 - listed.len()));
            let text = targeted::introspection_text(&types, &dirs, &schema.query, schema.mutation.as_deref(), schema.subscription.as_deref(), &listed);
            let (doc, _) = gen_doc(&mut rng, &schema, &gcfg);
            let pc = gen_project_cfg(&mut rng, &schema, false);
            let yaml = pc.yaml("x", "y", &[]);
            let scalars = yaml.find("      type:\n").map(|i| yaml[i..].to_string()).unwrap_or_default();
            ctx.introspection_project(&format!("generated{k}"), text, vec![("ops/q.graphql".to_string(), doc_text(&doc))], &scalars, runs, None);
        }
    }

    // (d) loader
    let ncases = args.budget(6, 30);
    let trials = args.budget(12, 40);
    let mut seen = (0u64, 0u64);
    for i in 0..ncases {
        let case = gen_loader_case(&mut rng);
        if i == 0 {
            ctx.rep.sample(json!({"loader": {"main": case.main, "files": files_json(&case.files)}}));
        }
        loader_stream(&mut ctx, &mut rng, &case, trials, &mut seen);
    }
    // order probe: main imports three files, each importing one further (distinct) file; after loading the three the
    // order of the answer is the hash order of a 4-entry table — 3! possible answers, a fresh seed per task
    let probe = LoaderCase {
        main: "#import * from \"./a.graphql\"\n#import * from \"./b.graphql\"\n#import * from \"./c.graphql\"\nquery Main { __typename ...A }\n".into(),
        files: vec![
            ("/p/a.graphql".into(), "#import * from \"./x.graphql\"\nfragment A on Query { __typename }\n".into()),
            ("/p/b.graphql".into(), "#import * from \"./y.graphql\"\nfragment B on Query { __typename }\n".into()),
            ("/p/c.graphql".into(), "#import * from \"./z.graphql\"\nfragment C on Query { __typename }\n".into()),
            ("/p/x.graphql".into(), "fragment X on Query { __typename }\n".into()),
            ("/p/y.graphql".into(), "fragment Y on Query { __typename }\n".into()),
            ("/p/z.graphql".into(), "fragment Z on Query { __typename }\n".into()),
        ],
    };
    loader_stream(&mut ctx, &mut rng, &probe, args.budget(60, 200), &mut seen);
    ctx.rep.extra.insert("loader_order_dependence".into(), json!({"loaded_sets_where_model_predicts_dependence": seen.0, "of_which_observed_varying": seen.1}));
    ctx.rep.k_cases += 1;
    if seen.0 >= 8 && seen.1 == 0 {
        ctx.rep.fail("K", "required-files-order-never-varies", &format!("the model predicts that the order of get_required_files depends on the hash order on {} loaded sets; the real loader never varied", seen.0), json!({"kind": "none"}));
    }
    rep.notes.push(format!("runs per project (fresh processes): {runs}; byte equality across processes is OBSERVED on these runs, not proved"));
    rep.write(&args);
}
