//! C14 — declared exports match what the bundler loader exports at runtime.
//!
//! One case = (config TEXT, operation file text, imported file texts). The same texts go through
//!   (i)   the real declaration path: `parse_config` → parse (with `set_current_file_of_pos` per file, as the CLI does) →
//!         `resolve_operation_imports` → `print_types_for_operation_document(OperationTypePrinterOptions::from_config(..))`
//!         [and, for a subset, the real CLI binary: `nitrogql-cli generate` in a scratch project → `main.<ext>`],
//!   (ii)  `print_js_for_operation_document(OperationJSPrinterOptions::from_config(..))` on the same document,
//!   (iii) the loader's real `extern "C"` ABI: `load_config` + `initiate_task` + `get_required_files`/`load_file` + `emit_js`.
//!         Every loader ABI call runs in a child process (`c14 --session-worker`, c14/session.rs): a panic inside an `extern "C"`
//!         function aborts the process; a death is the O failure `loader-abort:<call>` with the case, and the run continues.
//! The top-level statements of the three texts are extracted by a small TS/JS tokenizer.
//! K: statements of each text == statements of the Lean model (`dts`, `js`, `loaderJs`) for the same abstract config/file.
//! O: the property on the implementation — value exports of (i) ⊆ exports of (iii), same default, same document
//!    (marker alias `d<i>` of the definition / JSON of the constant), the module is loadable (no duplicate `const`, names are bindings).
//! Interleaved sessions (c14/session.rs): several files of one project are built by ONE loader instance with their ABI call
//!    sequences interleaved (systematic and random schedules, builds given up, failing builds); the module returned for each
//!    build's task id is compared with the one-at-a-time module and, when it differs, judged in O against the declaration file
//!    of that file (signatures `interleaved:*`).
//! Generate histories (c14/history.rs): 2–4 runs of the real CLI in ONE project directory with edits in between; after the last run
//!    the declaration files on disk are judged against the loader module for the final config and every emitted file is compared
//!    byte-for-byte with a fresh directory holding the final state (signatures `history:*`).
use nitrogql_ast::{set_current_file_of_pos, OperationDocument};
use nitrogql_checker::{check_operation_document, OperationCheckContext};
use nitrogql_config_file::{parse_config, Config};
use nitrogql_parser::{parse_operation_document, parse_type_system_document};
use nitrogql_printer::{
    print_js_for_operation_document, print_types_for_operation_document, OperationJSPrinterOptions, OperationTypePrinterOptions,
};
use nitrogql_semantics::{
    ast_to_type_system, resolve_operation_extensions, resolve_operation_imports, resolve_schema_extensions, OperationExtension,
    OperationResolver,
};
use nvh::*;
use serde_json::{json, Value};
use sourcemap_writer::JustWriter;
use std::borrow::Cow;
use std::collections::BTreeMap;
use std::path::{Path, PathBuf};

#[path = "c14/session.rs"]
mod session;
#[path = "c14/history.rs"]
mod history;

const SCHEMA_SDL: &str = "
type Query { a: Int me: User q: Query }
type Mutation { m: Int }
type Subscription { s: Int }
type User { id: ID! name: String friend: User }
";
const MAIN_PATH: &str = "/p/main.graphql";

// ------------------------------------------------------------------------------------------------ cases

#[derive(Clone, Debug, PartialEq)]
struct DefDesc {
    op: bool,
    kind: String, // query | mutation | subscription | fragment
    name: Option<String>,
    imported: bool,
}

#[derive(Clone, Debug)]
struct Case {
    /// keys present in the config text (abstract view sent to the model)
    cfg: Vec<(String, Value)>,
    config_text: String,
    main: String,
    imports: Vec<(String, String)>,
    /// the import-resolved document, as the generator intends it (model input)
    defs: Vec<DefDesc>,
    cli: bool,
}

impl Case {
    fn to_json(&self) -> Value {
        json!({
            "cfg": self.cfg.iter().map(|(k, v)| json!([k, v])).collect::<Vec<_>>(),
            "config_text": self.config_text,
            "main": self.main,
            "imports": self.imports.iter().map(|(p, t)| json!([p, t])).collect::<Vec<_>>(),
            "defs": self.defs.iter().map(|d| json!({"op": d.op, "kind": d.kind, "name": d.name, "imported": d.imported})).collect::<Vec<_>>(),
            "cli": self.cli,
        })
    }
    fn from_json(v: &Value) -> Case {
        let pairs = |x: &Value| -> Vec<(String, String)> {
            x.as_array().map(|a| a.iter().map(|p| (p[0].as_str().unwrap_or("").to_string(), p[1].as_str().unwrap_or("").to_string())).collect()).unwrap_or_default()
        };
        Case {
            cfg: v["cfg"].as_array().map(|a| a.iter().map(|p| (p[0].as_str().unwrap_or("").to_string(), p[1].clone())).collect()).unwrap_or_default(),
            config_text: v["config_text"].as_str().unwrap_or("").to_string(),
            main: v["main"].as_str().unwrap_or("").to_string(),
            imports: pairs(&v["imports"]),
            defs: v["defs"].as_array().map(|a| a.iter().map(|d| DefDesc {
                op: d["op"].as_bool().unwrap_or(false),
                kind: d["kind"].as_str().unwrap_or("").to_string(),
                name: d["name"].as_str().map(|s| s.to_string()),
                imported: d["imported"].as_bool().unwrap_or(false),
            }).collect()).unwrap_or_default(),
            cli: v["cli"].as_bool().unwrap_or(false),
        }
    }
    fn request(&self) -> Sexp {
        let mut ks = vec![];
        for (k, v) in &self.cfg {
            let val = match v {
                Value::Bool(b) => Sexp::bool(*b),
                Value::String(s) => Sexp::str(s.as_str()),
                _ => Sexp::atom("bad"),
            };
            ks.push(Sexp::list(vec![Sexp::atom(k.as_str()), val]));
        }
        let mut ds = vec![];
        for d in &self.defs {
            if d.op {
                let mut v = vec![Sexp::atom("op"), Sexp::atom(d.kind.as_str())];
                if let Some(n) = &d.name {
                    v.push(Sexp::str(n.as_str()));
                }
                ds.push(Sexp::list(v));
            } else {
                ds.push(Sexp::list(vec![Sexp::atom("frag"), Sexp::str(d.name.clone().unwrap_or_default()), Sexp::bool(d.imported)]));
            }
        }
        Sexp::call("c14", vec![Sexp::call("cfg", ks), Sexp::call("file", ds)])
    }
}

// ---------------------------------------------------------------------------------------- file generation

#[derive(Clone, Debug)]
enum Local {
    Op { kind: &'static str, name: Option<String> },
    Frag { name: String, on: &'static str },
}
#[derive(Clone, Debug)]
struct Import {
    wildcard: bool,
    frags: Vec<(String, &'static str)>,
    /// fragments of the imported file that a specific import does not name
    extra: Vec<(String, &'static str)>,
}
#[derive(Clone, Debug, Default)]
struct FileSpec {
    locals: Vec<Local>,
    imports: Vec<Import>,
    /// spread density: 0 = none, n = one in n
    spread: u32,
    /// fragments that no operation and no other fragment of the file spreads (colocated fragments other modules import)
    never_spread: Vec<String>,
}

fn q(name: &str) -> Local {
    Local::Op { kind: "query", name: Some(name.to_string()) }
}
fn anon(kind: &'static str) -> Local {
    Local::Op { kind, name: None }
}
fn opk(kind: &'static str, name: &str) -> Local {
    Local::Op { kind, name: Some(name.to_string()) }
}
fn fr(name: &str, on: &'static str) -> Local {
    Local::Frag { name: name.to_string(), on }
}
fn imp(wildcard: bool, frags: &[(&str, &'static str)], extra: &[(&str, &'static str)]) -> Import {
    Import {
        wildcard,
        frags: frags.iter().map(|(n, o)| (n.to_string(), *o)).collect(),
        extra: extra.iter().map(|(n, o)| (n.to_string(), *o)).collect(),
    }
}

/// render the texts and the intended resolved document of a file spec
fn render_file(spec: &FileSpec, rng: &mut Rng) -> (String, Vec<(String, String)>, Vec<DefDesc>) {
    // indices: locals first, then imported fragments in import order
    let mut defs = vec![];
    let mut frag_index: Vec<(usize, String, &'static str)> = vec![]; // (index, name, on)
    for (i, l) in spec.locals.iter().enumerate() {
        match l {
            Local::Op { kind, name } => defs.push(DefDesc { op: true, kind: kind.to_string(), name: name.clone(), imported: false }),
            Local::Frag { name, on } => {
                defs.push(DefDesc { op: false, kind: "fragment".into(), name: Some(name.clone()), imported: false });
                frag_index.push((i, name.clone(), *on));
            }
        }
    }
    let mut imports_text = vec![];
    let mut idx = spec.locals.len();
    let mut main = String::new();
    for (k, im) in spec.imports.iter().enumerate() {
        let path = format!("/p/f{}.graphql", k + 1);
        let mut text = String::new();
        // extras first or last, so that position in the imported file is not the position in the result
        let extras_first = rng.coin();
        let mut body = vec![];
        for (n, on) in &im.frags {
            body.push((n.clone(), *on, Some(idx)));
            defs.push(DefDesc { op: false, kind: "fragment".into(), name: Some(n.clone()), imported: true });
            frag_index.push((idx, n.clone(), *on));
            idx += 1;
        }
        let mut extras: Vec<(String, &'static str, Option<usize>)> = im.extra.iter().map(|(n, on)| (n.clone(), *on, None)).collect();
        if im.wildcard {
            extras.clear();
        }
        let all: Vec<_> = if extras_first { extras.into_iter().chain(body).collect() } else { body.into_iter().chain(extras).collect() };
        for (n, on, i) in all {
            let marker = match i {
                Some(i) => format!("d{i}"),
                None => "unused".to_string(),
            };
            text.push_str(&format!("fragment {n} on {on} {{ {marker}: __typename }}\n"));
        }
        if im.wildcard {
            main.push_str(&format!("#import * from \"./f{}.graphql\"\n", k + 1));
        } else {
            let names: Vec<String> = im.frags.iter().map(|(n, _)| n.clone()).collect();
            main.push_str(&format!("#import {} from \"./f{}.graphql\"\n", names.join(", "), k + 1));
        }
        imports_text.push((path, text));
    }
    for (i, l) in spec.locals.iter().enumerate() {
        match l {
            Local::Op { kind, name } => {
                // the definition's own marker is its only top-level alias; spreads are nested one level down
                let mut sel = format!("d{i}: __typename");
                if *kind == "query" && spec.spread > 0 {
                    let (mut query, mut user) = (vec![], vec![]);
                    for (_, n, on) in &frag_index {
                        if rng.chance(1, spec.spread) && !spec.never_spread.contains(n) {
                            if *on == "Query" { query.push(n.clone()) } else { user.push(n.clone()) }
                        }
                    }
                    if !query.is_empty() {
                        sel.push_str(&format!(" q {{ a ...{} }}", query.join(" ...")));
                    }
                    if !user.is_empty() {
                        sel.push_str(&format!(" me {{ id ...{} }}", user.join(" ...")));
                    }
                }
                match name {
                    Some(n) => main.push_str(&format!("{kind} {n} {{ {sel} }}\n")),
                    None => main.push_str(&format!("{kind} {{ {sel} }}\n")),
                }
            }
            Local::Frag { name, on } => {
                let mut sel = format!("d{i}: __typename");
                if spec.spread > 0 {
                    let mut inner = vec![];
                    for (j, n, on2) in &frag_index {
                        if *j > i && on2 == on && n != name && rng.chance(1, spec.spread + 1) && !spec.never_spread.contains(n) {
                            inner.push(n.clone());
                        }
                    }
                    if !inner.is_empty() {
                        let field = if *on == "Query" { "q" } else { "friend" };
                        sel.push_str(&format!(" {field} {{ __typename ...{} }}", inner.join(" ...")));
                    }
                }
                main.push_str(&format!("fragment {name} on {on} {{ {sel} }}\n"));
            }
        }
    }
    (main, imports_text, defs)
}

fn fixed_files() -> Vec<(&'static str, FileSpec)> {
    let f = |locals: Vec<Local>, imports: Vec<Import>, spread: u32| FileSpec { locals, imports, spread, never_spread: vec![] };
    let unused = |mut s: FileSpec, names: &[&str]| { s.never_spread = names.iter().map(|n| n.to_string()).collect(); s };
    vec![
        ("one-named-query", f(vec![q("getUser")], vec![], 0)),
        ("one-anonymous-query", f(vec![anon("query")], vec![], 0)),
        ("one-mutation", f(vec![opk("mutation", "updateUser")], vec![], 0)),
        ("one-subscription", f(vec![opk("subscription", "onEvent")], vec![], 0)),
        ("anonymous-mutation", f(vec![anon("mutation")], vec![], 0)),
        ("two-queries", f(vec![q("a"), q("b")], vec![], 0)),
        ("query+mutation+subscription", f(vec![q("a"), opk("mutation", "b"), opk("subscription", "c")], vec![], 0)),
        ("fragments-only", f(vec![fr("F", "Query"), fr("G", "User")], vec![], 2)),
        ("query+used-fragment", f(vec![q("a"), fr("F", "Query")], vec![], 1)),
        ("fragment-before-query", f(vec![fr("U", "User"), q("Q1"), fr("F", "Query")], vec![], 1)),
        ("query+wildcard-import", f(vec![q("a")], vec![imp(true, &[("F", "Query"), ("U", "User")], &[])], 1)),
        ("query+specific-import", f(vec![q("a")], vec![imp(false, &[("F", "Query")], &[("Other", "Query")])], 1)),
        ("query+two-imported-files", f(vec![q("a"), fr("L", "User")], vec![imp(true, &[("F", "Query")], &[]), imp(false, &[("G", "User"), ("H", "User")], &[("X", "User")])], 2)),
        ("lowercase+underscore-names", f(vec![q("_p"), opk("mutation", "q2")], vec![], 0)),
        ("upper-lower-pair(collision when capitalised)", f(vec![q("a"), q("A")], vec![], 0)),
        ("query-X+fragment-XQuery(collision, default config)", f(vec![q("X"), fr("XQuery", "Query")], vec![], 0)),
        ("query-x+imported-fragment-XQuery", f(vec![q("x")], vec![imp(true, &[("XQuery", "Query")], &[])], 0)),
        ("fragment-named-class(reserved word)", f(vec![q("a"), fr("class", "Query")], vec![], 0)),
        ("anonymous+named(check rejects)", f(vec![anon("query"), q("a")], vec![], 0)),
        ("same-name-query+mutation(check rejects)", f(vec![q("A"), opk("mutation", "A")], vec![], 0)),
        // own fragments the file's operations do not reach, next to imports whose fragments they do spread
        ("query+used-import+own-fragment-not-spread", unused(f(vec![q("page"), fr("Card", "User")], vec![imp(true, &[("F", "Query"), ("U", "User")], &[])], 1), &["Card"])),
        ("query+specific-import+two-own-fragments-one-not-spread", unused(f(vec![fr("Card", "User"), q("page"), fr("Row", "Query")], vec![imp(false, &[("U", "User")], &[("Other", "User")])], 1), &["Card", "U"])),
        ("three-queries+fragments", f(vec![q("first"), fr("F", "Query"), q("second"), fr("G", "User"), q("Third")], vec![], 2)),
    ]
}

const OP_NAMES: &[&str] = &["a", "A", "b", "getUser", "GetUser", "x", "X", "XQuery", "aQuery", "_p", "q2", "new", "Query", "fragment", "default", "Z9_", "me"];
const FRAG_NAMES: &[&str] = &["F", "G", "User", "XQuery", "AQuery", "aQuery", "a", "A", "Frag1", "class", "Q", "_f", "B", "getUser"];

fn random_file(rng: &mut Rng) -> FileSpec {
    let mut spec = FileSpec { spread: [0, 1, 2, 3][rng.below(4)], ..Default::default() };
    let nops = [0, 1, 1, 1, 2, 2, 3][rng.below(7)];
    let nfr = if nops == 0 { 1 + rng.below(3) } else { [0, 0, 1, 1, 2, 3][rng.below(6)] };
    let mut used_ops: Vec<String> = vec![];
    let mut used_fr: Vec<String> = vec![];
    let mut locals = vec![];
    for _ in 0..nops {
        let kind = ["query", "query", "mutation", "subscription"][rng.below(4)];
        let name = if rng.chance(1, if nops == 1 { 4 } else { 12 }) {
            None
        } else {
            let mut n = OP_NAMES[rng.below(OP_NAMES.len())].to_string();
            // mostly distinct operation names (the checker rejects duplicates)
            if used_ops.contains(&n) && !rng.chance(1, 10) {
                n = format!("{n}{}", used_ops.len());
            }
            used_ops.push(n.clone());
            Some(n)
        };
        locals.push(Local::Op { kind, name });
    }
    let pick_frag = |rng: &mut Rng, used: &mut Vec<String>| -> (String, &'static str) {
        let mut n = FRAG_NAMES[rng.below(FRAG_NAMES.len())].to_string();
        if used.contains(&n) && !rng.chance(1, 12) {
            n = format!("{n}{}", used.len());
        }
        used.push(n.clone());
        (n, if rng.chance(1, 3) { "User" } else { "Query" })
    };
    for _ in 0..nfr {
        let (n, on) = pick_frag(rng, &mut used_fr);
        if rng.chance(1, 4) {
            spec.never_spread.push(n.clone());
        }
        locals.push(Local::Frag { name: n, on });
    }
    rng.shuffle(&mut locals);
    spec.locals = locals;
    let nimp = [0, 0, 0, 1, 1, 2][rng.below(6)];
    for _ in 0..nimp {
        let wildcard = rng.coin();
        let mut frags = vec![];
        for _ in 0..1 + rng.below(2) {
            frags.push(pick_frag(rng, &mut used_fr));
        }
        let mut extra = vec![];
        if !wildcard && rng.coin() {
            // a fragment of the imported file that the import does not name (unique name: it must not be picked up)
            let (n, on) = pick_frag(rng, &mut used_fr);
            extra.push((format!("{n}NotImported{}", used_fr.len()), on));
        }
        spec.imports.push(Import { wildcard, frags, extra });
    }
    spec
}

// ---------------------------------------------------------------------------------------- config generation

const NAME_KEYS: &[&str] = &[
    "capitalizeOperationNames", "queryVariableSuffix", "mutationVariableSuffix", "subscriptionVariableSuffix", "fragmentVariableSuffix",
    "operationResultTypeSuffix", "variablesTypeSuffix", "fragmentTypeSuffix",
];
const EXPORT_KEYS: &[&str] = &["defaultExportForOperation", "operationResultType", "variablesType"];

fn is_plain_yaml(s: &str) -> bool {
    let kw = ["true", "false", "null", "yes", "no", "on", "off", "y", "n", "True", "False", "Null", "TRUE", "FALSE", "NULL", "Yes", "No", "On", "Off"];
    !s.is_empty()
        && s.chars().next().map(|c| c.is_ascii_alphabetic() || c == '_').unwrap_or(false)
        && s.chars().all(|c| c.is_ascii_alphanumeric() || c == '_')
        && !kw.contains(&s)
}

fn yaml_scalar(v: &Value, rng: &mut Rng) -> String {
    match v {
        Value::Bool(b) => b.to_string(),
        Value::Null => if rng.coin() { "null".into() } else { "~".into() },
        Value::String(s) => {
            let style = rng.below(3);
            if style == 0 && is_plain_yaml(s) {
                s.clone()
            } else if style == 1 && !s.contains('\'') && !s.contains('\n') {
                format!("'{s}'")
            } else {
                serde_json::to_string(s).unwrap()
            }
        }
        _ => "null".into(),
    }
}

/// emit a nested map as block-style YAML
fn yaml_emit(v: &Value, indent: usize, out: &mut String, rng: &mut Rng) {
    if let Value::Object(m) = v {
        for (k, x) in m {
            out.push_str(&" ".repeat(indent));
            out.push_str(k);
            out.push(':');
            match x {
                Value::Object(mm) if mm.is_empty() => out.push_str(" {}\n"),
                Value::Object(_) => {
                    out.push('\n');
                    yaml_emit(x, indent + 2, out, rng);
                }
                Value::Array(a) => {
                    out.push('\n');
                    for e in a {
                        out.push_str(&" ".repeat(indent + 2));
                        out.push_str("- ");
                        out.push_str(&yaml_scalar(e, rng));
                        out.push('\n');
                    }
                }
                _ => {
                    out.push(' ');
                    out.push_str(&yaml_scalar(x, rng));
                    out.push('\n');
                }
            }
        }
    }
}

/// the config TEXT for a set of present keys; every stylistic choice comes from `rng`
fn render_config(cfg: &[(String, Value)], rng: &mut Rng, for_cli: bool) -> String {
    let mut name = serde_json::Map::new();
    let mut export = serde_json::Map::new();
    let mut generate = serde_json::Map::new();
    let mut keys: Vec<&(String, Value)> = cfg.iter().collect();
    rng.shuffle(&mut keys);
    for (k, v) in keys {
        if k == "mode" {
            generate.insert(k.clone(), v.clone());
        } else if NAME_KEYS.contains(&k.as_str()) {
            name.insert(k.clone(), v.clone());
        } else if EXPORT_KEYS.contains(&k.as_str()) {
            export.insert(k.clone(), v.clone());
        }
    }
    // `null` is another spelling of "absent" for the Option-typed name keys
    for k in NAME_KEYS {
        if !name.contains_key(*k) && rng.chance(1, 8) {
            name.insert(k.to_string(), Value::Null);
        }
    }
    if !name.is_empty() || rng.chance(1, 4) {
        generate.insert("name".into(), Value::Object(name));
    }
    if !export.is_empty() || rng.chance(1, 4) {
        generate.insert("export".into(), Value::Object(export));
    }
    // keys no operation printer reads
    if for_cli || rng.chance(1, 3) {
        generate.insert("schemaOutput".into(), json!("sdl/schema.d.ts"));
    }
    if rng.chance(1, 5) {
        generate.insert("type".into(), json!({"allowUndefinedAsOptionalInput": rng.coin()}));
    }
    if rng.chance(1, 6) {
        // (the CLI refuses `emitSchemaRuntime: true` with a `.d.ts` schema output)
        generate.insert("emitSchemaRuntime".into(), json!(if for_cli { false } else { rng.coin() }));
    }
    let mut root = serde_json::Map::new();
    if for_cli || rng.chance(1, 2) {
        root.insert("schema".into(), json!("sdl/schema.graphql"));
        root.insert("documents".into(), if rng.coin() { json!("*.graphql") } else { json!(["*.graphql"]) });
    }
    let has_generate = !generate.is_empty();
    if has_generate || rng.chance(1, 2) {
        let mut nitro = serde_json::Map::new();
        if has_generate || rng.coin() {
            nitro.insert("generate".into(), Value::Object(generate));
        }
        if rng.chance(1, 6) {
            nitro.insert("plugins".into(), json!([]));
        }
        root.insert("extensions".into(), json!({ "nitrogql": Value::Object(nitro) }));
    }
    let root = Value::Object(root);
    if rng.chance(2, 5) {
        if rng.coin() { serde_json::to_string_pretty(&root).unwrap() } else { serde_json::to_string(&root).unwrap() }
    } else if root.as_object().map(|m| m.is_empty()).unwrap_or(true) {
        "{}\n".to_string()
    } else {
        let mut out = String::new();
        if rng.chance(1, 5) {
            out.push_str("# generated\n");
        }
        yaml_emit(&root, 0, &mut out, rng);
        out
    }
}

/// suffix choices: (label, keys)
fn suffix_choices(thorough: bool) -> Vec<(&'static str, Vec<(&'static str, &'static str)>)> {
    let mut v = vec![
        ("defaults", vec![]),
        ("documented-alternatives", vec![("queryVariableSuffix", "Doc"), ("mutationVariableSuffix", "Doc"), ("subscriptionVariableSuffix", "Doc"), ("fragmentVariableSuffix", "Fragment"),
            ("operationResultTypeSuffix", "Data"), ("variablesTypeSuffix", "Vars"), ("fragmentTypeSuffix", "Type")]),
        ("all-empty", vec![("queryVariableSuffix", ""), ("mutationVariableSuffix", ""), ("subscriptionVariableSuffix", ""), ("fragmentVariableSuffix", "")]),
        ("query-only", vec![("queryVariableSuffix", "Q")]),
    ];
    if thorough {
        v.extend(vec![
            ("fragment-suffix-Query", vec![("fragmentVariableSuffix", "Query")]),
            ("digits-and-dollar", vec![("queryVariableSuffix", "2"), ("mutationVariableSuffix", "$"), ("subscriptionVariableSuffix", "_"), ("fragmentVariableSuffix", "_1")]),
            ("unicode", vec![("queryVariableSuffix", "É"), ("fragmentVariableSuffix", "ß"), ("operationResultTypeSuffix", "Ω")]),
            ("long", vec![("queryVariableSuffix", "QueryDocumentNodeWithAVeryLongSuffix_0123456789"), ("fragmentTypeSuffix", "FragmentTypeWithAVeryLongSuffix")]),
            ("type-suffixes-empty", vec![("operationResultTypeSuffix", ""), ("variablesTypeSuffix", "V"), ("fragmentTypeSuffix", "T")]),
            ("non-identifier", vec![("queryVariableSuffix", "-x"), ("fragmentVariableSuffix", ".f"), ("mutationVariableSuffix", "a b")]),
            ("yaml-keywords", vec![("queryVariableSuffix", "null"), ("mutationVariableSuffix", "true"), ("subscriptionVariableSuffix", "no"), ("fragmentVariableSuffix", "y")]),
            ("same-as-other-kind", vec![("queryVariableSuffix", "Mutation"), ("mutationVariableSuffix", "Query")]),
        ]);
    }
    v
}

const SUFFIX_POOL: &[&str] = &["", "", "Query", "Mutation", "Q", "Doc", "Fragment", "_", "$", "2", "É", "Result", "Variables", "X", "Op_Doc", "-x"];

fn random_cfg(rng: &mut Rng) -> Vec<(String, Value)> {
    let mut cfg = vec![];
    if rng.chance(2, 3) {
        cfg.push(("mode".to_string(), json!(["with-loader-ts-5.0", "with-loader-ts-4.0", "standalone-ts-4.0"][rng.below(3)])));
    }
    for k in EXPORT_KEYS.iter().chain(["capitalizeOperationNames"].iter()) {
        if rng.coin() {
            cfg.push((k.to_string(), json!(rng.coin())));
        }
    }
    for k in &NAME_KEYS[1..] {
        if rng.chance(1, 3) {
            cfg.push((k.to_string(), json!(SUFFIX_POOL[rng.below(SUFFIX_POOL.len())])));
        }
    }
    cfg
}

// ---------------------------------------------------------------------------------------- tokenizer / statements

#[derive(Clone, Debug, PartialEq)]
enum Tk {
    Ident,
    Str,
    Punct,
}
#[derive(Clone, Debug)]
struct Tok {
    kind: Tk,
    start: usize,
    end: usize,
}

fn tokenize(src: &str) -> Result<Vec<Tok>, String> {
    let b: Vec<(usize, char)> = src.char_indices().collect();
    let n = b.len();
    let pos = |i: usize| if i < n { b[i].0 } else { src.len() };
    let mut i = 0;
    let mut out = vec![];
    while i < n {
        let c = b[i].1;
        if c.is_whitespace() {
            i += 1;
        } else if c == '/' && i + 1 < n && b[i + 1].1 == '/' {
            while i < n && b[i].1 != '\n' {
                i += 1;
            }
        } else if c == '/' && i + 1 < n && b[i + 1].1 == '*' {
            i += 2;
            loop {
                if i + 1 >= n {
                    return Err("unterminated comment".into());
                }
                if b[i].1 == '*' && b[i + 1].1 == '/' {
                    i += 2;
                    break;
                }
                i += 1;
            }
        } else if c == '"' || c == '\'' || c == '`' {
            let st = i;
            i += 1;
            loop {
                if i >= n {
                    return Err("unterminated string".into());
                }
                if b[i].1 == '\\' {
                    i += 2;
                    continue;
                }
                if b[i].1 == c {
                    i += 1;
                    break;
                }
                i += 1;
            }
            out.push(Tok { kind: Tk::Str, start: pos(st), end: pos(i) });
        } else if c.is_alphanumeric() || c == '_' || c == '$' {
            let st = i;
            while i < n && (b[i].1.is_alphanumeric() || b[i].1 == '_' || b[i].1 == '$') {
                i += 1;
            }
            out.push(Tok { kind: Tk::Ident, start: pos(st), end: pos(i) });
        } else {
            out.push(Tok { kind: Tk::Punct, start: pos(i), end: pos(i + 1) });
            i += 1;
        }
    }
    Ok(out)
}

#[derive(Clone, Debug, PartialEq)]
enum Stmt {
    Type { name: String, exported: bool, marker: Option<usize> },
    Const { name: String, exported: bool, ambient: bool, value: Option<String> },
    /// `export { L as E }` / `export default L`
    ExportAs { local: String, exported: String },
}

fn find_marker(text: &str) -> Option<usize> {
    // the alias `d<i>` of the definition's own first selection: the object key `d<i>:` at the smallest bracket depth
    // (keys of nested selections — spread fragments — are deeper)
    let toks = tokenize(text).ok()?;
    let mut depth = 0i32;
    let mut best: Option<(i32, usize)> = None;
    for (k, t) in toks.iter().enumerate() {
        let s = &text[t.start..t.end];
        if t.kind == Tk::Punct {
            match s {
                "{" | "<" | "(" | "[" => depth += 1,
                "}" | ">" | ")" | "]" => depth -= 1,
                _ => {}
            }
            continue;
        }
        let body = if t.kind == Tk::Ident { s } else if s.len() >= 2 { &s[1..s.len() - 1] } else { continue };
        if body.len() >= 2 && body.starts_with('d') && body[1..].chars().all(|c| c.is_ascii_digit()) {
            if toks.get(k + 1).map(|n| &text[n.start..n.end] == ":").unwrap_or(false) {
                if let Ok(i) = body[1..].parse() {
                    if best.map(|(d, _)| depth < d).unwrap_or(true) {
                        best = Some((depth, i));
                    }
                }
            }
        }
    }
    best.map(|x| x.1)
}

/// top-level statements of a printed TS/JS module
fn statements(src: &str) -> Result<Vec<Stmt>, String> {
    let toks = tokenize(src)?;
    let text = |t: &Tok| &src[t.start..t.end];
    let mut stmts = vec![];
    let mut depth = 0i32;
    let mut cur: Vec<(Tok, i32)> = vec![];
    let mut groups: Vec<Vec<(Tok, i32)>> = vec![];
    for t in toks {
        let s = text(&t).to_string();
        if t.kind == Tk::Punct && (s == "(" || s == "[" || s == "{") {
            cur.push((t, depth));
            depth += 1;
        } else if t.kind == Tk::Punct && (s == ")" || s == "]" || s == "}") {
            depth -= 1;
            cur.push((t, depth));
        } else if t.kind == Tk::Punct && s == ";" && depth == 0 {
            groups.push(std::mem::take(&mut cur));
        } else {
            cur.push((t, depth));
        }
    }
    if depth != 0 {
        return Err("unbalanced brackets".into());
    }
    if !cur.is_empty() {
        return Err(format!("trailing tokens without ';': {}", &src[cur[0].0.start..]));
    }
    for g in groups {
        if g.is_empty() {
            continue;
        }
        let is = |k: usize, w: &str| g.get(k).map(|(t, d)| *d == 0 && text(t) == w).unwrap_or(false);
        let stmt_text = &src[g[0].0.start..g[g.len() - 1].0.end];
        if is(0, "import") {
            continue;
        }
        let mut k = 0;
        let exported = is(k, "export");
        if exported {
            k += 1;
        }
        if exported && is(k, "{") {
            // export { L as E, … }
            let close = g.iter().position(|(t, d)| *d == 0 && text(t) == "}").ok_or("export list without }")?;
            if close + 1 != g.len() {
                return Err(format!("unexpected tokens after export list: {stmt_text}"));
            }
            // split on commas at depth 1
            let mut item_start = g[k].0.end;
            let mut items = vec![];
            for j in k + 1..=close {
                let (t, d) = &g[j];
                if (*d == 1 && text(t) == ",") || j == close {
                    items.push((item_start, t.start));
                    item_start = t.end;
                }
            }
            for (a, b) in items {
                let item = &src[a..b];
                // the LAST ` as ` separates local and exported name
                let parts: Vec<&str> = item.rsplitn(2, " as ").collect();
                if parts.len() == 2 {
                    stmts.push(Stmt::ExportAs { local: parts[1].trim().to_string(), exported: parts[0].trim().to_string() });
                } else if item.trim().is_empty() {
                    continue;
                } else {
                    stmts.push(Stmt::ExportAs { local: item.trim().to_string(), exported: item.trim().to_string() });
                }
            }
            continue;
        }
        if exported && is(k, "default") {
            let rest = &src[g[k].0.end..g[g.len() - 1].0.end];
            stmts.push(Stmt::ExportAs { local: rest.trim().to_string(), exported: "default".into() });
            continue;
        }
        let ambient = is(k, "declare");
        if ambient {
            k += 1;
        }
        if is(k, "const") {
            let after = g[k].0.end;
            let sep = g.iter().enumerate().skip(k + 1).find(|(_, (t, d))| *d == 0 && (text(t) == ":" || text(t) == "="));
            let (sep_idx, sep_tok) = match sep {
                Some((j, (t, _))) => (j, t.clone()),
                None => return Err(format!("const without ':' or '=': {stmt_text}")),
            };
            let name = src[after..sep_tok.start].trim().to_string();
            // the initialiser: first depth-0 `=` at or after the separator that is not part of `=>`/`==`
            let eq = g.iter().enumerate().skip(sep_idx).find(|(_, (t, d))| *d == 0 && text(t) == "=");
            let value = match eq {
                Some((j, _)) => {
                    // the balanced `{ … }` that follows
                    let open = g.iter().enumerate().skip(j + 1).find(|(_, (t, d))| *d == 0 && text(t) == "{").map(|(x, _)| x);
                    match open {
                        Some(o) => {
                            let close = g.iter().enumerate().skip(o + 1).find(|(_, (t, d))| *d == 0 && text(t) == "}").map(|(x, _)| x).ok_or("initialiser without }")?;
                            Some(src[g[o].0.start..g[close].0.end].to_string())
                        }
                        None => return Err(format!("initialiser is not an object literal: {stmt_text}")),
                    }
                }
                None => None,
            };
            stmts.push(Stmt::Const { name, exported, ambient, value });
            continue;
        }
        if !ambient && is(k, "type") {
            let after = g[k].0.end;
            let eq = g.iter().skip(k + 1).find(|(t, d)| *d == 0 && text(t) == "=").ok_or(format!("type alias without '=': {stmt_text}"))?;
            let name = src[after..eq.0.start].trim().to_string();
            let body = &src[eq.0.end..g[g.len() - 1].0.end];
            stmts.push(Stmt::Type { name, exported, marker: find_marker(body) });
            continue;
        }
        return Err(format!("unrecognised statement: {}", &stmt_text[..stmt_text.len().min(80)]));
    }
    Ok(stmts)
}

/// canonical statement list in the model's vocabulary; constants get the index of their definition:
/// from the JSON of their initialiser, else from the marker of the nearest preceding type alias
fn canonical(stmts: &[Stmt]) -> Result<Vec<Sexp>, String> {
    let mut out = vec![];
    let mut current: Option<usize> = None;
    for s in stmts {
        match s {
            Stmt::Type { name, exported, marker } => {
                if marker.is_some() {
                    current = *marker;
                }
                out.push(Sexp::call("type", vec![Sexp::str(name.as_str()), Sexp::bool(*exported)]));
            }
            Stmt::Const { name, exported, ambient, value } => {
                let doc = match value {
                    Some(v) => {
                        let m = json_marker(v)?;
                        if let Some(c) = current {
                            if c != m {
                                return Err(format!("constant {name}: its type is that of definition {c} but its value is the document of definition {m}"));
                            }
                        }
                        m
                    }
                    None => current.ok_or(format!("constant {name} has no preceding type alias with a marker"))?,
                };
                out.push(Sexp::call("const", vec![Sexp::str(name.as_str()), Sexp::int(doc as i128), Sexp::bool(*exported), Sexp::bool(*ambient), Sexp::bool(value.is_some())]));
            }
            Stmt::ExportAs { local, exported } => {
                if exported == "default" {
                    out.push(Sexp::call("default", vec![Sexp::str(local.as_str())]));
                } else {
                    out.push(Sexp::call("export-as", vec![Sexp::str(local.as_str()), Sexp::str(exported.as_str())]));
                }
            }
        }
    }
    Ok(out)
}

fn json_marker(v: &str) -> Result<usize, String> {
    let j: Value = serde_json::from_str(v).map_err(|e| format!("initialiser is not JSON: {e}"))?;
    let alias = j["definitions"][0]["selectionSet"]["selections"][0]["alias"]["value"].as_str().ok_or("no alias marker in the document")?;
    alias.strip_prefix('d').and_then(|d| d.parse().ok()).ok_or(format!("alias {alias} is not a marker"))
}

// ---------------------------------------------------------------------------------------- the real code

struct MapResolver<'a, 'src> {
    files: &'a [(PathBuf, OperationDocument<'src>, OperationExtension<'src>)],
}
impl<'a, 'src> OperationResolver<'src> for MapResolver<'a, 'src> {
    fn resolve(&self, path: &Path) -> Option<(&OperationDocument<'src>, &OperationExtension<'src>)> {
        self.files.iter().find(|(p, _, _)| p == path).map(|(_, d, e)| (d, e))
    }
}

struct LibOut {
    dts: String,
    js: String,
    check_errors: usize,
}

type SchemaT = graphql_type_system::Schema<Cow<'static, str>, nitrogql_ast::base::Pos>;

/// (i) + (ii): library path, files parsed with their own file index like the CLI does
fn real_library(case: &Case, config: &Config, schema: &SchemaT) -> Result<LibOut, String> {
    let mut sources: Vec<(String, &str)> = vec![(MAIN_PATH.to_string(), case.main.as_str())];
    for (p, t) in &case.imports {
        sources.push((p.clone(), t.as_str()));
    }
    let mut parsed = vec![];
    for (i, (p, t)) in sources.iter().enumerate() {
        set_current_file_of_pos(i);
        let doc = parse_operation_document(t).map_err(|e| format!("parse error in {p}: {e:?}"))?;
        let (doc, ext) = resolve_operation_extensions(doc).map_err(|_| format!("extension error in {p}"))?;
        parsed.push((PathBuf::from(p), doc, ext));
    }
    set_current_file_of_pos(0);
    let resolver = MapResolver { files: &parsed };
    let (p0, d0, e0) = &parsed[0];
    let doc = resolve_operation_imports((p0.as_path(), d0, e0), &resolver).map_err(|e| format!("import error: {}", e.message))?;
    let ctx = OperationCheckContext::new(schema);
    let check_errors = check_operation_document(&doc, &ctx).len();
    let mut dts = String::new();
    {
        let mut w = JustWriter::new(&mut dts);
        print_types_for_operation_document(OperationTypePrinterOptions::from_config(config), schema, &doc, &mut w);
    }
    let mut js = String::new();
    {
        let mut w = JustWriter::new(&mut js);
        print_js_for_operation_document(OperationJSPrinterOptions::from_config(config), &doc, &mut w);
    }
    Ok(LibOut { dts, js, check_errors })
}

fn abi_call_str<R>(s: &str, f: impl FnOnce(*const u8, usize) -> R) -> R {
    let p = loader_native::alloc_string(s.len());
    unsafe {
        std::ptr::copy_nonoverlapping(s.as_ptr(), p, s.len());
    }
    let r = f(p, s.len());
    unsafe {
        loader_native::free_string(p, s.len());
    }
    r
}
fn abi_result() -> String {
    let p = loader_native::get_result_ptr();
    let n = loader_native::get_result_size();
    String::from_utf8_lossy(unsafe { std::slice::from_raw_parts(p, n) }).into_owned()
}

/// (iii): the loader's extern "C" ABI, driven the way packages/loader-core does.
/// Runs in the session worker (child process) only: a panic inside an `extern "C"` function aborts the process.
fn real_loader_texts(config_text: &str, main: &str, imports: &[(String, String)]) -> Result<String, String> {
    use session::mark;
    mark("load_config");
    if !abi_call_str(config_text, |p, n| loader_native::load_config(p, n)) {
        return Err("load_config returned false".into());
    }
    mark("initiate_task");
    let id = abi_call_str(MAIN_PATH, |fp, fl| abi_call_str(main, |sp, sl| loader_native::initiate_task(fp, fl, sp, sl)));
    if id == 0 {
        return Err(format!("initiate_task failed: {}", abi_result()));
    }
    let mut result = Err("too many rounds of required files".to_string());
    for _ in 0..16 {
        mark("get_required_files");
        if !loader_native::get_required_files(id) {
            result = Err(format!("get_required_files failed: {}", abi_result()));
            break;
        }
        let req: Vec<String> = abi_result().split('\n').filter(|s| !s.is_empty()).map(|s| s.to_string()).collect();
        if req.is_empty() {
            mark("emit_js");
            result = if loader_native::emit_js(id) { Ok(abi_result()) } else { Err(format!("emit_js failed: {}", abi_result())) };
            break;
        }
        let mut failed = None;
        for r in req {
            match imports.iter().find(|(p, _)| *p == r) {
                Some((p, t)) => {
                    mark("load_file");
                    if !abi_call_str(p, |fp, fl| abi_call_str(t, |sp, sl| loader_native::load_file(id, fp, fl, sp, sl))) {
                        failed = Some(format!("load_file failed: {}", abi_result()));
                    }
                }
                None => failed = Some(format!("loader requires unknown file {r}")),
            }
        }
        if let Some(f) = failed {
            result = Err(f);
            break;
        }
    }
    mark("free_task");
    loader_native::free_task(id);
    mark("");
    result
}

fn loaders_in(client: &mut session::Client, cases: &[Case]) -> Vec<LoaderOut> {
    let reqs: Vec<Value> = cases.iter().map(|c| json!({"config_text": c.config_text, "main": c.main, "imports": c.imports.iter().map(|(p, t)| json!([p, t])).collect::<Vec<_>>()})).collect();
    client.singles(&reqs).into_iter().map(|a| match a {
        session::Answer::Ok(v) => match (v["js"].as_str(), v["err"].as_str()) {
            (Some(js), _) => LoaderOut::Done(Ok(js.to_string())),
            (_, Some(e)) => LoaderOut::Done(Err(e.to_string())),
            _ => LoaderOut::Done(Err(format!("the worker answered {v}"))),
        },
        session::Answer::Died(d) => LoaderOut::Abort(d),
    }).collect()
}

/// what the one-at-a-time loader run of a case (in the worker process) came to
#[derive(Clone, Debug)]
enum LoaderOut {
    Done(Result<String, String>),
    /// the loader killed the worker process
    Abort(session::Death),
}
impl LoaderOut {
    fn as_result(&self) -> Result<String, String> {
        match self {
            LoaderOut::Done(r) => r.clone(),
            LoaderOut::Abort(d) => Err(format!("the loader aborts in {}: {}", d.call, d.why)),
        }
    }
}

/// (i'): the CLI binary in a scratch project; returns (extension of the declaration file of main.graphql, its text)
fn real_cli(case: &Case, cli: &str, dir: &Path) -> Result<(String, String), String> {
    let _ = std::fs::remove_dir_all(dir);
    std::fs::create_dir_all(dir).map_err(|e| e.to_string())?;
    let json_cfg = case.config_text.trim_start().starts_with('{');
    std::fs::write(dir.join(if json_cfg { "graphql.config.json" } else { "graphql.config.yaml" }), &case.config_text).map_err(|e| e.to_string())?;
    std::fs::create_dir_all(dir.join("sdl")).map_err(|e| e.to_string())?;
    std::fs::write(dir.join("sdl/schema.graphql"), SCHEMA_SDL).map_err(|e| e.to_string())?;
    std::fs::write(dir.join("main.graphql"), &case.main).map_err(|e| e.to_string())?;
    for (p, t) in &case.imports {
        let name = Path::new(p).file_name().unwrap();
        std::fs::write(dir.join(name), t).map_err(|e| e.to_string())?;
    }
    let out = std::process::Command::new(cli).arg("generate").current_dir(dir).output().map_err(|e| format!("cannot run cli: {e}"))?;
    let mut found = vec![];
    for ext in ["d.graphql.ts", "graphql.d.ts", "graphql.ts"] {
        let p = dir.join(format!("main.{ext}"));
        if p.exists() {
            found.push((ext.to_string(), std::fs::read_to_string(&p).map_err(|e| e.to_string())?));
        }
    }
    if found.len() == 1 {
        return Ok(found.pop().unwrap());
    }
    Err(format!("cli exit {:?}, {} declaration files; stderr: {}", out.status.code(), found.len(), String::from_utf8_lossy(&out.stderr).chars().take(300).collect::<String>()))
}

// ---------------------------------------------------------------------------------------- comparison

const RESERVED: &[&str] = &[
    "await", "break", "case", "catch", "class", "const", "continue", "debugger", "default", "delete", "do", "else", "enum", "export", "extends", "false",
    "finally", "for", "function", "if", "import", "in", "instanceof", "new", "null", "return", "super", "switch", "this", "throw", "true", "try", "typeof",
    "var", "void", "while", "with", "yield", "let", "static", "implements", "interface", "package", "private", "protected", "public", "arguments", "eval",
];

fn ident_like(s: &str) -> bool {
    s.chars().all(|c| c.is_alphanumeric() || c == '_' || c == '$')
}

struct Ctx<'a> {
    rep: &'a mut Report,
    drv: &'a mut Driver,
    schema: &'a SchemaT,
    cli: String,
    scratch: PathBuf,
    /// replay mode: put the real texts into the result notes
    dump: bool,
    worker_seconds: f64,
    loader_seconds: f64,
    /// the child process in which every loader ABI call runs
    client: session::Client,
}

fn consts_of(stmts: &[Sexp]) -> Vec<(String, usize, bool)> {
    stmts.iter().filter(|s| s.head() == Some("const")).map(|s| {
        let a = s.args();
        (a[0].as_str().unwrap_or("").to_string(), a[1].as_int().unwrap_or(-1) as usize, a[2].as_atom() == Some("true"))
    }).collect()
}
/// value exports as (exported name, local name)
fn value_exports(stmts: &[Sexp]) -> Vec<(String, String)> {
    let mut v = vec![];
    for s in stmts {
        let a = s.args();
        match s.head() {
            Some("const") if a[2].as_atom() == Some("true") => {
                let n = a[0].as_str().unwrap_or("").to_string();
                v.push((n.clone(), n));
            }
            Some("default") => v.push(("default".to_string(), a[0].as_str().unwrap_or("").to_string())),
            Some("export-as") => v.push((a[1].as_str().unwrap_or("").to_string(), a[0].as_str().unwrap_or("").to_string())),
            _ => {}
        }
    }
    v
}

impl<'a> Ctx<'a> {
    fn run(&mut self, cases: &[Case]) {
        let reqs: Vec<Sexp> = cases.iter().map(|c| c.request()).collect();
        // the Lean driver and the loader worker are two child processes: let them work at the same time
        let t0 = std::time::Instant::now();
        let (drv, client) = (&mut *self.drv, &mut self.client);
        let (answers, loaders) = std::thread::scope(|sc| {
            let h = sc.spawn(move || loaders_in(client, cases));
            let a = drv.batch(&reqs);
            (a, h.join().expect("loader thread"))
        });
        self.loader_seconds += t0.elapsed().as_secs_f64();
        for ((case, ans), pre) in cases.iter().zip(answers.iter()).zip(loaders.iter()) {
            self.judge(case, ans, None, pre);
        }
    }

    /// the one-at-a-time loader run of every case, in the worker process
    fn loaders(&mut self, cases: &[Case]) -> Vec<LoaderOut> {
        loaders_in(&mut self.client, cases)
    }

    /// an O failure; in an interleaved session the signature gets the prefix `interleaved:` and the call trace is appended
    fn ofail(&mut self, inter: Option<&Inter>, signature: &str, what: &str, cj: Value) {
        match inter {
            Some(i) if i.history_decl.is_some() => self.rep.fail("O", &format!("history:{signature}"), &format!("[after a history of generate runs in one directory, operation file {}] {what}{}", i.path, i.trace_text()), cj),
            Some(i) => self.rep.fail("O", &format!("interleaved:{signature}"), &format!("[interleaved session, task t{} = {}] {what}{}", i.root, i.path, i.trace_text()), cj),
            None => self.rep.fail("O", signature, what, cj),
        }
    }

    fn fail_total(&self) -> u64 {
        self.rep.dist.iter().filter(|(k, _)| k.starts_with("fail:")).map(|(_, v)| *v).sum()
    }

    /// `inter = None`: one case, the loader driven one task at a time (K and O).
    /// `inter = Some(..)`: the module came out of an interleaved session; judged in O only, by the property's wording,
    /// against the declaration file generated for that file (signatures `interleaved:*`, replay case = the session).
    fn judge(&mut self, case: &Case, ans: &Sexp, inter: Option<&Inter>, pre: &LoaderOut) {
        self.rep.evaluations += 1;
        let cj = match inter {
            Some(i) => i.session.clone(),
            None => case.to_json(),
        };
        let seq = inter.is_none();
        let fails_before = self.fail_total();
        if ans.head() != Some("ok") {
            self.rep.fail("K", "driver", &format!("model driver answered {ans} to {}", case.request()), cj);
            return;
        }
        let field = |name: &str| -> Vec<Sexp> { ans.args().iter().find(|x| x.head() == Some(name)).map(|x| x.args().to_vec()).unwrap_or_default() };
        let (m_dts, m_js, m_loader) = (field("dts"), field("js"), field("loader"));
        let m_ext = field("ext").first().and_then(|x| x.as_str()).unwrap_or("").to_string();
        let m_nocollision = field("nocollision").first().and_then(|x| x.as_atom()) == Some("true");

        // the real config parser on the config text
        let text = case.config_text.clone();
        let config = match catch(move || parse_config(&text)) {
            Ok(Some(c)) => c,
            other => {
                self.rep.fail("K", "config-parse", &format!("parse_config rejects a generated config text: {:?}", other.err()), cj);
                return;
            }
        };
        // (i) (ii)
        let lib = {
            let (case2, schema) = (case.clone(), self.schema);
            let cfg_ref = std::panic::AssertUnwindSafe(&config);
            let schema_ref = std::panic::AssertUnwindSafe(schema);
            catch(move || real_library(&case2, *cfg_ref, *schema_ref))
        };
        let lib = match lib {
            Ok(Ok(l)) => l,
            Ok(Err(e)) => {
                self.rep.fail("K", "library-error", &format!("the library path rejects a generated file: {e}"), cj);
                return;
            }
            Err(p) => {
                self.rep.count("skipped:printer-panics");
                self.rep.fail("O", "printer-panic", &format!("the printers panic on a generated file: {p}"), cj);
                return;
            }
        };
        // (iii)
        let history = inter.and_then(|i| i.history_decl.as_ref());
        let loader_result = match (inter, pre) {
            (Some(i), _) if history.is_none() => i.loader.clone(),
            (_, LoaderOut::Done(r)) => r.clone(),
            (_, LoaderOut::Abort(d)) => {
                // no module at all, and the bundler process is gone
                self.rep.o_cases += 1;
                self.ofail(inter, &format!("loader-abort:{}", d.call), &format!("the loader process dies while it builds this file one task at a time ({}); no module is produced", d.why), cj);
                return;
            }
        };
        let loader = match loader_result {
            Ok(js) => js,
            Err(e) if seq => {
                self.rep.fail("K", "loader-error", &format!("the loader ABI fails on a generated case: {e}"), cj);
                return;
            }
            Err(e) => {
                // no module at all: every declared value export is missing
                let declared = statements(&lib.dts).and_then(|s| canonical(&s)).map(|c| value_exports(&c)).unwrap_or_default();
                if lib.check_errors == 0 && !declared.is_empty() {
                    self.rep.o_cases += 1;
                    self.ofail(inter, "no-module", &format!("the loader produces no module for this file ({e}) while its declaration file declares the value exports {:?}",
                        declared.iter().map(|x| &x.0).collect::<Vec<_>>()), cj);
                }
                return;
            }
        };
        let mut texts: Vec<(&str, String, &Vec<Sexp>)> = vec![("dts", lib.dts.clone(), &m_dts), ("js", lib.js.clone(), &m_js), ("loader", loader.clone(), &m_loader)];
        // (i') CLI for a subset; only reachable when `check` accepts the files
        let mut cli_dts = history.cloned();
        if history.is_none() && case.cli && lib.check_errors == 0 && !self.cli.is_empty() {
            let dir = self.scratch.join("c14-cli");
            match real_cli(case, &self.cli, &dir) {
                Ok((ext, text)) => {
                    if seq {
                        self.rep.k_cases += 1;
                    }
                    self.rep.count("path:cli-generate");
                    if seq && ext != m_ext {
                        self.rep.fail("K", "decl-extension", &format!("cli wrote main.{ext}, model says main.{m_ext}"), cj.clone());
                    }
                    cli_dts = Some(text);
                }
                Err(e) if seq => self.rep.fail("K", "cli-error", &format!("nitrogql-cli generate failed on a checked file: {e}"), cj.clone()),
                Err(_) => {}
            }
        }
        if let Some(t) = &cli_dts {
            texts.push(("cli-dts", t.clone(), &m_dts));
        }
        // K: statements of every text vs the model
        let mut real: BTreeMap<&str, Vec<Sexp>> = BTreeMap::new();
        for (label, text, model) in &texts {
            if seq {
                self.rep.k_cases += 1;
            }
            let canon = statements(text).and_then(|s| canonical(&s));
            match canon {
                Ok(c) => {
                    if seq && &c != *model {
                        self.rep.fail("K", &format!("statements:{label}"), &format!(
                            "{label}: code {} model {} (config {:?})", Sexp::list(c.clone()), Sexp::list((*model).clone()), case.config_text), cj.clone());
                    }
                    real.insert(label, c);
                }
                Err(e) if seq => self.rep.fail("K", &format!("extract:{label}"), &format!("{label}: cannot read the printed module: {e}"), cj.clone()),
                Err(e) if *label == "cli-dts" && history.is_some() && lib.check_errors == 0 => {
                    self.ofail(inter, "unreadable-declaration", &format!("the declaration file in the project directory is not a readable module: {e}"), cj.clone())
                }
                Err(e) if *label == "loader" && lib.check_errors == 0 => {
                    self.ofail(inter, "unreadable-module", &format!("the module the loader returned for this task is not a readable module: {e}"), cj.clone())
                }
                Err(_) => {}
            }
        }
        if history.is_some() {
            self.rep.count("history:declaration-files-judged-against-the-loader-module");
        } else if !seq {
            self.rep.count("interleaved:modules-judged-against-their-declaration-file");
        }
        self.rep.count(&format!("config-format:{}", if case.config_text.trim_start().starts_with('{') { "json" } else { "yaml" }));
        let mode = case.cfg.iter().find(|(k, _)| k == "mode").and_then(|(_, v)| v.as_str()).unwrap_or("(absent)");
        self.rep.count(&format!("mode:{mode}"));
        self.rep.count(&format!("file:operations={},fragments={},imported={}", case.defs.iter().filter(|d| d.op).count().min(3),
            case.defs.iter().filter(|d| !d.op && !d.imported).count().min(3), case.defs.iter().filter(|d| d.imported).count().min(3)));
        if case.defs.iter().any(|d| d.op && d.name.is_none()) {
            self.rep.count("feature:anonymous-operation");
        }

        // ---- O: the property on the implementation's own outputs
        let (Some(r_dts), Some(r_loader)) = (real.get("dts"), real.get("loader")) else { return };
        if lib.check_errors > 0 {
            self.rep.count("outside-O-domain(check rejects the document: no declaration file is generated)");
            return;
        }
        let suffix_ok = case.cfg.iter().all(|(k, v)| !k.ends_with("Suffix") || v.as_str().map(ident_like).unwrap_or(true));
        self.rep.o_cases += 1;
        // the CLI's declaration file (when produced) is a second witness of the declaration side
        let decl_sources: Vec<(&str, &Vec<Sexp>)> = match real.get("cli-dts") {
            Some(c) if history.is_some() => vec![("declaration file on disk after the last generate", c)],
            None if history.is_some() => return,
            Some(c) if c == r_dts => vec![("library+cli", r_dts)],
            Some(c) => vec![("library", r_dts), ("cli", c)],
            None => vec![("library", r_dts)],
        };
        if self.dump {
            self.rep.notes.push(format!("config text:\n{}", case.config_text));
            self.rep.notes.push(format!("declaration file (library):\n{}", lib.dts));
            if let Some(t) = &cli_dts {
                self.rep.notes.push(format!("declaration file (nitrogql-cli generate):\n{t}"));
            }
            self.rep.notes.push(format!("loader module (emit_js):\n{loader}"));
        }
        let l_consts = consts_of(r_loader);
        let l_exports = value_exports(r_loader);
        let mut seen: BTreeMap<&str, Vec<usize>> = BTreeMap::new();
        for (n, i, _) in &l_consts {
            seen.entry(n.as_str()).or_default().push(*i);
        }
        let collided = seen.values().any(|v| v.len() > 1);
        if seq && m_nocollision == collided {
            self.rep.fail("K", "nocollision", &format!("model NoCollision = {m_nocollision}, real module has a duplicate constant = {collided}"), cj.clone());
        }
        for (src, dts) in decl_sources {
            let d_exports = value_exports(dts);
            let d_consts = consts_of(dts);
            // 1. every declared value export is exported by the loader's module
            for (e, _) in &d_exports {
                if !l_exports.iter().any(|(le, _)| le == e) {
                    self.ofail(inter, "missing-export", &format!("[{src}] the declaration file exports value {e:?}, the loader's module does not (loader exports {:?})",
                        l_exports.iter().map(|x| &x.0).collect::<Vec<_>>()), cj.clone());
                }
            }
            // 2. default export names the same, single operation
            // (an `export const default` — operation named `default` with an empty suffix — is not a default export statement;
            //  it is reported by the reserved-word check below)
            let stmt_defaults = |m: &Vec<Sexp>| -> Vec<(String, String)> {
                m.iter().filter(|s| s.head() == Some("default")).map(|s| ("default".to_string(), s.args()[0].as_str().unwrap_or("").to_string())).collect()
            };
            let (dd_v, ld_v) = (stmt_defaults(dts), stmt_defaults(r_loader));
            let dd: Vec<&(String, String)> = dd_v.iter().collect();
            let ld: Vec<&(String, String)> = ld_v.iter().collect();
            if dd.len() > 1 || ld.len() > 1 {
                self.ofail(inter, "default-twice", &format!("[{src}] more than one default export"), cj.clone());
            }
            if let Some((_, local)) = dd.first() {
                if ld.first().map(|x| &x.1) != Some(local) {
                    self.ofail(inter, "default-differs", &format!("[{src}] default export is {local:?} in the declaration file, {:?} in the loader's module", ld.first().map(|x| &x.1)), cj.clone());
                }
                let nops = case.defs.iter().filter(|d| d.op).count();
                let target: Vec<&(String, usize, bool)> = d_consts.iter().filter(|(n, _, _)| n == local).collect();
                if nops != 1 || !target.iter().any(|(_, i, _)| case.defs.get(*i).map(|d| d.op).unwrap_or(false)) {
                    self.ofail(inter, "default-not-single-operation", &format!("[{src}] default export {local:?} with {nops} operations in the file"), cj.clone());
                }
            }
            if d_exports.is_empty() {
                self.rep.count("O:declaration-file-without-value-export");
                continue;
            }
            // 3. the loader's module must be loadable: no name declared twice
            //    (3 and 4 do not depend on how the loader was driven: judged in the one-at-a-time stream only)
            for (n, idxs) in &seen {
                if seq && idxs.len() > 1 {
                    let kinds: Vec<&str> = idxs.iter().map(|i| if case.defs.get(*i).map(|d| d.op).unwrap_or(false) { "op" } else { "fragment" }).collect();
                    let class = if kinds.iter().all(|k| *k == "op") { "op-op" } else if kinds.iter().all(|k| *k == "fragment") { "fragment-fragment" } else { "op-fragment" };
                    self.rep.fail("O", &format!("collision:{class}"), &format!(
                        "[{src}] definitions {idxs:?} are all declared as `const {n}` in the loader's module (duplicate declaration: the module does not load) while the declaration file exports {:?}; check accepts the file",
                        d_exports.iter().map(|x| &x.0).collect::<Vec<_>>()), cj.clone());
                }
            }
            // 4. names must be bindings
            if !seq {
            } else if suffix_ok {
                for (n, i, _) in &l_consts {
                    let anonymous = case.defs.get(*i).map(|d| d.op && d.name.is_none()).unwrap_or(false);
                    let bad_ident = n.is_empty() || !ident_like(n) || n.chars().next().map(|c| c.is_ascii_digit()).unwrap_or(false);
                    if bad_ident && anonymous {
                        self.rep.fail("O", "invalid-name:anonymous-operation", &format!("[{src}] the anonymous operation (definition {i}) is declared as `const {n} = …` — the name is the bare suffix {n:?}, not a binding name: the loader's module does not parse"), cj.clone());
                    } else if bad_ident {
                        self.rep.fail("O", "invalid-name:not-an-identifier", &format!("[{src}] definition {i} is declared as `const {n}`"), cj.clone());
                    } else if RESERVED.contains(&n.as_str()) {
                        self.rep.fail("O", "invalid-name:reserved", &format!("[{src}] definition {i} is declared as `const {n}` — a reserved word: the loader's module does not parse"), cj.clone());
                    }
                }
            } else {
                self.rep.count("O:identifier-check-skipped(non-identifier suffix configured)");
            }
            // 5. same document: the loader's constant of that name holds the document of the definition the declaration was printed for
            if !collided {
                for (e, local) in &d_exports {
                    let d_idx: Vec<usize> = d_consts.iter().filter(|(n, _, _)| n == local).map(|x| x.1).collect();
                    let l_idx: Vec<usize> = l_consts.iter().filter(|(n, _, _)| n == local).map(|x| x.1).collect();
                    if d_idx.len() != 1 || l_idx != d_idx {
                        self.ofail(inter, "wrong-document", &format!("[{src}] export {e:?}: declaration is for definition {d_idx:?}, the loader's constant {local:?} holds the document of {l_idx:?}"), cj.clone());
                        continue;
                    }
                    // the generated name is the one the configuration asks for (independent restatement of operation_variable_name)
                    if let Some(d) = case.defs.get(d_idx[0]) {
                        let want = expected_name(&case.cfg, d);
                        if &want != local {
                            self.ofail(inter, "name", &format!("[{src}] definition {} is declared as {local:?}, the documented rule gives {want:?}", d_idx[0]), cj.clone());
                        }
                    }
                }
            }
        }
        // 6. the document itself: first definition of each loader constant is the definition it is named after;
        //    in standalone mode the declaration module holds the same JSON
        if let Ok(ls) = statements(&loader) {
            let ds = statements(history.map(|s| s.as_str()).unwrap_or(&lib.dts)).unwrap_or_default();
            for s in &ls {
                if let Stmt::Const { name, value: Some(v), .. } = s {
                    if let (Ok(j), Ok(m)) = (serde_json::from_str::<Value>(v), json_marker(v)) {
                        if let Some(d) = case.defs.get(m) {
                            let first = &j["definitions"][0];
                            let kind_ok = if d.op { first["kind"] == "OperationDefinition" && first["operation"] == d.kind.as_str() } else { first["kind"] == "FragmentDefinition" };
                            let name_ok = match &d.name {
                                Some(n) => first["name"]["value"] == n.as_str(),
                                None => first.get("name").map(|x| x.is_null()).unwrap_or(true),
                            };
                            if !kind_ok || !name_ok {
                                self.ofail(inter, "document-mismatch", &format!("loader constant {name:?} (definition {m}) holds a document whose first definition is {} {}", first["kind"], first["name"]["value"]), cj.clone());
                            }
                        }
                        for t in &ds {
                            if let Stmt::Const { name: n2, value: Some(v2), .. } = t {
                                if n2 == name && json_marker(v2).ok() == Some(m) {
                                    if serde_json::from_str::<Value>(v2).ok().as_ref() != Some(&j) {
                                        self.ofail(inter, "value-differs", &format!("standalone module and loader module hold different documents for {name:?}"), cj.clone());
                                    }
                                    self.rep.count("O:standalone-value-compared");
                                }
                            }
                        }
                    }
                }
            }
        }
        if let Some(i) = inter {
            // the module of a file must not depend on what else the loader instance is doing
            if history.is_none() && self.fail_total() == fails_before && i.sequential.as_ref().ok() != Some(&loader) {
                self.ofail(inter, "module-depends-on-history", "the module differs from the module a fresh one-at-a-time session returns for the same file and configuration (declared exports are all present and carry the right documents)", cj.clone());
            }
            return;
        }
        let nontrivial_cfg = case.cfg.iter().any(|(k, _)| k != "mode");
        if !value_exports(r_dts).is_empty() && (case.defs.len() >= 2 || nontrivial_cfg) {
            self.rep.nontrivial(&case.request().to_line());
        }
    }
}

// ---------------------------------------------------------------------------------------- interleaved sessions

/// a module that came out of an interleaved session, with what it is compared to
struct Inter {
    loader: Result<String, String>,
    /// the module a fresh one-at-a-time session returns for the same file
    sequential: Result<String, String>,
    /// replay case
    session: Value,
    root: usize,
    path: String,
    trace: Vec<String>,
    /// `Some(text)`: not an interleaved session but a `generate` history (c14/history.rs): `text` is the declaration file found in
    /// the project directory after the last run; the loader is driven one task at a time with the final config
    history_decl: Option<String>,
}
impl Inter {
    fn trace_text(&self) -> String {
        if self.trace.is_empty() {
            String::new()
        } else if self.history_decl.is_some() {
            format!("; history: {}", self.trace.join(" | "))
        } else {
            format!("; ABI calls of the session: {}", self.trace.join(" | "))
        }
    }
}

/// several operation files of one project (one config), built by ONE loader instance
#[derive(Clone, Debug)]
struct Project {
    cfg: Vec<(String, Value)>,
    config_text: String,
    roots: Vec<Case>,
    /// further builds whose result is not judged (a file that does not parse, a file importing a file that does not exist):
    /// builds that fail and — as in index.mjs — are never freed
    noise: Vec<String>,
}

/// how the builds of a project are interleaved; `None` in the schedule = `load_config`
#[derive(Clone, Debug)]
struct SessionSpec {
    schedule: Vec<Option<usize>>,
    abandon: Vec<Option<usize>>,
    reverse_loads: bool,
}

impl SessionSpec {
    fn one_at_a_time(ntasks: usize) -> SessionSpec {
        SessionSpec { schedule: vec![None], abandon: vec![None; ntasks], reverse_loads: false }
    }
    fn to_json(&self) -> Value {
        json!({
            "schedule": self.schedule.iter().map(|x| match x { Some(k) => json!(k), None => json!("cfg") }).collect::<Vec<_>>(),
            "abandon": self.abandon,
            "reverse_loads": self.reverse_loads,
        })
    }
    fn from_json(v: &Value) -> SessionSpec {
        SessionSpec {
            schedule: v["schedule"].as_array().map(|a| a.iter().map(|x| x.as_u64().map(|n| n as usize)).collect()).unwrap_or_default(),
            abandon: v["abandon"].as_array().map(|a| a.iter().map(|x| x.as_u64().map(|n| n as usize)).collect()).unwrap_or_default(),
            reverse_loads: v["reverse_loads"].as_bool().unwrap_or(false),
        }
    }
}

impl Project {
    fn ntasks(&self) -> usize {
        self.roots.len() + self.noise.len()
    }
    /// every root file lives in its own directory (`#import "./f1.graphql"` is relative to it)
    fn in_dir(k: usize, path: &str) -> String {
        format!("/p/r{k}/{}", path.strip_prefix("/p/").unwrap_or(path))
    }
    fn task_path(&self, k: usize) -> String {
        if k < self.roots.len() { Project::in_dir(k, MAIN_PATH) } else { format!("/p/x{}/main.graphql", k - self.roots.len()) }
    }
    /// number of ABI calls of the build of task k (initiate, required, load…, required, emit, free)
    fn steps(&self, k: usize) -> usize {
        match self.roots.get(k) {
            Some(c) if c.imports.is_empty() => 4,
            Some(c) => 5 + c.imports.len(),
            None => 3,
        }
    }
    /// the build of task k in three stretches: start (initiate + status), supply (load… + status), finish (emit + free)
    fn groups(&self, k: usize) -> Vec<usize> {
        match self.roots.get(k) {
            Some(c) if c.imports.is_empty() => vec![2, 2],
            Some(c) => vec![2, c.imports.len() + 1, 2],
            None => vec![2, 1],
        }
    }
    fn request_base(&self) -> Value {
        let mut tasks = vec![];
        let mut files = serde_json::Map::new();
        for (k, c) in self.roots.iter().enumerate() {
            tasks.push(json!({"path": self.task_path(k), "text": c.main}));
            for (p, t) in &c.imports {
                files.insert(Project::in_dir(k, p), json!(t));
            }
        }
        for (j, t) in self.noise.iter().enumerate() {
            tasks.push(json!({"path": self.task_path(self.roots.len() + j), "text": t}));
        }
        json!({"config_text": self.config_text, "tasks": tasks, "files": files})
    }
    fn session_json(&self, spec: &SessionSpec) -> Value {
        let mut v = spec.to_json();
        v["kind"] = json!("interleaved");
        v["cfg"] = json!(self.cfg.iter().map(|(k, v)| json!([k, v])).collect::<Vec<_>>());
        v["config_text"] = json!(self.config_text);
        v["roots"] = json!(self.roots.iter().map(|c| c.to_json()).collect::<Vec<_>>());
        v["noise"] = json!(self.noise);
        v
    }
    fn from_json(v: &Value) -> Project {
        let roots: Vec<Case> = v["roots"].as_array().map(|a| a.iter().map(Case::from_json).collect()).unwrap_or_default();
        Project {
            cfg: roots.first().map(|c| c.cfg.clone()).unwrap_or_default(),
            config_text: v["config_text"].as_str().unwrap_or("").to_string(),
            roots,
            noise: v["noise"].as_array().map(|a| a.iter().map(|x| x.as_str().unwrap_or("").to_string()).collect()).unwrap_or_default(),
        }
    }
}

const ROOT_OPS: [(&str, [&str; 3]); 4] = [
    ("query", ["listUsers", "countUsers", "searchUsers"]),
    ("mutation", ["rename", "removeUser", "addUser"]),
    ("query", ["getMe", "viewer", "profile"]),
    ("subscription", ["onEvent", "onTick", "feed"]),
];

/// a file with imports (its build stays pending across get_required_files / load_file rounds) whose definitions have
/// names no other root file of the project uses
fn distinct_file(k: usize, rng: &mut Rng) -> FileSpec {
    let (kind, names) = ROOT_OPS[k % ROOT_OPS.len()];
    let mut spec = FileSpec { spread: [0, 1, 2][rng.below(3)], ..Default::default() };
    let nops = if rng.chance(3, 5) { 1 } else { 2 };
    let mut locals = vec![];
    for i in 0..nops {
        let kind = if i == 0 { kind } else { ["query", "mutation", "subscription"][rng.below(3)] };
        locals.push(Local::Op { kind, name: Some(format!("{}{}", names[(i + rng.below(2)) % 3], if k >= ROOT_OPS.len() { k.to_string() } else { String::new() })) });
        if i == 0 && nops == 2 {
            // two different names
            locals.push(Local::Op { kind: "query", name: Some(format!("{}Too{k}", names[2])) });
            break;
        }
    }
    let on = |rng: &mut Rng| if rng.chance(1, 3) { "User" } else { "Query" };
    for c in 0..rng.below(3) {
        locals.push(Local::Frag { name: format!("Local{k}{}", ["A", "B"][c]), on: on(rng) });
    }
    rng.shuffle(&mut locals);
    spec.locals = locals;
    for j in 0..1 + rng.below(2) {
        let wildcard = rng.coin();
        let mut frags = vec![];
        for c in 0..1 + rng.below(2) {
            frags.push((format!("Shared{k}{j}{}", ["A", "B"][c]), on(rng)));
        }
        let extra = if !wildcard && rng.coin() { vec![(format!("Unused{k}{j}"), on(rng))] } else { vec![] };
        spec.imports.push(Import { wildcard, frags, extra });
    }
    spec
}

fn make_project(cfg: Vec<(String, Value)>, specs: &[FileSpec], noise: Vec<String>, rng: &mut Rng, cli: bool) -> Project {
    let config_text = render_config(&cfg, rng, cli);
    let roots = specs.iter().map(|s| {
        let (main, imports, defs) = render_file(s, rng);
        Case { cfg: cfg.clone(), config_text: config_text.clone(), main, imports, defs, cli }
    }).collect();
    Project { cfg, config_text, roots, noise }
}

const NOISE: &[&str] = &[
    "query {",
    "#import * from \"./missing.graphql\"\nquery Noise { a }\n",
    "fragment on Query { a }",
    "#import Gone from \"../nowhere/gone.graphql\"\nfragment NoiseFrag on Query { a ...Gone }\n",
];

fn random_project(rng: &mut Rng, cli: bool) -> Project {
    let nroots = 2 + rng.below(3);
    let specs: Vec<FileSpec> = (0..nroots).map(|k| if rng.coin() { distinct_file(k, rng) } else { random_file(rng) }).collect();
    let mut noise = vec![];
    if rng.chance(1, 4) {
        noise.push(NOISE[rng.below(NOISE.len())].to_string());
    }
    make_project(random_cfg(rng), &specs, noise, rng, cli)
}

/// all distinct orders of a multiset: `counts[k]` occurrences of k
fn interleavings(counts: &[usize]) -> Vec<Vec<usize>> {
    fn rec(left: &mut Vec<usize>, cur: &mut Vec<usize>, out: &mut Vec<Vec<usize>>) {
        if left.iter().all(|c| *c == 0) {
            out.push(cur.clone());
            return;
        }
        for k in 0..left.len() {
            if left[k] > 0 {
                left[k] -= 1;
                cur.push(k);
                rec(left, cur, out);
                cur.pop();
                left[k] += 1;
            }
        }
    }
    let mut out = vec![];
    rec(&mut counts.to_vec(), &mut vec![], &mut out);
    out
}

/// an order of stretches → a schedule of single calls; `load_config` after the first `initiate_task` (index.mjs) or up front
fn expand(order: &[usize], groups: &[Vec<usize>], cfg_after_first: bool) -> Vec<Option<usize>> {
    let mut next = vec![0usize; groups.len()];
    let mut sched: Vec<Option<usize>> = vec![];
    for &k in order {
        let n = groups[k].get(next[k]).copied().unwrap_or(1);
        next[k] += 1;
        for _ in 0..n {
            sched.push(Some(k));
        }
    }
    sched.insert(if cfg_after_first && !sched.is_empty() { 1 } else { 0 }, None);
    sched
}

fn random_session(proj: &Project, rng: &mut Rng) -> SessionSpec {
    let n = proj.ntasks();
    let abandon: Vec<Option<usize>> = (0..n).map(|_| if rng.chance(1, 6) { Some(1 + rng.below(4)) } else { None }).collect();
    let mut left: Vec<usize> = (0..n).map(|k| proj.steps(k)).collect();
    let mut sched: Vec<Option<usize>> = vec![];
    match rng.below(3) {
        0 => {
            // any order of the single calls
            let mut items: Vec<usize> = (0..n).flat_map(|k| std::iter::repeat(k).take(left[k])).collect();
            rng.shuffle(&mut items);
            sched = items.into_iter().map(Some).collect();
        }
        1 => {
            // bursts: a build runs for a few calls, then another one continues
            while left.iter().any(|c| *c > 0) {
                let live: Vec<usize> = (0..n).filter(|k| left[*k] > 0).collect();
                let k = live[rng.below(live.len())];
                let run = (1 + rng.below(3)).min(left[k]);
                left[k] -= run;
                for _ in 0..run {
                    sched.push(Some(k));
                }
            }
        }
        _ => {
            // builds start one after the other, each later call goes to the build that started earliest with probability 1/2
            let mut order: Vec<usize> = (0..n).collect();
            rng.shuffle(&mut order);
            let mut started = 0;
            while left.iter().any(|c| *c > 0) {
                if started < n && (started == 0 || rng.chance(1, 3)) {
                    let k = order[started];
                    started += 1;
                    left[k] -= 1;
                    sched.push(Some(k));
                    continue;
                }
                let live: Vec<usize> = order[..started].iter().copied().filter(|k| left[*k] > 0).collect();
                if live.is_empty() {
                    if started >= n { break }
                    let k = order[started];
                    started += 1;
                    left[k] -= 1;
                    sched.push(Some(k));
                    continue;
                }
                let k = if rng.coin() { live[0] } else { live[rng.below(live.len())] };
                left[k] -= 1;
                sched.push(Some(k));
            }
        }
    }
    let at = if rng.chance(1, 3) && !sched.is_empty() { 1 } else { 0 };
    sched.insert(at, None);
    if rng.chance(1, 5) {
        let at = rng.below(sched.len() + 1);
        sched.insert(at, None);
    }
    SessionSpec { schedule: sched, abandon, reverse_loads: rng.coin() }
}

impl<'a> Ctx<'a> {
    /// the roots one at a time (K and O as for any case), then the given sessions on one loader instance each
    fn run_project(&mut self, proj: &Project, specs: &[SessionSpec], label: &str) {
        self.run(&proj.roots);
        let reference: Vec<Result<String, String>> = self.loaders(&proj.roots).iter().map(|l| l.as_result()).collect();
        let mut all = vec![SessionSpec::one_at_a_time(proj.ntasks())];
        all.extend(specs.iter().cloned());
        let all_json: Vec<Value> = all.iter().map(|s| s.to_json()).collect();
        let base = proj.request_base();
        let base_hash = nvh::report::fnv(&base.to_string());
        let t0 = std::time::Instant::now();
        let answers = self.client.run(&base, &all_json);
        self.worker_seconds += t0.elapsed().as_secs_f64();
        // the fresh one-at-a-time session of the worker (several builds, one after the other, on one instance)
        let mut sequential: Vec<Result<String, String>> = reference.clone();
        for (j, (spec, ans)) in all.iter().zip(answers.iter()).enumerate() {
            self.rep.count(&format!("interleaved:sessions:{}", if j == 0 { "one-at-a-time" } else { label }));
            let sj = proj.session_json(spec);
            let v = match ans {
                session::Answer::Ok(v) if v.get("out").is_some() => v,
                session::Answer::Ok(v) => {
                    self.rep.fail("O", "interleaved:loader-abort:unknown-call", &format!("the loader panics in a session of {} builds (worker answered {v})", proj.ntasks()), sj);
                    continue;
                }
                session::Answer::Died(d) => {
                    self.rep.fail("O", &format!("interleaved:loader-abort:{}", d.call), &format!("the loader process dies in a session of {} builds: {}; no module for any file", proj.ntasks(), d.why), sj);
                    continue;
                }
            };
            let live_max = v["live_max"].as_u64().unwrap_or(0);
            if j > 0 {
                self.rep.count(&format!("interleaved:tasks={},max-live={}", proj.ntasks(), live_max));
                if v["reissue_window"].as_bool().unwrap_or(false) {
                    self.rep.count("interleaved:feature:initiate-after-a-free-while-an-older-build-is-pending");
                }
                if spec.abandon.iter().any(|a| a.is_some()) {
                    self.rep.count("interleaved:feature:build-given-up(free without emit)");
                }
                if live_max >= 2 {
                    self.rep.nontrivial(&format!("{base_hash:x} {}", all_json[j]));
                }
            }
            let trace: Vec<String> = v["trace"].as_array().map(|a| a.iter().map(|x| x.as_str().unwrap_or("").to_string()).collect()).unwrap_or_default();
            for (k, case) in proj.roots.iter().enumerate() {
                let out = &v["out"][k];
                let got: Result<String, String> = match out[0].as_str().unwrap_or("") {
                    "abandoned" => {
                        self.rep.count("interleaved:module:none(build given up)");
                        continue;
                    }
                    "=" => sequential[k].clone(),
                    "js" => Ok(out[1].as_str().unwrap_or("").to_string()),
                    _ => Err(out[1].as_str().unwrap_or("").to_string()),
                };
                if j == 0 {
                    sequential[k] = got.clone();
                }
                if got == reference[k] {
                    // same text as the module judged against the declaration file in the one-at-a-time stream: same verdict
                    self.rep.o_cases += 1;
                    self.rep.count("interleaved:module:identical-to-one-at-a-time");
                    continue;
                }
                let inter = Inter { loader: got, sequential: reference[k].clone(), session: sj.clone(), root: k, path: proj.task_path(k), trace: trace.clone(), history_decl: None };
                let ans = self.drv.batch(&[case.request()]);
                if let Some(a) = ans.first() {
                    self.judge(case, a, Some(&inter), &LoaderOut::Done(Err(String::new())));
                }
            }
        }
    }

    fn interleaved_stream(&mut self, rng: &mut Rng, thorough: bool) {
        let cli = !self.cli.is_empty();
        let pick = |q: usize, t: usize| if thorough { t } else { q };
        // (a) two builds, every order of their single calls
        for _ in 0..pick(1, 6) {
            let specs = vec![distinct_file(0, rng), distinct_file(1, rng)];
            let specs: Vec<FileSpec> = if thorough { specs } else { specs.into_iter().map(|mut s| { s.imports.truncate(1); s }).collect() };
            let proj = make_project(random_cfg(rng), &specs, vec![], rng, cli);
            let counts: Vec<usize> = (0..2).map(|k| proj.steps(k)).collect();
            let sessions: Vec<SessionSpec> = interleavings(&counts).into_iter().map(|o| {
                let mut schedule: Vec<Option<usize>> = o.into_iter().map(Some).collect();
                schedule.insert(0, None);
                SessionSpec { schedule, abandon: vec![None; 2], reverse_loads: false }
            }).collect();
            self.run_project(&proj, &sessions, "2-builds-every-order-of-calls");
        }
        // (b) three builds, every order of their stretches (start / supply imported files / finish)
        for i in 0..pick(2, 12) {
            let specs: Vec<FileSpec> = (0..3).map(|k| distinct_file(k + (i % 2), rng)).collect();
            let proj = make_project(random_cfg(rng), &specs, vec![], rng, cli);
            let groups: Vec<Vec<usize>> = (0..3).map(|k| proj.groups(k)).collect();
            let counts: Vec<usize> = groups.iter().map(|g| g.len()).collect();
            // (quick tier: every order for the first project, every third order for the second)
            let sessions: Vec<SessionSpec> = interleavings(&counts).into_iter().enumerate().filter(|(n, _)| thorough || i == 0 || n % 3 == 0)
                .map(|(_, o)| SessionSpec { schedule: expand(&o, &groups, i % 2 == 1), abandon: vec![None; 3], reverse_loads: i % 3 == 2 }).collect();
            self.run_project(&proj, &sessions, "3-builds-every-order-of-stretches");
        }
        // (c) three builds, one of them given up after its start or while its files are supplied
        for i in 0..pick(1, 6) {
            let specs: Vec<FileSpec> = (0..3).map(|k| distinct_file(k, rng)).collect();
            let proj = make_project(random_cfg(rng), &specs, vec![], rng, false);
            let victim = i % 3;
            let after = 2 + (i / 3) % 2;
            let mut groups: Vec<Vec<usize>> = (0..3).map(|k| proj.groups(k)).collect();
            groups[victim] = vec![after, 1];
            let counts: Vec<usize> = groups.iter().map(|g| g.len()).collect();
            let mut abandon = vec![None; 3];
            abandon[victim] = Some(after);
            let sessions: Vec<SessionSpec> = interleavings(&counts).into_iter().map(|o| SessionSpec { schedule: expand(&o, &groups, false), abandon: abandon.clone(), reverse_loads: false }).collect();
            self.run_project(&proj, &sessions, "3-builds-one-given-up");
        }
        // (d) 2–4 builds (+ failing builds), random orders of the single calls, builds given up at random points
        for i in 0..pick(120, 2000) {
            let proj = random_project(rng, cli && i % 25 == 0);
            let sessions: Vec<SessionSpec> = (0..pick(8, 12)).map(|_| random_session(&proj, rng)).collect();
            self.run_project(&proj, &sessions, "random");
        }
    }
}

/// the documented naming rule, restated independently of the code (https://nitrogql.vercel.app/configuration/options — name.*):
/// capitalised operation name + per-kind suffix; fragment name + fragment suffix
fn expected_name(cfg: &[(String, Value)], d: &DefDesc) -> String {
    let get = |k: &str| cfg.iter().find(|(kk, _)| kk == k).map(|(_, v)| v.clone());
    let s = |k: &str, dflt: &str| get(k).and_then(|v| v.as_str().map(|x| x.to_string())).unwrap_or(dflt.to_string());
    let name = d.name.clone().unwrap_or_default();
    if !d.op {
        return format!("{name}{}", s("fragmentVariableSuffix", ""));
    }
    let cap = get("capitalizeOperationNames").and_then(|v| v.as_bool()).unwrap_or(true);
    let base = if cap {
        let mut cs = name.chars();
        match cs.next() {
            Some(c) => c.to_ascii_uppercase().to_string() + cs.as_str(),
            None => String::new(),
        }
    } else {
        name
    };
    let suffix = match d.kind.as_str() {
        "query" => s("queryVariableSuffix", "Query"),
        "mutation" => s("mutationVariableSuffix", "Mutation"),
        _ => s("subscriptionVariableSuffix", "Subscription"),
    };
    format!("{base}{suffix}")
}

// ---------------------------------------------------------------------------------------- main

fn make_case(cfg: Vec<(String, Value)>, spec: &FileSpec, rng: &mut Rng, cli: bool) -> Case {
    let (main, imports, defs) = render_file(spec, rng);
    let config_text = render_config(&cfg, rng, cli);
    Case { cfg, config_text, main, imports, defs, cli }
}

fn corpus(rng: &mut Rng) -> Vec<Case> {
    let files = fixed_files();
    let by = |label: &str| files.iter().find(|(l, _)| l.starts_with(label)).map(|(_, s)| s.clone()).unwrap();
    let k = |pairs: &[(&str, Value)]| -> Vec<(String, Value)> { pairs.iter().map(|(a, b)| (a.to_string(), b.clone())).collect() };
    vec![
        // minimal cases of the known findings first (their `case` becomes the replay of the finding)
        make_case(k(&[]), &by("query-X+fragment-XQuery"), rng, true),
        make_case(k(&[("defaultExportForOperation", json!(false))]), &by("upper-lower-pair"), rng, true),
        make_case(k(&[("queryVariableSuffix", json!(""))]), &by("one-anonymous-query"), rng, true),
        make_case(k(&[]), &by("fragment-named-class"), rng, true),
        // ordinary shapes
        make_case(k(&[]), &by("one-named-query"), rng, true),
        make_case(k(&[("defaultExportForOperation", json!(false)), ("mode", json!("standalone-ts-4.0"))]), &by("query+wildcard-import"), rng, true),
        make_case(k(&[("capitalizeOperationNames", json!(false)), ("mode", json!("with-loader-ts-4.0"))]), &by("three-queries+fragments"), rng, true),
        make_case(k(&[]), &by("query+used-import+own-fragment-not-spread"), rng, true),
        make_case(k(&[("defaultExportForOperation", json!(false)), ("fragmentVariableSuffix", json!("Fragment"))]), &by("query+specific-import+two-own-fragments-one-not-spread"), rng, true),
    ]
}

fn main() {
    if std::env::args().nth(1).as_deref() == Some("--session-worker") {
        session::worker_main();
        return;
    }
    let args = Args::parse();
    quiet_panics();
    let mut rep = Report::new("C14", "case = (config text, operation file text, imported file texts); non-trivial = check accepts the document, the declaration file has at least one value export, and the file has >= 2 definitions or a naming/export option is set; distinct by (abstract config, resolved document); an interleaved loader session (several files of one project built by one loader instance) is non-trivial if at least two builds are pending at the same time; distinct by (project texts, call schedule); every history of generate runs in one project directory (>= 2 runs with an edit in between) is non-trivial; distinct by (states, touched mtimes)");
    let mut drv = Driver::spawn(&args.driver);
    let schema_doc = {
        let mut doc = parse_type_system_document(SCHEMA_SDL).expect("schema parses");
        doc.extend(graphql_builtins::generate_builtins());
        Box::leak(Box::new(resolve_schema_extensions(doc).expect("schema resolves")))
    };
    let schema: &'static SchemaT = Box::leak(Box::new(ast_to_type_system(schema_doc)));
    // (the loader ABI is never called in this process: see session.rs)
    let cli = args.extra.get("cli").cloned().unwrap_or_default();
    let cli = if Path::new(&cli).exists() { cli } else { String::new() };
    let scratch = PathBuf::from(if args.scratch.is_empty() { std::env::temp_dir().join("nv-c14").to_string_lossy().to_string() } else { args.scratch.clone() });
    let mut ctx = Ctx { rep: &mut rep, drv: &mut drv, schema, cli: cli.clone(), scratch, dump: args.replay.is_some(), worker_seconds: 0.0, loader_seconds: 0.0, client: session::Client::new() };

    if let Some(path) = &args.replay {
        let v: Value = serde_json::from_str(&std::fs::read_to_string(path).expect("replay file")).expect("replay json");
        if v["case"]["kind"] == "history" {
            ctx.run_history(&history::history_from_json(&v["case"]), "replay");
        } else if v["case"]["kind"] == "interleaved" {
            ctx.run_project(&Project::from_json(&v["case"]), &[SessionSpec::from_json(&v["case"])], "replay");
        } else {
            ctx.run(&[Case::from_json(&v["case"])]);
        }
        rep.write(&args);
        return;
    }

    let mut rng = Rng::new(args.seed);
    let search = args.extra.get("search").map(|s| s == "1").unwrap_or(false);

    // corpus first
    let c = corpus(&mut rng);
    for x in c.iter().take(3) {
        ctx.rep.sample(json!({"config_text": x.config_text, "main": x.main, "imports": x.imports}));
    }
    ctx.run(&c);

    // interleaved loader sessions (own random stream: the other streams do not depend on it)
    {
        let mut irng = Rng::new(args.seed ^ 0x1417_5E55_1045);
        let t0 = std::time::Instant::now();
        ctx.interleaved_stream(&mut irng, args.thorough());
        let secs = json!({"total": (t0.elapsed().as_secs_f64() * 10.0).round() / 10.0, "in_session_worker": (ctx.worker_seconds * 10.0).round() / 10.0});
        ctx.rep.extra.insert("interleaved_seconds".into(), secs);
    }

    // histories of generate runs in one project directory (own random stream)
    {
        let mut hrng = Rng::new(args.seed ^ 0x4157_0E1E_5000);
        let t0 = std::time::Instant::now();
        ctx.history_stream(&mut hrng, args.thorough());
        ctx.rep.extra.insert("history_seconds".into(), json!((t0.elapsed().as_secs_f64() * 10.0).round() / 10.0));
    }

    // the product: Booleans (with "absent") × modes × fixed files × suffix choices
    let files = fixed_files();
    let extra_files = args.budget(0, 40);
    let mut all_files: Vec<(String, FileSpec)> = files.iter().map(|(l, s)| (l.to_string(), s.clone())).collect();
    for i in 0..extra_files {
        all_files.push((format!("random-{i}"), random_file(&mut rng)));
    }
    let tri = [None, Some(true), Some(false)];
    let modes = [None, Some("with-loader-ts-5.0"), Some("with-loader-ts-4.0"), Some("standalone-ts-4.0")];
    let mut batch = vec![];
    let mut cli_budget = if cli.is_empty() { 0 } else { args.budget(120, 1500) };
    let mut product = 0u64;
    for (label, keys) in suffix_choices(args.thorough()) {
        for (flabel, spec) in &all_files {
            for de in tri {
                for cap in tri {
                    for rt in [false, true] {
                        for vt in [false, true] {
                            for mode in modes {
                                let mut cfg: Vec<(String, Value)> = vec![];
                                if let Some(m) = mode {
                                    cfg.push(("mode".into(), json!(m)));
                                }
                                if let Some(b) = de {
                                    cfg.push(("defaultExportForOperation".into(), json!(b)));
                                }
                                if let Some(b) = cap {
                                    cfg.push(("capitalizeOperationNames".into(), json!(b)));
                                }
                                // `false` is the default of both flags: spell it or leave the key out
                                if rt || rng.chance(1, 3) {
                                    cfg.push(("operationResultType".into(), json!(rt)));
                                }
                                if vt || rng.chance(1, 3) {
                                    cfg.push(("variablesType".into(), json!(vt)));
                                }
                                for (k, v) in &keys {
                                    cfg.push((k.to_string(), json!(v)));
                                }
                                let use_cli = cli_budget > 0 && rng.chance(1, 97);
                                if use_cli {
                                    cli_budget -= 1;
                                }
                                batch.push(make_case(cfg, spec, &mut rng, use_cli));
                                product += 1;
                                if batch.len() >= 4000 {
                                    ctx.run(&batch);
                                    batch.clear();
                                }
                            }
                        }
                    }
                }
            }
            ctx.rep.count(&format!("suffixes:{label}"));
            let _ = flabel;
        }
    }
    ctx.run(&batch);
    batch.clear();
    ctx.rep.extra.insert("boolean_product_cases".into(), json!(product));
    ctx.rep.extra.insert("fixed_files".into(), json!(files.iter().map(|(l, _)| *l).collect::<Vec<_>>()));

    // random configs × random files
    let nrand = if search { 60000 } else { args.budget(3000, 40000) };
    for i in 0..nrand {
        let spec = random_file(&mut rng);
        let cfg = random_cfg(&mut rng);
        let use_cli = cli_budget > 0 && rng.chance(1, 29);
        if use_cli {
            cli_budget -= 1;
        }
        let case = make_case(cfg, &spec, &mut rng, use_cli);
        if i < 3 {
            ctx.rep.sample(json!({"config_text": case.config_text, "main": case.main, "imports": case.imports}));
        }
        batch.push(case);
        if batch.len() >= 4000 {
            ctx.run(&batch);
            batch.clear();
        }
    }
    ctx.run(&batch);
    ctx.rep.count_n("random-cases", nrand as u64);
    let worker = json!({"processes_spawned": ctx.client.spawned, "deaths": ctx.client.deaths, "driver_and_one_at_a_time_loader_seconds": (ctx.loader_seconds * 10.0).round() / 10.0});
    ctx.rep.extra.insert("loader_worker_process".into(), worker);
    rep.exhaustive = true;
    rep.notes.push("exhaustive = the full product of {defaultExportForOperation, capitalizeOperationNames} in {absent,true,false} x {operationResultType, variablesType} x {mode absent + 3 modes} for every fixed file and suffix choice".into());
    rep.write(&args);
}
