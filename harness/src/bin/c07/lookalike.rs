//! Text that LOOKS like a token or an escape of ANOTHER lexical context. GraphQL has four contexts in which
//! characters are not tokens: `#` comments, `"…"` strings (escapes `\uXXXX`, `\u{…}`, `\n`, `\"`, `\\` …), `"""…"""`
//! block strings (only `\"""` is special) and the path string of an `#import` line. The fragments below are placed
//!   * in comments between any two tokens,
//!   * in block strings (descriptions and values) — raw, they denote themselves,
//!   * in normal strings (descriptions, argument / default / directive-argument values, list and object members,
//!     import paths) — the renderer escapes `\` and `"`, so the text shows `\\uD800`, `\\\"`, `\\n` …: an escaped
//!     backslash followed by what would be an escape if the backslash were not escaped.
//! Each case keeps the look-alikes in ONE context (or mixes all), which names the failure class. The documents are
//! ordinary abstract documents: O compares the real result with them (strings decoded per spec: `"\\uD800"` denotes
//! the six characters `\uD800`), K compares with the Lean parser model.
use nvh::gm::*;
use nvh::render::*;
use nvh::*;

/// fragments that mean something in some OTHER lexical context
const FRAGS: &[&str] = &[
    // escapes of normal strings (valid, invalid, incomplete)
    "\\uD800", "\\uDFFF", "\\udbff", "\\uD83D\\uDE00", "\\uDE00\\uD83D", "\\u{110000}", "\\u{D800}", "\\u{dfff}", "\\u{FFFFFFFFF}", "\\u{}", "\\u{", "\\u{12",
    "\\u", "\\u12", "\\uD8", "\\uZZZZ", "\\u0041", "\\u00e9", "\\u{1F600}", "\\q", "\\x41", "\\n", "\\t", "\\\"", "\\\\", "\\/", "\\", "\\\\uD800", "uD800", "u{110000}",
    // string and block-string delimiters
    "\"", "\"\"", "\"\"\"", "\\\"\"\"", "'",
    // comments and the import extension
    "#", "# c", "#import x from \"y\"", "import * from \"y\"", "from",
    // punctuators and keywords
    "...", "$v", "@d", "{", "}", "(", ")", "[", "]", ":", "!", "|", "&", "=", ",", "query", "fragment F on T", "on", "null", "true", "extend type T",
    // numbers and odd characters
    "1e5", "-0", "\u{feff}",
];
const GLUE: [&str; 5] = ["", "", " ", "x", "é😀"];

/// a string made of 1–5 fragments; `in_comment`: no line terminators; `in_block`: representable raw
fn lookalike(rng: &mut Rng, line_breaks: bool) -> String {
    let mut s = String::new();
    let n = 1 + rng.below(5);
    for k in 0..n {
        if k > 0 {
            s.push_str(GLUE[rng.below(GLUE.len())]);
            if line_breaks && rng.chance(1, 6) {
                s.push('\n');
            }
        }
        s.push_str(FRAGS[rng.below(FRAGS.len())]);
    }
    s
}

/// the same, but representable as a block string whose raw text is its value (see `render::block_representable`)
fn lookalike_block(rng: &mut Rng) -> String {
    for _ in 0..20 {
        let mut s = lookalike(rng, true).replace("\"\"\"", "\"\"");
        if rng.coin() {
            s = format!("excludes {s} here");
        }
        let ok = !s.is_empty()
            && !s.contains("\"\"\"")
            && !s.ends_with('"')
            && !s.ends_with('\\')
            && !s.starts_with(|c: char| c == ' ' || c == '\t' || c == '\n')
            && !s.ends_with(|c: char| c == ' ' || c == '\t' || c == '\n')
            && s.split('\n').skip(1).all(|l| !l.starts_with(|c: char| c == ' ' || c == '\t'));
        if ok {
            return s;
        }
    }
    "excludes \\uD800-\\uDFFF".to_string()
}

fn lookalike_comment(rng: &mut Rng) -> String {
    let body = lookalike(rng, false);
    // `#` + optional spaces + a complete import statement is the import extension, not a comment
    if body.trim_start().starts_with("import") || body.trim_start().starts_with("#import") {
        format!("# see {body}")
    } else {
        format!("#{}{body}", if rng.coin() { " " } else { "" })
    }
}

#[derive(Clone, Copy, PartialEq)]
pub enum Where {
    Comment,
    BlockStr,
    NormalStr,
    ImportPath,
    Mixed,
}

impl Where {
    pub fn name(&self) -> &'static str {
        match self {
            Where::Comment => "lookalike-comment",
            Where::BlockStr => "lookalike-blockstr",
            Where::NormalStr => "lookalike-string",
            Where::ImportPath => "lookalike-import-path",
            Where::Mixed => "lookalike-mixed",
        }
    }
}

struct Src {
    place: Where,
}

impl Src {
    /// a string VALUE / description of the document
    fn string(&self, rng: &mut Rng) -> String {
        match self.place {
            Where::BlockStr => lookalike_block(rng),
            Where::NormalStr => lookalike(rng, true),
            Where::Mixed => {
                if rng.coin() {
                    lookalike_block(rng)
                } else {
                    lookalike(rng, true)
                }
            }
            // look-alikes elsewhere: the strings themselves are harmless
            _ => ["plain", "a b", "é"][rng.below(3)].to_string(),
        }
    }
    fn desc(&self, rng: &mut Rng) -> Option<String> {
        if rng.chance(2, 3) {
            Some(self.string(rng))
        } else {
            None
        }
    }
    fn value(&self, rng: &mut Rng, depth: usize) -> Val {
        let p = P::default();
        if depth > 0 && rng.chance(1, 3) {
            if rng.coin() {
                Val::List((0..1 + rng.below(3)).map(|_| self.value(rng, depth - 1)).collect(), p)
            } else {
                Val::Obj((0..1 + rng.below(3)).map(|k| Arg::new(&format!("k{k}"), self.value(rng, depth - 1))).collect(), p)
            }
        } else if rng.chance(1, 5) {
            Val::Enum(["uD800", "u", "n", "on", "import"][rng.below(5)].to_string(), p)
        } else {
            Val::Str(self.string(rng), p)
        }
    }
    fn dirs(&self, rng: &mut Rng) -> Vec<Dir> {
        if rng.chance(1, 2) {
            vec![Dir::new(["deprecated", "d", "uD800"][rng.below(3)], vec![Arg::new("reason", self.value(rng, 1))])]
        } else {
            vec![]
        }
    }
    fn ivdef(&self, rng: &mut Rng, k: usize) -> InputValueDef {
        InputValueDef { desc: self.desc(rng), name: format!("arg{k}"), pos: P::default(), ty: Ty::named("String"), default: if rng.coin() { Some(self.value(rng, 2)) } else { None }, dirs: self.dirs(rng) }
    }
}

fn ts_doc(rng: &mut Rng, src: &Src) -> TsDoc {
    let mut items = vec![];
    for k in 0..1 + rng.below(4) {
        let kind = [TypeKind::Object, TypeKind::Interface, TypeKind::Enum, TypeKind::Input, TypeKind::Scalar, TypeKind::Union][rng.below(6)];
        let mut t = TypeDef::new(kind, &format!("T{k}"));
        t.desc = src.desc(rng);
        t.dirs = src.dirs(rng);
        match kind {
            TypeKind::Object | TypeKind::Interface => {
                t.fields = (0..1 + rng.below(3))
                    .map(|j| FieldDef { desc: src.desc(rng), name: format!("f{j}"), pos: P::default(), args: (0..rng.below(3)).map(|a| src.ivdef(rng, a)).collect(), ty: Ty::list(Ty::non_null(Ty::named("String"))), dirs: src.dirs(rng) })
                    .collect()
            }
            TypeKind::Enum => t.values = (0..1 + rng.below(3)).map(|j| EnumValueDef { desc: src.desc(rng), name: format!("V{j}"), pos: P::default(), dirs: src.dirs(rng) }).collect(),
            TypeKind::Input => t.inputs = (0..1 + rng.below(3)).map(|j| src.ivdef(rng, j)).collect(),
            TypeKind::Union => t.members = vec![("A".into(), P::default()), ("B".into(), P::default())],
            TypeKind::Scalar => {}
        }
        items.push(if rng.chance(1, 5) && t.desc.is_none() { TsItem::TypeExt(t) } else { TsItem::TypeDef(t) });
    }
    if rng.chance(1, 3) {
        items.push(TsItem::DirectiveDef(DirectiveDef { desc: src.desc(rng), name: "d".into(), name_pos: P::default(), args: (0..rng.below(3)).map(|a| src.ivdef(rng, a)).collect(), repeatable: rng.coin(), locations: vec!["FIELD".into(), "ENUM_VALUE".into()], pos: P::default() }));
    }
    if rng.chance(1, 3) {
        items.push(TsItem::SchemaDef(SchemaDef { desc: src.desc(rng), dirs: src.dirs(rng), roots: vec![(OpKind::Query, "T0".into(), P::default())], pos: P::default() }));
    }
    rng.shuffle(&mut items);
    TsDoc { items }
}

fn selset(rng: &mut Rng, src: &Src, depth: usize) -> Vec<Sel> {
    (0..1 + rng.below(3))
        .map(|k| match rng.below(6) {
            0 => Sel::Spread { name: format!("F{k}"), name_pos: P::default(), dirs: src.dirs(rng), pos: P::default() },
            1 if depth > 0 => Sel::Inline { cond: if rng.coin() { Some(("T".into(), P::default())) } else { None }, dirs: src.dirs(rng), sel: selset(rng, src, depth - 1), pos: P::default() },
            _ => Sel::Field {
                alias: if rng.chance(1, 4) { Some((format!("a{k}"), P::default())) } else { None },
                name: ["f", "uD800", "import", "n"][rng.below(4)].to_string(),
                name_pos: P::default(),
                args: (0..rng.below(3)).map(|j| Arg::new(&format!("x{j}"), src.value(rng, 2))).collect(),
                dirs: src.dirs(rng),
                sel: if depth > 0 && rng.chance(1, 3) { Some(selset(rng, src, depth - 1)) } else { None },
            },
        })
        .collect()
}

fn op_doc(rng: &mut Rng, src: &Src) -> Doc {
    let mut defs = vec![];
    for k in 0..1 + rng.below(3) {
        if rng.chance(1, 4) {
            defs.push(ExecDef::Frag(FragDef { name: format!("F{k}"), name_pos: P::default(), cond: "T".into(), cond_pos: P::default(), dirs: src.dirs(rng), sel: selset(rng, src, 2), pos: P::default() }));
        } else {
            let vars = (0..rng.below(3)).map(|j| VarDef { name: format!("v{j}"), pos: P::default(), ty: Ty::named("String"), default: if rng.coin() { Some(src.value(rng, 2)) } else { None }, dirs: src.dirs(rng) }).collect();
            defs.push(ExecDef::Op(OpDef { kind: [OpKind::Query, OpKind::Mutation, OpKind::Subscription][rng.below(3)], name: Some((format!("Q{k}"), P::default())), vars, dirs: src.dirs(rng), sel: selset(rng, src, 2), pos: P::default(), shorthand: false }));
        }
    }
    if src.place == Where::ImportPath || (src.place == Where::Mixed && rng.coin()) || rng.chance(1, 6) {
        let path = if src.place == Where::ImportPath || src.place == Where::Mixed { format!("./{}.graphql", lookalike(rng, false)) } else { "./frags.graphql".to_string() };
        let at = rng.below(defs.len() + 1);
        defs.insert(at, ExecDef::Import(ImportDef { targets: vec![Some(("F9".into(), P::default())), None], path, pos: P::default() }));
    }
    Doc { defs }
}

pub struct LookCase {
    pub kind: &'static str,
    pub text: String,
    pub expect: Sexp,
    pub place: Where,
    pub features: Vec<String>,
}

/// one document with look-alikes in the lexical context chosen by `i`
pub fn gen_lookalike(rng: &mut Rng, i: usize) -> LookCase {
    let place = [Where::Comment, Where::BlockStr, Where::NormalStr, Where::ImportPath, Where::Mixed][i % 5];
    let src = Src { place };
    let comments = place == Where::Comment || place == Where::Mixed;
    let blocks = place == Where::BlockStr || place == Where::Mixed;
    // comments need the trivia source; the other contexts are rendered canonically half of the time
    let noisy = comments || rng.coin();
    let style = Style { trivia: noisy, block_desc: blocks, exotic_newlines: noisy && rng.chance(1, 4), unicode_comments: noisy };
    let mut e = Emitter::new(style, rng.fork());
    e.block_values = blocks;
    e.block_rich = blocks;
    if comments {
        e.extra_comments = (0..8).map(|_| lookalike_comment(rng)).collect();
    }
    let is_ts = place != Where::ImportPath && rng.coin();
    let (kind, expect) = if is_ts {
        let mut d = ts_doc(rng, &src);
        for x in d.items.iter_mut() {
            let lead = rng.chance(1, 4);
            r_tsitem(&mut e, x, lead);
        }
        ("ts", d.to_sexp())
    } else {
        let mut d = op_doc(rng, &src);
        for x in d.defs.iter_mut() {
            r_execdef(&mut e, x);
        }
        ("op", d.to_sexp())
    };
    let (mut text, feats) = e.finish();
    if comments && rng.chance(1, 3) {
        // a look-alike comment as the very last thing of the text, with or without a final line break
        if !text.ends_with('\n') {
            text.push('\n');
        }
        text.push_str(&lookalike_comment(rng));
        if rng.coin() {
            text.push('\n');
        }
    }
    let mut features: Vec<String> = feats.iter().map(|s| s.to_string()).collect();
    features.push(place.name().to_string());
    LookCase { kind, text, expect, place, features }
}
