//! Token-level mutations of GraphQL texts and random token soups (shared by c07 — K on error positions —
//! and c08 — the malformed stream). Every choice comes from the caller's `Rng`.
use nvh::Rng;

/// a rough GraphQL lexer: (text of the token, is trivia)
pub fn lex(text: &str) -> Vec<(String, bool)> {
    let cs: Vec<char> = text.chars().collect();
    let mut out = vec![];
    let mut i = 0;
    while i < cs.len() {
        let c = cs[i];
        let st = i;
        if c == ' ' || c == '\t' || c == '\n' || c == '\r' || c == ',' || c == '\u{feff}' {
            while i < cs.len() && matches!(cs[i], ' ' | '\t' | '\n' | '\r' | ',' | '\u{feff}') {
                i += 1;
            }
            out.push((cs[st..i].iter().collect(), true));
        } else if c == '#' {
            while i < cs.len() && cs[i] != '\n' {
                i += 1;
            }
            out.push((cs[st..i].iter().collect(), true));
        } else if c == '"' {
            if i + 2 < cs.len() && cs[i + 1] == '"' && cs[i + 2] == '"' {
                i += 3;
                while i < cs.len() && !(cs[i] == '"' && i + 2 < cs.len() && cs[i + 1] == '"' && cs[i + 2] == '"') {
                    i += 1;
                }
                i = (i + 3).min(cs.len());
            } else {
                i += 1;
                while i < cs.len() && cs[i] != '"' && cs[i] != '\n' {
                    i += if cs[i] == '\\' { 2 } else { 1 };
                }
                i = (i + 1).min(cs.len());
            }
            out.push((cs[st..i].iter().collect(), false));
        } else if c.is_ascii_alphabetic() || c == '_' {
            while i < cs.len() && (cs[i].is_ascii_alphanumeric() || cs[i] == '_') {
                i += 1;
            }
            out.push((cs[st..i].iter().collect(), false));
        } else if c.is_ascii_digit() || c == '-' {
            i += 1;
            while i < cs.len() && (cs[i].is_ascii_alphanumeric() || matches!(cs[i], '.' | '+' | '-')) {
                i += 1;
            }
            out.push((cs[st..i].iter().collect(), false));
        } else if c == '.' && i + 2 < cs.len() && cs[i + 1] == '.' && cs[i + 2] == '.' {
            i += 3;
            out.push(("...".into(), false));
        } else {
            i += 1;
            out.push((c.to_string(), false));
        }
    }
    out
}

pub const SOUP: [&str; 96] = [
    "{", "}", "(", ")", "[", "]", ":", "=", "!", "$", "@", "&", "|", "...", ",", " ", "\n", "\t", "\r\n", "\r", "\u{feff}",
    "query", "mutation", "subscription", "fragment", "on", "true", "false", "null", "extend", "schema", "scalar", "type",
    "implements", "interface", "union", "enum", "input", "directive", "repeatable", "import", "from", "*", "#", "# c\n", "#import",
    "#import A from \"x\"\n", "#import * from \"x\"\n", "# import A from \"x\"\n", "a", "A", "_x", "Int", "String", "on1", "queryx", "QUERY", "FIELD",
    "FIELD_DEFINITION", "ENUM_VALUE", "ENUM", "INPUT_OBJECT", "0", "-0", "1", "-12", "1.5", "1e5", "1.e5", "01", "1a", "1.", "-", ".5",
    "\"\"", "\"s\"", "\"\"\"b\"\"\"", "\"\"\"", "\"", "\"\\", "\"\\n\"", "\"\\x\"", "\"\\u0041\"", "\"\\uD800\"", "\"\\uDFFF\"", "\"\\u{41}\"",
    "\"\\u{110000}\"", "\"\\u{123456789}\"", "\"\\u{}\"", "\"\\u12\"", "\"\\\"\"\"", "\"\"\"\\\"\"\"\"\"\"", "\\", "é", "😀", "\u{0}",
];

pub const HOSTILE_STRINGS: [&str; 22] = [
    "\"\\uD800\"", "\"\\uDBFF\"", "\"\\uDC00\"", "\"\\uDFFF\"", "\"\\uD83D\\uDE00\"", "\"\\u{D800}\"", "\"\\u{DFFF}\"", "\"\\u{110000}\"", "\"\\u{10FFFF}\"",
    "\"\\u{FFFFFFFF}\"", "\"\\u{100000000}\"", "\"\\u{123456789}\"", "\"\\u{00000000000041}\"", "\"\\u{0}\"", "\"\\u0000\"", "\"\\uFFFF\"",
    "\"\\\"", "\"\\", "\"abc", "\"\"\"abc", "\"\"\"abc\"\"", "\"\\u{+41}\"",
];

fn join(toks: &[(String, bool)]) -> String {
    toks.iter().map(|t| t.0.as_str()).collect()
}

/// one labelled mutation of a valid text
pub fn mutate(rng: &mut Rng, text: &str) -> (String, &'static str) {
    let mut toks = lex(text);
    let sig: Vec<usize> = toks.iter().enumerate().filter(|(_, t)| !t.1).map(|(i, _)| i).collect();
    if sig.is_empty() {
        return (text.to_string(), "unchanged");
    }
    let pick = |rng: &mut Rng| sig[rng.below(sig.len())];
    match rng.below(16) {
        0 => {
            let i = pick(rng);
            toks.remove(i);
            (join(&toks), "drop-token")
        }
        1 => {
            let i = pick(rng);
            let t = toks[i].clone();
            toks.insert(i, (" ".into(), true));
            toks.insert(i, t);
            (join(&toks), "duplicate-token")
        }
        2 => {
            let (i, j) = (pick(rng), pick(rng));
            toks.swap(i, j);
            (join(&toks), "swap-tokens")
        }
        3 => {
            // unbalance a bracket
            let br: Vec<usize> = sig.iter().cloned().filter(|&i| matches!(toks[i].0.as_str(), "{" | "}" | "(" | ")" | "[" | "]")).collect();
            if br.is_empty() {
                return (text.to_string(), "unchanged");
            }
            let i = br[rng.below(br.len())];
            if rng.coin() {
                toks.remove(i);
            } else {
                toks[i].0 = ["{", "}", "(", ")", "[", "]"][rng.below(6)].to_string();
            }
            (join(&toks), "unbalanced-bracket")
        }
        4 => {
            // truncate the text at a character
            let cs: Vec<char> = text.chars().collect();
            let k = rng.below(cs.len() + 1);
            (cs[..k].iter().collect(), "truncate-text")
        }
        5 => {
            // truncate inside a string token / replace a string by a hostile one
            let ss: Vec<usize> = sig.iter().cloned().filter(|&i| toks[i].0.starts_with('"')).collect();
            if ss.is_empty() {
                let i = pick(rng);
                toks[i].0 = HOSTILE_STRINGS[rng.below(HOSTILE_STRINGS.len())].to_string();
                return (join(&toks), "hostile-string-anywhere");
            }
            let i = ss[rng.below(ss.len())];
            if rng.coin() {
                let cs: Vec<char> = toks[i].0.chars().collect();
                let k = 1 + rng.below(cs.len().max(2) - 1);
                toks[i].0 = cs[..k.min(cs.len())].iter().collect();
                (join(&toks), "truncate-string")
            } else {
                toks[i].0 = HOSTILE_STRINGS[rng.below(HOSTILE_STRINGS.len())].to_string();
                (join(&toks), "hostile-string")
            }
        }
        6 => {
            let i = pick(rng);
            toks.insert(i, (SOUP[rng.below(SOUP.len())].to_string(), false));
            (join(&toks), "insert-token")
        }
        7 => {
            let i = pick(rng);
            toks[i].0 = SOUP[rng.below(SOUP.len())].to_string();
            (join(&toks), "replace-token")
        }
        8 => {
            // arbitrary unicode / control character somewhere
            let cs: Vec<char> = text.chars().collect();
            let k = rng.below(cs.len() + 1);
            let pool = ['\u{0}', '\u{1}', '\u{7f}', '\u{85}', '\u{a0}', '\u{2028}', '\u{2029}', '\u{feff}', '\u{fffd}', '\u{10ffff}', '\u{d7ff}', '\u{e000}', 'é', '😀', '\r', '\\', '`', '\'', '~', '^', '%', ';', '?', '<', '>', '/'];
            let mut o: String = cs[..k].iter().collect();
            o.push(pool[rng.below(pool.len())]);
            o.extend(cs[k..].iter());
            (o, "insert-odd-char")
        }
        9 => {
            // remove all trivia between two tokens (glue)
            let tr: Vec<usize> = toks.iter().enumerate().filter(|(_, t)| t.1).map(|(i, _)| i).collect();
            if tr.is_empty() {
                return (text.to_string(), "unchanged");
            }
            let i = tr[rng.below(tr.len())];
            toks.remove(i);
            (join(&toks), "glue-tokens")
        }
        10 => {
            // comment without final newline at the end / in the middle
            let mut t = text.trim_end().to_string();
            t.push_str([" #", " # c", "#x", " # é😀", "\n#"][rng.below(5)]);
            (t, "comment-at-eof")
        }
        11 => {
            // deep nesting (≤ 50) of list values / selection sets / list types
            let d = 1 + rng.below(50);
            let i = pick(rng);
            let s = match rng.below(3) {
                // list brackets only to depth 12: in a TYPE position `[`^d costs 2^d steps (DESIGN §9-z, an observation
                // outside "ordinary limits"), and a mutated token may land in a type position
                0 => format!("{}1{}", "[".repeat(d.min(12)), "]".repeat(d.min(12))),
                1 => format!("{}a{}", "{ a ".repeat(d), "}".repeat(d)),
                _ => format!("{}{{x:1}}{}", "{o:".repeat(d), "}".repeat(d)),
            };
            toks[i].0 = s;
            (join(&toks), "deep-nesting")
        }
        12 => {
            // a number-ish token
            let i = pick(rng);
            toks[i].0 = ["00", "-", "1.", "1e", "1e+", ".1", "1.2.3", "1_0", "0x10", "1ee5", "-0.0e-0", "9999999999999999999999999999", "1.0E+400"][rng.below(13)].to_string();
            (join(&toks), "odd-number")
        }
        13 => {
            // line terminators
            let t = text.replace('\n', ["\r\n", "\r", "\n\r", "\u{2028}"][rng.below(4)]);
            (t, "odd-newlines")
        }
        14 => {
            // keyword prefix glued to a name
            let i = pick(rng);
            let k = ["on", "query", "true", "null", "fragment", "type", "extend", "implements", "from", "import"][rng.below(10)];
            toks[i].0 = format!("{k}{}", ["x", "1", "_", ""][rng.below(4)]);
            (join(&toks), "keyword-like-name")
        }
        _ => {
            // two mutations
            let (t1, _) = mutate(rng, text);
            let (t2, _) = mutate(rng, &t1);
            (t2, "double-mutation")
        }
    }
}

/// a random sequence of tokens
#[allow(dead_code)]
pub fn soup(rng: &mut Rng) -> String {
    let n = 1 + rng.below(24);
    let mut s = String::new();
    for _ in 0..n {
        s.push_str(SOUP[rng.below(SOUP.len())]);
        if rng.chance(2, 3) {
            s.push(' ');
        }
    }
    s
}

/// arbitrary unicode text (valid UTF-8 by construction: Rust `String`)
#[allow(dead_code)]
pub fn unicode_noise(rng: &mut Rng) -> String {
    let n = rng.below(40);
    let mut s = String::new();
    for _ in 0..n {
        let c = match rng.below(8) {
            0 => char::from_u32(rng.below(0x20) as u32).unwrap(),
            1 => char::from_u32(0x20 + rng.below(0x5f) as u32).unwrap(),
            2 => char::from_u32(0x80 + rng.below(0x780) as u32).unwrap_or('é'),
            3 => char::from_u32(0x800 + rng.below(0xd000) as u32).unwrap_or('嗨'),
            4 => char::from_u32(0xe000 + rng.below(0x2000) as u32).unwrap_or('\u{e000}'),
            5 => char::from_u32(0x10000 + rng.below(0x100000) as u32).unwrap_or('😀'),
            6 => ['{', '}', '"', '#', '\\', '\n'][rng.below(6)],
            _ => ['\u{feff}', '\u{2028}', '\u{0}', '\u{7f}', '\u{fffd}', '\u{10ffff}'][rng.below(6)],
        };
        s.push(c);
    }
    s
}
