//! Ignored tokens, systematically: EVERY kind of ignored text (space, tab, LF, CR, CRLF, comma, byte order mark,
//! comments with / without text and with each line terminator, comment at the end of input) and runs of them, at
//! EVERY class of gap: before the first token, between any two tokens (a class is the pair (previous token, next
//! token), names / strings / numbers abstracted) — so inside `( )`, `[ ]`, `{ }`, around `: = ! @ $ ... | &` —
//! and after the last token, in operation and type-system documents. The planned text is the ONLY thing in its
//! gap (so it also has to work as the token separator: `type<BOM>T`, `type,T`), all other gaps are minimal.
//! Per document and kind: one text with the kind at a single gap of a class, and one with it in every gap.
//! O compares with the abstract document and the renderer's positions; K with the Lean parser model.
use nvh::gen::*;
use nvh::gm::*;
use nvh::render::*;
use nvh::*;

const BOM: &str = "\u{feff}";

/// (name, text, only valid as the very last thing of the input, tried at EVERY gap class of the covering documents?)
pub fn kinds() -> Vec<(&'static str, String, bool, bool)> {
    let s = |x: &str| x.to_string();
    vec![
        ("space", s(" "), false, true),
        ("tab", s("\t"), false, true),
        ("lf", s("\n"), false, true),
        ("cr", s("\r"), false, true),
        ("crlf", s("\r\n"), false, true),
        ("comma", s(","), false, true),
        ("bom", s(BOM), false, true),
        ("comment-lf", s("# c\n"), false, true),
        ("comment-empty-lf", s("#\n"), false, false),
        ("comment-crlf", s("# c { } \" $ @\r\n"), false, false),
        ("comment-cr", s("#c\r"), false, false),
        ("comment-unicode", s("# é😀 \u{feff} \\u\n"), false, false),
        // runs
        ("bom-bom", format!("{BOM}{BOM}"), false, false),
        ("comma-comma", s(",,"), false, false),
        ("space-space", s("  "), false, false),
        ("lf-lf", s("\n\n"), false, false),
        ("cr-cr", s("\r\r"), false, false),
        ("bom-space-bom", format!("{BOM} {BOM}"), false, false),
        ("comma-space-comma", s(", ,"), false, false),
        ("comment-comment", s("# a\n# b\n"), false, false),
        ("comment-lf-comment", s("#a\n\n#\n"), false, false),
        ("bom-comment-bom", format!("{BOM}# c\n{BOM}"), false, false),
        ("every-kind", format!(" \t,\n\r\n{BOM}\r# c\n,{BOM}"), false, false),
        // only as the last thing of the text
        ("comment-at-eof", s("# c"), true, true),
        ("empty-comment-at-eof", s("#"), true, true),
        ("bom-comment-at-eof", format!("{BOM}#c é"), true, false),
    ]
}

fn tok_class(t: &str) -> &str {
    match t.chars().next() {
        None => "",
        Some('"') => "string",
        Some(c) if c.is_ascii_digit() || c == '-' => "number",
        Some(c) if c.is_ascii_alphabetic() || c == '_' => match t {
            // keywords that open or structure a definition are their own class
            "query" | "mutation" | "subscription" | "fragment" | "on" | "type" | "interface" | "union" | "enum" | "input" | "scalar" | "schema" | "directive" | "extend" | "implements" | "repeatable" | "true" | "false" | "null" => t,
            _ => "name",
        },
        _ => t,
    }
}

pub enum AnyDoc {
    Op(Doc),
    Ts(TsDoc),
}

impl AnyDoc {
    pub fn kind(&self) -> &'static str {
        match self {
            AnyDoc::Op(_) => "op",
            AnyDoc::Ts(_) => "ts",
        }
    }
}

/// render with a gap plan: (text, denoted document with positions, gap log)
pub fn render_planned(d: &AnyDoc, plan: GapPlan, lead_sep: bool) -> (String, Sexp, Vec<(String, String)>) {
    let mut e = Emitter::new(Style::canonical(), Rng::new(0));
    e.gap_plan = Some(plan);
    let exp = match d {
        AnyDoc::Op(doc) => {
            let mut m = doc.clone();
            for x in m.defs.iter_mut() {
                r_execdef(&mut e, x);
            }
            m.to_sexp()
        }
        AnyDoc::Ts(doc) => {
            let mut m = doc.clone();
            for x in m.items.iter_mut() {
                r_tsitem(&mut e, x, lead_sep);
            }
            m.to_sexp()
        }
    };
    let (text, gaps) = e.finish_with_gaps();
    (text, exp, gaps)
}

pub struct GapCase {
    pub kind: &'static str,
    pub text: String,
    pub expect: Sexp,
    pub trivia: &'static str,
    /// "prev~next" or "every-gap"
    pub class: String,
}

/// the cases of one document: for every kind of ignored text, `per_kind` gap classes (all of them for single
/// ignored tokens if `exhaustive`) with the text at ONE gap of the class, and the text in EVERY gap
pub fn cases_of(rng: &mut Rng, d: &AnyDoc, exhaustive: bool, per_kind: usize, out: &mut Vec<GapCase>) {
    let lead_sep = rng.coin();
    let (_, _, gaps) = render_planned(d, GapPlan::Nowhere, lead_sep);
    let n = gaps.len();
    // gap classes → the gap numbers of the class
    let mut classes: Vec<(String, Vec<usize>)> = vec![];
    for (g, (a, b)) in gaps.iter().enumerate() {
        let c = format!("{}~{}", if g == 0 { "^" } else { tok_class(a) }, if g + 1 == n { "$" } else { tok_class(b) });
        match classes.iter_mut().find(|x| x.0 == c) {
            Some(x) => x.1.push(g),
            None => classes.push((c, vec![g])),
        }
    }
    for (name, text, eof_only, single) in kinds() {
        if eof_only {
            let (t, exp, _) = render_planned(d, GapPlan::At(n - 1, text.clone()), lead_sep);
            out.push(GapCase { kind: d.kind(), text: t, expect: exp, trivia: name, class: classes.last().map(|c| c.0.clone()).unwrap_or_default() });
            continue;
        }
        let mut chosen: Vec<usize> = (0..classes.len()).collect();
        if !(exhaustive && single) {
            rng.shuffle(&mut chosen);
            chosen.truncate(per_kind.max(2) - 2);
            // the first and the last gap of the text are always among them
            chosen.push(0);
            chosen.push(classes.len() - 1);
            chosen.sort();
            chosen.dedup();
        }
        for ci in chosen {
            let (c, gs) = &classes[ci];
            let g = gs[rng.below(gs.len())];
            let (t, exp, _) = render_planned(d, GapPlan::At(g, text.clone()), lead_sep);
            out.push(GapCase { kind: d.kind(), text: t, expect: exp, trivia: name, class: c.clone() });
        }
        // after the single-gap texts, so that the first witness of a failure class is a single ignored token / run
        let (t, exp, _) = render_planned(d, GapPlan::Everywhere(text.clone()), lead_sep);
        out.push(GapCase { kind: d.kind(), text: t, expect: exp, trivia: name, class: "every-gap".into() });
    }
}

// ------------------------------------------------------------------------------------------------
// two compact documents that contain every punctuator in every syntactic position

fn p() -> P {
    P::default()
}
fn s(v: &str) -> Val {
    Val::Str(v.to_string(), p())
}
fn var(n: &str) -> Val {
    Val::Var(n.to_string(), p())
}

pub fn covering_op() -> Doc {
    let dir = |n: &str, args: Vec<Arg>| Dir::new(n, args);
    let obj = Val::Obj(vec![Arg::new("k", Val::List(vec![Val::Int("1".into(), p()), Val::Float("-2.5e3".into(), p()), Val::Null(p()), Val::Bool(true, p()), Val::Enum("E".into(), p()), var("v"), s("x")], p())), Arg::new("e", Val::Obj(vec![], p()))], p());
    let field = Sel::Field {
        alias: Some(("al".into(), p())),
        name: "f".into(),
        name_pos: p(),
        args: vec![Arg::new("a", obj.clone()), Arg::new("b", Val::List(vec![], p())), Arg::new("c", s(""))],
        dirs: vec![dir("include", vec![Arg::new("if", var("b"))]), dir("d", vec![])],
        sel: Some(vec![
            Sel::field("g"),
            Sel::Spread { name: "F".into(), name_pos: p(), dirs: vec![dir("d", vec![Arg::new("x", Val::Int("0".into(), p()))])], pos: p() },
            Sel::Inline { cond: Some(("T".into(), p())), dirs: vec![dir("d", vec![])], sel: vec![Sel::field("h")], pos: p() },
            Sel::Inline { cond: None, dirs: vec![], sel: vec![Sel::field("__typename")], pos: p() },
            Sel::Inline { cond: None, dirs: vec![dir("skip", vec![Arg::new("if", Val::Bool(false, p()))])], sel: vec![Sel::field("i")], pos: p() },
        ]),
    };
    let vars = vec![
        VarDef { name: "v".into(), pos: p(), ty: Ty::non_null(Ty::list(Ty::non_null(Ty::named("Int")))), default: Some(Val::List(vec![Val::Int("1".into(), p())], p())), dirs: vec![dir("d", vec![Arg::new("x", s("y"))])] },
        VarDef { name: "b".into(), pos: p(), ty: Ty::named("Boolean"), default: None, dirs: vec![] },
        VarDef { name: "o".into(), pos: p(), ty: Ty::list(Ty::list(Ty::named("In"))), default: Some(obj), dirs: vec![] },
    ];
    Doc {
        defs: vec![
            ExecDef::Op(OpDef { kind: OpKind::Query, name: Some(("Q".into(), p())), vars, dirs: vec![dir("d", vec![Arg::new("x", Val::Enum("E".into(), p()))])], sel: vec![field, Sel::field("z")], pos: p(), shorthand: false }),
            ExecDef::Frag(FragDef { name: "F".into(), name_pos: p(), cond: "T".into(), cond_pos: p(), dirs: vec![dir("d", vec![])], sel: vec![Sel::field("g")], pos: p() }),
            ExecDef::Op(OpDef { kind: OpKind::Query, name: None, vars: vec![], dirs: vec![], sel: vec![Sel::field("a")], pos: p(), shorthand: true }),
            ExecDef::Op(OpDef { kind: OpKind::Mutation, name: None, vars: vec![], dirs: vec![], sel: vec![Sel::field("m")], pos: p(), shorthand: false }),
            ExecDef::Op(OpDef { kind: OpKind::Subscription, name: Some(("S".into(), p())), vars: vec![], dirs: vec![], sel: vec![Sel::field("s")], pos: p(), shorthand: false }),
        ],
    }
}

pub fn covering_ts() -> TsDoc {
    let dir = |n: &str, args: Vec<Arg>| Dir::new(n, args);
    let iv = |name: &str, desc: Option<&str>, ty: Ty, default: Option<Val>, dirs: Vec<Dir>| InputValueDef { desc: desc.map(|d| d.to_string()), name: name.to_string(), pos: p(), ty, default, dirs };
    let mut obj = TypeDef::new(TypeKind::Object, "T");
    obj.desc = Some("d".into());
    obj.implements = vec![("I".into(), p()), ("J".into(), p())];
    obj.dirs = vec![dir("d", vec![Arg::new("x", s("y"))])];
    obj.fields = vec![
        FieldDef {
            desc: Some("fd".into()),
            name: "f".into(),
            pos: p(),
            args: vec![iv("a", Some("ad"), Ty::non_null(Ty::list(Ty::non_null(Ty::named("Int")))), Some(Val::List(vec![Val::Int("1".into(), p())], p())), vec![dir("d", vec![])]), iv("b", None, Ty::named("In"), Some(Val::Obj(vec![Arg::new("k", Val::Null(p()))], p())), vec![])],
            ty: Ty::list(Ty::named("T")),
            dirs: vec![dir("deprecated", vec![Arg::new("reason", s("r"))])],
        },
        FieldDef { desc: None, name: "g".into(), pos: p(), args: vec![], ty: Ty::non_null(Ty::named("ID")), dirs: vec![] },
    ];
    let mut ifc = TypeDef::new(TypeKind::Interface, "I");
    ifc.implements = vec![("J".into(), p())];
    ifc.fields = vec![FieldDef { desc: None, name: "g".into(), pos: p(), args: vec![], ty: Ty::named("ID"), dirs: vec![] }];
    let mut un = TypeDef::new(TypeKind::Union, "U");
    un.dirs = vec![dir("d", vec![])];
    un.members = vec![("T".into(), p()), ("V".into(), p()), ("W".into(), p())];
    let mut en = TypeDef::new(TypeKind::Enum, "E");
    en.values = vec![EnumValueDef { desc: Some("vd".into()), name: "A".into(), pos: p(), dirs: vec![dir("deprecated", vec![])] }, EnumValueDef { desc: None, name: "B".into(), pos: p(), dirs: vec![] }];
    let mut inp = TypeDef::new(TypeKind::Input, "In");
    inp.inputs = vec![iv("k", Some("kd"), Ty::named("String"), Some(s("dflt")), vec![dir("d", vec![])]), iv("l", None, Ty::list(Ty::named("In")), None, vec![])];
    let mut sc = TypeDef::new(TypeKind::Scalar, "S");
    sc.desc = Some("sd".into());
    sc.dirs = vec![dir("specifiedBy", vec![Arg::new("url", s("u"))])];
    let mut ext = TypeDef::new(TypeKind::Object, "T");
    ext.implements = vec![("K".into(), p())];
    ext.fields = vec![FieldDef { desc: None, name: "h".into(), pos: p(), args: vec![], ty: Ty::named("Int"), dirs: vec![] }];
    let mut ext_un = TypeDef::new(TypeKind::Union, "U");
    ext_un.members = vec![("X".into(), p())];
    let mut ext_en = TypeDef::new(TypeKind::Enum, "E");
    ext_en.dirs = vec![dir("d", vec![])];
    let mut ext_sc = TypeDef::new(TypeKind::Scalar, "S");
    ext_sc.dirs = vec![dir("d", vec![])];
    TsDoc {
        items: vec![
            TsItem::SchemaDef(SchemaDef { desc: Some("sch".into()), dirs: vec![dir("d", vec![])], roots: vec![(OpKind::Query, "T".into(), p()), (OpKind::Mutation, "M".into(), p())], pos: p() }),
            TsItem::TypeDef(obj),
            TsItem::TypeDef(ifc),
            TsItem::TypeDef(un),
            TsItem::TypeDef(en),
            TsItem::TypeDef(inp),
            TsItem::TypeDef(sc),
            TsItem::DirectiveDef(DirectiveDef { desc: Some("dd".into()), name: "d".into(), name_pos: p(), args: vec![iv("x", None, Ty::named("String"), Some(s("")), vec![])], repeatable: true, locations: vec!["FIELD".into(), "OBJECT".into(), "ENUM_VALUE".into()], pos: p() }),
            TsItem::TypeExt(ext),
            TsItem::TypeExt(ext_un),
            TsItem::TypeExt(ext_en),
            TsItem::TypeExt(ext_sc),
            TsItem::SchemaExt(SchemaDef { desc: None, dirs: vec![dir("d", vec![])], roots: vec![(OpKind::Subscription, "Sub".into(), p())], pos: p() }),
        ],
    }
}

/// the documents of the stream: the two covering documents (exhaustive) + `n_generated` generated schemas with
/// one operation document each
pub fn gap_cases(rng: &mut Rng, n_generated: usize, per_kind: usize) -> Vec<GapCase> {
    let mut out = vec![];
    cases_of(rng, &AnyDoc::Op(covering_op()), true, per_kind, &mut out);
    cases_of(rng, &AnyDoc::Ts(covering_ts()), true, per_kind, &mut out);
    for i in 0..n_generated {
        let cfg = GenCfg { hostile_text: i % 2 == 0, descriptions: true, max_depth: 2, ..GenCfg::default() };
        let schema = gen_schema(rng, &cfg);
        let ts = if rng.coin() { schema.doc.clone() } else { split_into_extensions(rng, &schema) };
        cases_of(rng, &AnyDoc::Ts(ts), false, per_kind, &mut out);
        let (doc, _) = gen_doc(rng, &schema, &cfg);
        cases_of(rng, &AnyDoc::Op(doc), false, per_kind, &mut out);
    }
    out
}
