//! Shared by c07 and c08: the REAL parser behind one result type, the model's answer in the same type, and
//! the stable classes of the builders' panic messages.
use nitrogql_error::PositionedError;
use nitrogql_parser::{parse_operation_document, parse_type_system_document};
use nvh::gm::*;
use nvh::*;

#[derive(Clone, Debug, PartialEq)]
pub enum Res {
    Ok(Sexp),
    Err(usize, usize),
    Panic(String),
    Other(String),
}

#[allow(dead_code)]
impl Res {
    pub fn kind(&self) -> &'static str {
        match self {
            Res::Ok(_) => "ok",
            Res::Err(..) => "syntax-error",
            Res::Panic(_) => "panic",
            Res::Other(_) => "other",
        }
    }
    pub fn show(&self) -> String {
        match self {
            Res::Ok(s) => {
                let l = s.to_line();
                if l.chars().count() > 300 { format!("ok {}…", l.chars().take(300).collect::<String>()) } else { format!("ok {l}") }
            }
            Res::Err(l, c) => format!("syntax error at {l}:{c}"),
            Res::Panic(m) => format!("panic {m}"),
            Res::Other(m) => m.clone(),
        }
    }
}

fn word_after<'a>(s: &'a str, prefix: &str) -> Option<(&'a str, &'a str)> {
    let r = s.strip_prefix(prefix)?;
    let end = r.find(|c: char| !(c.is_alphanumeric() || c == '_')).unwrap_or(r.len());
    Some((&r[..end], &r[end..]))
}

/// stable class of a panic message of the real builders (same strings as `panicText` in lean/Driver/C07.lean)
pub fn panic_class(msg: &str) -> String {
    if let Some((w, rest)) = word_after(msg, "Expected a child of ") {
        if let Some((g, _)) = word_after(rest, ", actual ") {
            return format!("all-children:{w}:{g}");
        }
    }
    if let Some((w, rest)) = word_after(msg, "Expected 1 child of ") {
        if rest.starts_with(", actual 0") {
            return format!("only-child-0:{w}");
        }
    }
    if let Some((w, _)) = word_after(msg, "Expected 1 child for ") {
        return format!("only-child-many:{w}");
    }
    if let Some((w, rest)) = word_after(msg, "Expected ") {
        if let Some((g, _)) = word_after(rest, ", actual ") {
            return format!("parts:{w}:{g}");
        }
    }
    if msg.starts_with("Unexpected") {
        return "unexpected".into();
    }
    if msg.contains("Invalid character code") {
        return "invalid-char-code".into();
    }
    if msg.contains("ParseIntError") {
        return "hex-parse".into();
    }
    if msg.contains("Empty document") {
        return "empty-document".into();
    }
    if msg.contains("Unknown operation type") {
        return "unknown-operation-type".into();
    }
    if msg.contains("Unknown escape sequence") {
        return "unknown-escape".into();
    }
    // unknown message: its constant head (up to the first ':' or line break), so that the class does not depend on the input
    let head = msg.split(|c| c == ':' || c == '\n').next().unwrap_or("");
    let short: String = head.trim().chars().take(48).map(|c| if c.is_alphanumeric() { c } else { '-' }).collect();
    format!("other:{short}")
}

pub fn real_parse(kind: &str, text: &str) -> Res {
    let t = text.to_string();
    let is_op = kind == "op";
    let r = catch(move || {
        // positions carry the thread's "current file" index; other streams of the same process may have moved it
        nitrogql_ast::set_current_file_of_pos(0);
        if is_op {
            match parse_operation_document(&t) {
                Ok(d) => Ok(from_real_doc_ext(&d).to_sexp()),
                Err(e) => Err(PositionedError::from(e).position().map(|p| (p.line, p.column))),
            }
        } else {
            match parse_type_system_document(&t) {
                Ok(d) => Ok(from_real_tsdoc_ext(&d).to_sexp()),
                Err(e) => Err(PositionedError::from(e).position().map(|p| (p.line, p.column))),
            }
        }
    });
    match r {
        Ok(Ok(s)) => Res::Ok(s),
        Ok(Err(Some((l, c)))) => Res::Err(l, c),
        Ok(Err(None)) => Res::Other("parse error without position".into()),
        Err(m) => Res::Panic(panic_class(&m)),
    }
}

pub fn model_res(ans: &Sexp) -> Res {
    match ans.head() {
        Some("ok") => Res::Ok(ans.args()[0].clone()),
        Some("err") => Res::Err(ans.args()[0].as_int().unwrap_or(-1) as usize, ans.args()[1].as_int().unwrap_or(-1) as usize),
        Some("panic") => Res::Panic(ans.args()[0].as_str().unwrap_or("").to_string()),
        _ => Res::Other(format!("model answered {}", ans.to_line())),
    }
}

pub fn request(kind: &str, text: &str) -> Sexp {
    Sexp::call("gql.parse", vec![Sexp::atom(kind), Sexp::str(text)])
}

