//! Every WAY OF WRITING a character inside a normal `"…"` string literal (GraphQL spec §2.9.4): the character itself, a
//! simple escape (`\" \\ \/ \b \f \n \r \t`), `\uXXXX`, `\u{X…}` (any number of leading zeros, either case of the hex
//! digits) and — for a supplementary character — a SURROGATE PAIR `\uHHHH\uLLLL` (a leading surrogate U+D800…U+DBFF
//! immediately followed by a trailing surrogate U+DC00…U+DFFF, both written as `\uXXXX`, in ONE literal).
//! The abstract value is the string; the text chooses a form per character, so O judges the real parser by the spec's
//! decode (= the string the text was written from) and K compares with the Lean parser model.
//! The second family writes literals that the specification gives NO value (a lone / misordered surrogate, a lead
//! followed by `\u{…}` or by a trailing surrogate of the NEXT literal, `\u{…}` above U+10FFFF): no expected document,
//! K compares outcome and error position, O only demands "no panic".
use nvh::gm::*;
use nvh::*;

const CHARS: &[char] = &[
    'a', 'Z', '0', ' ', 'é', 'ß', '\u{2028}', '\u{feff}', '"', '\\', '/', '\u{8}', '\u{c}', '\n', '\r', '\t', '\u{1}', '\u{7f}',
    '\u{d7ff}', '\u{e000}', '\u{ffff}', '\u{10000}', '\u{1F600}', '\u{1F4A9}', '\u{10FFFF}', '\u{2F800}', 'u', '{', '}', 'D', '8',
];

fn hex(rng: &mut Rng, n: u32, width: usize) -> String {
    let s = format!("{:0width$X}", n, width = width);
    s.chars().map(|c| if rng.coin() { c.to_ascii_lowercase() } else { c }).collect()
}

fn simple(c: char) -> Option<&'static str> {
    Some(match c {
        '"' => "\\\"",
        '\\' => "\\\\",
        '/' => "\\/",
        '\u{8}' => "\\b",
        '\u{c}' => "\\f",
        '\n' => "\\n",
        '\r' => "\\r",
        '\t' => "\\t",
        _ => return None,
    })
}

/// one character in a randomly chosen legal form; the feature names the form
fn write_char(rng: &mut Rng, c: char, out: &mut String, feats: &mut Vec<String>) {
    let n = c as u32;
    let plain_ok = c != '"' && c != '\\' && c != '\n' && c != '\r';
    loop {
        match rng.below(5) {
            0 if plain_ok => {
                out.push(c);
                feats.push("form:plain".into());
            }
            1 if simple(c).is_some() => {
                out.push_str(simple(c).unwrap());
                feats.push("form:simple-escape".into());
            }
            2 if n <= 0xFFFF => {
                out.push_str(&format!("\\u{}", hex(rng, n, 4)));
                feats.push("form:u4".into());
            }
            3 => {
                let width = [1, 4, 6, 8, 11][rng.below(5)];
                out.push_str(&format!("\\u{{{}}}", hex(rng, n, width)));
                feats.push("form:u-brace".into());
            }
            4 if n >= 0x10000 => {
                let v = n - 0x10000;
                out.push_str(&format!("\\u{}\\u{}", hex(rng, 0xD800 + (v >> 10), 4), hex(rng, 0xDC00 + (v & 0x3FF), 4)));
                feats.push("form:surrogate-pair".into());
            }
            _ => continue,
        }
        return;
    }
}

pub struct EscCase {
    pub kind: &'static str,
    pub text: String,
    pub expect: Option<Sexp>,
    pub label: &'static str,
    pub features: Vec<String>,
}

fn op_doc(values: Vec<String>) -> Doc {
    // `query { f(a: "…") g(b: "…") }` — positions are filled in by the caller (first argument only) or stripped
    let names = ["f", "g", "h"];
    let args = ["a", "b", "c"];
    Doc {
        defs: vec![ExecDef::Op(OpDef {
            kind: OpKind::Query,
            name: None,
            vars: vec![],
            dirs: vec![],
            pos: P::default(),
            shorthand: false,
            sel: values
                .into_iter()
                .enumerate()
                .map(|(i, v)| Sel::Field {
                    alias: None,
                    name: names[i].into(),
                    name_pos: P::default(),
                    args: vec![Arg::new(args[i], Val::Str(v, P::default()))],
                    dirs: vec![],
                    sel: None,
                })
                .collect(),
        })],
    }
}

/// valid literals: every character of a random string in a random form
pub fn valid_cases(rng: &mut Rng, n: usize) -> Vec<EscCase> {
    let mut out = vec![];
    for i in 0..n {
        let len = 1 + rng.below(6);
        let mut s = String::new();
        let mut lit = String::new();
        let mut feats = vec![];
        for _ in 0..len {
            // every fourth case is made of supplementary characters only (pairs next to pairs)
            let c = if i % 4 == 0 { ['\u{1F600}', '\u{10000}', '\u{10FFFF}', '\u{1F4A9}'][rng.below(4)] } else { CHARS[rng.below(CHARS.len())] };
            s.push(c);
            write_char(rng, c, &mut lit, &mut feats);
        }
        feats.sort();
        feats.dedup();
        if rng.chance(2, 3) {
            let text = format!("query {{ f(a: \"{lit}\") }}");
            out.push(EscCase { kind: "op", text, expect: Some(strip_pos(&op_doc(vec![s]).to_sexp())), label: "escape-forms:value", features: feats });
        } else {
            let text = format!("\"{lit}\"\ntype T {{ f: Int }}");
            let mut t = TypeDef::new(TypeKind::Object, "T");
            t.desc = Some(s);
            t.fields = vec![FieldDef { desc: None, name: "f".into(), pos: P::default(), args: vec![], ty: Ty::named("Int"), dirs: vec![] }];
            let exp = TsDoc { items: vec![TsItem::TypeDef(t)] };
            out.push(EscCase { kind: "ts", text, expect: Some(strip_pos(&exp.to_sexp())), label: "escape-forms:description", features: feats });
        }
    }
    out
}

const LEADS: &[&str] = &["\\uD800", "\\uD83D", "\\uDBFF", "\\ud83d"];
const TRAILS: &[&str] = &["\\uDC00", "\\uDE00", "\\uDFFF", "\\ude00"];
const OTHERS: &[&str] = &["x", "\\n", "\\u0041", "\\u{41}", "\\u{DE00}", "\\u{1F600}", "\\\\", "é", "\\u{110000}", "\\uFFFF"];

/// literals without a value (and, mixed in, well-formed neighbours): the verdict and the error position are K's business
pub fn invalid_cases(rng: &mut Rng, n: usize) -> Vec<EscCase> {
    let mut out = vec![];
    for _ in 0..n {
        let mut lits: Vec<String> = vec![];
        let k = 1 + rng.below(3);
        for _ in 0..k {
            let mut lit = String::new();
            for _ in 0..(1 + rng.below(4)) {
                match rng.below(4) {
                    0 => lit.push_str(LEADS[rng.below(LEADS.len())]),
                    1 => lit.push_str(TRAILS[rng.below(TRAILS.len())]),
                    2 => {
                        lit.push_str(LEADS[rng.below(LEADS.len())]);
                        lit.push_str(TRAILS[rng.below(TRAILS.len())]);
                    }
                    _ => lit.push_str(OTHERS[rng.below(OTHERS.len())]),
                }
            }
            lits.push(lit);
        }
        let names = ["f", "g", "h"];
        let args = ["a", "b", "c"];
        let body: Vec<String> = lits.iter().enumerate().map(|(i, l)| format!("{}({}: \"{}\")", names[i], args[i], l)).collect();
        let text = format!("query {{ {} }}", body.join(" "));
        out.push(EscCase { kind: "op", text, expect: None, label: "escape-forms:surrogate-mix", features: vec!["form:surrogate-mix".into()] });
    }
    out
}
