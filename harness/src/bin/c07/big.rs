//! Large documents (100 KB … several MB) "within ordinary limits": many definitions, wide definitions (thousands of
//! fields / enum values / union members / arguments), long selection sets, deeply nested selection sets and values,
//! big descriptions and big string / list / object values. Every document is an abstract `gm` document rendered by
//! the shared renderer (canonical or with random legal trivia), so the text comes with the document it denotes and
//! the true token positions; `bounds[i]` is the byte offset just after definition `i`, so that every prefix of
//! definitions is again a rendered document with the same expected positions (used to minimise failing cases).
use nvh::gen::*;
use nvh::gm::*;
use nvh::render::*;
use nvh::*;

#[derive(Clone, Debug)]
pub struct Big {
    pub kind: &'static str,
    pub shape: &'static str,
    pub text: String,
    pub bounds: Vec<usize>,
    /// the denoted document with the renderer's positions
    pub expect: Sexp,
    pub features: Vec<String>,
}

impl Big {
    pub fn defs(&self) -> usize {
        self.bounds.len()
    }
}

/// no generated document may be larger than this (a generator bug must not eat the machine's memory)
pub const MAX_BYTES: usize = 12_000_000;

pub enum Model {
    Op(Doc),
    Ts(TsDoc),
}

pub struct BigStyle {
    pub noisy: bool,
    pub block_desc: bool,
    pub crlf: bool,
    pub bom: bool,
}

pub fn render_big(shape: &'static str, model: Model, st: &BigStyle, rng: &mut Rng) -> Big {
    let style = Style { trivia: st.noisy, block_desc: st.block_desc, exotic_newlines: st.crlf && st.noisy, unicode_comments: st.noisy };
    let mut e = Emitter::new(style, rng.fork());
    if st.bom {
        e.bom();
    }
    let mut bounds = vec![];
    let mut features: Vec<String> = vec![format!("large:{shape}"), if st.noisy { "render:noisy".into() } else { "render:canonical".into() }];
    let (kind, expect) = match model {
        Model::Op(mut d) => {
            for x in d.defs.iter_mut() {
                r_execdef(&mut e, x);
                bounds.push(e.out.len());
            }
            ("op", d.to_sexp())
        }
        Model::Ts(mut d) => {
            for x in d.items.iter_mut() {
                let lead = rng.chance(1, 4);
                r_tsitem(&mut e, x, lead);
                bounds.push(e.out.len());
            }
            ("ts", d.to_sexp())
        }
    };
    let (text, feats) = e.finish();
    features.extend(feats.iter().map(|s| s.to_string()));
    assert!(text.len() <= MAX_BYTES, "large-document generator produced {} bytes", text.len());
    Big { kind, shape, text, bounds, expect, features }
}

// ------------------------------------------------------------------------------------------------
// vocabulary

const WORDS: [&str; 24] = [
    "user", "post", "comment", "the", "of", "a", "list", "returns", "id", "when", "null", "edge", "node", "cursor", "é", "😀", "naïve", "#hash", "{brace}",
    "(paren)", "$var", "@dir", "on", "query",
];
const HOSTILE: [&str; 8] = ["\"", "\\", "\n", "\t", "\"\"", "\\n", "\u{2028}", "`*/`"];

/// prose of about `bytes` bytes; `hostile` mixes in quotes, backslashes, line breaks (rendered as escapes)
pub fn prose(rng: &mut Rng, bytes: usize, hostile: bool) -> String {
    let mut s = String::with_capacity(bytes + 16);
    while s.len() < bytes {
        if !s.is_empty() {
            s.push(' ');
        }
        if hostile && rng.chance(1, 12) {
            s.push_str(HOSTILE[rng.below(HOSTILE.len())]);
        } else {
            s.push_str(WORDS[rng.below(WORDS.len())]);
        }
    }
    s.push_str(" end");
    s
}

fn ident(rng: &mut Rng, prefix: &str, k: usize) -> String {
    match rng.below(6) {
        0 => format!("_{prefix}{k}"),
        1 => format!("{prefix}_{k}_x"),
        2 => format!("{}{k}", ["on", "type", "query", "true", "null", "fragment"][rng.below(6)]),
        _ => format!("{prefix}{k}"),
    }
}

fn some_type(rng: &mut Rng, depth: usize) -> Ty {
    let base = Ty::named(["Int", "String", "Boolean", "ID", "Float", "User", "Post_2", "on"][rng.below(8)]);
    let mut t = base;
    for _ in 0..depth {
        if rng.chance(2, 3) {
            t = Ty::non_null(t);
        }
        t = Ty::list(t);
    }
    if rng.coin() {
        t = Ty::non_null(t);
    }
    t
}

/// a value nested `depth` deep with about `width` entries per level
pub fn some_value(rng: &mut Rng, depth: usize, width: usize, vars: bool) -> Val {
    let p = P::default();
    if depth == 0 {
        return match rng.below(if vars { 9 } else { 8 }) {
            0 => Val::Int(format!("{}", rng.range(-99999, 99999)), p),
            1 => Val::Float(["1.5", "-0.0", "1e10", "6.02E+23", "3.14e-2", "0.1"][rng.below(6)].to_string(), p),
            2 => Val::Str({ let n = 3 + rng.below(20); prose(rng, n, true) }, p),
            3 => Val::Bool(rng.coin(), p),
            4 => Val::Null(p),
            5 => Val::Enum(["RED", "on", "fragment", "_x", "nullable", "trueish"][rng.below(6)].to_string(), p),
            6 => Val::List(vec![], p),
            7 => Val::Obj(vec![], p),
            _ => Val::Var(format!("v{}", rng.below(5)), p),
        };
    }
    // one element carries the nesting, the others are leaves: size is O(depth × width)
    let w = width.max(1);
    let deep_at = rng.below(w);
    if rng.coin() {
        Val::List((0..w).map(|k| if k == deep_at { let w2 = 1 + rng.below(3); some_value(rng, depth - 1, w2, vars) } else { some_value(rng, 0, 1, vars) }).collect(), p)
    } else {
        Val::Obj((0..w).map(|k| Arg::new(&ident(rng, "k", k), if k == deep_at { let w2 = 1 + rng.below(3); some_value(rng, depth - 1, w2, vars) } else { some_value(rng, 0, 1, vars) })).collect(), p)
    }
}

fn some_value_upto(rng: &mut Rng, d: usize, width: usize, vars: bool) -> Val {
    let d = rng.below(d);
    some_value(rng, d, width, vars)
}

fn some_type_upto(rng: &mut Rng, d: usize) -> Ty {
    let d = rng.below(d);
    some_type(rng, d)
}

fn some_dirs(rng: &mut Rng, vars: bool) -> Vec<Dir> {
    let n = if rng.chance(1, 3) { 1 + rng.below(2) } else { 0 };
    (0..n)
        .map(|k| {
            let args = if rng.coin() { vec![Arg::new(["if", "reason", "a"][rng.below(3)], some_value_upto(rng, 2, 2, vars))] } else { vec![] };
            Dir::new(&ident(rng, "d", k), args)
        })
        .collect()
}

fn some_desc(rng: &mut Rng, one_in: u32, bytes: usize, hostile: bool) -> Option<String> {
    if rng.chance(1, one_in) {
        Some(prose(rng, bytes, hostile))
    } else {
        None
    }
}

fn ivdef(rng: &mut Rng, k: usize, desc_bytes: usize) -> InputValueDef {
    InputValueDef {
        desc: some_desc(rng, 4, desc_bytes, true),
        name: ident(rng, "arg", k),
        pos: P::default(),
        ty: some_type_upto(rng, 3),
        default: if rng.chance(1, 3) { Some(some_value_upto(rng, 3, 2, false)) } else { None },
        dirs: some_dirs(rng, false),
    }
}

fn fdef(rng: &mut Rng, k: usize, desc_bytes: usize, max_args: usize) -> FieldDef {
    let na = if rng.chance(1, 3) { 1 + rng.below(max_args.max(1)) } else { 0 };
    FieldDef {
        desc: some_desc(rng, 4, desc_bytes, true),
        name: ident(rng, "field", k),
        pos: P::default(),
        args: (0..na).map(|j| ivdef(rng, j, desc_bytes)).collect(),
        ty: some_type_upto(rng, 3),
        dirs: some_dirs(rng, false),
    }
}

// ------------------------------------------------------------------------------------------------
// type-system shapes

/// the items of many generated schemas (as generated or split into extensions), renamed apart
pub fn ts_many_definitions(rng: &mut Rng, target: usize) -> Model {
    let mut items = vec![];
    let mut size = 0;
    let mut round = 0;
    while size < target {
        let cfg = GenCfg { hostile_text: round % 3 == 0, descriptions: true, max_depth: 2 + rng.below(3), ..GenCfg::default() };
        let schema = gen_schema(rng, &cfg);
        let doc = if rng.chance(1, 3) { split_into_extensions(rng, &schema) } else { schema.doc.clone() };
        size += tsdoc_text(&doc).len();
        for mut it in doc.items {
            match &mut it {
                TsItem::TypeDef(t) | TsItem::TypeExt(t) => t.name = format!("{}_{round}", t.name),
                TsItem::DirectiveDef(d) => d.name = format!("{}_{round}", d.name),
                _ => {}
            }
            items.push(it);
        }
        round += 1;
    }
    Model::Ts(TsDoc { items })
}

/// few definitions, each very wide
pub fn ts_wide_definitions(rng: &mut Rng, target: usize) -> Model {
    let mut items = vec![];
    let per = (target / 6).max(2000);
    // ≈ 45 bytes per field, 12 per enum value, 10 per union member, 40 per input field
    let mut obj = TypeDef::new(TypeKind::Object, "WideObject");
    obj.desc = some_desc(rng, 2, 60, true);
    obj.implements = (0..1 + rng.below(40)).map(|k| (ident(rng, "Iface", k), P::default())).collect();
    obj.fields = (0..per / 45).map(|k| fdef(rng, k, 30, 3)).collect();
    items.push(TsItem::TypeDef(obj));
    let mut en = TypeDef::new(TypeKind::Enum, "WideEnum");
    en.values = (0..per / 12).map(|k| EnumValueDef { desc: some_desc(rng, 8, 20, true), name: ident(rng, "VALUE", k), pos: P::default(), dirs: some_dirs(rng, false) }).collect();
    items.push(TsItem::TypeDef(en));
    let mut un = TypeDef::new(TypeKind::Union, "WideUnion");
    un.members = (0..per / 10).map(|k| (ident(rng, "Member", k), P::default())).collect();
    items.push(TsItem::TypeDef(un));
    let mut inp = TypeDef::new(TypeKind::Input, "WideInput");
    inp.inputs = (0..per / 40).map(|k| ivdef(rng, k, 30)).collect();
    items.push(TsItem::TypeDef(inp));
    let mut ifc = TypeDef::new(if rng.coin() { TypeKind::Interface } else { TypeKind::Object }, "WideArgs");
    ifc.fields = vec![FieldDef { desc: None, name: "manyArgs".into(), pos: P::default(), args: (0..per / 40).map(|k| ivdef(rng, k, 30)).collect(), ty: some_type(rng, 1), dirs: vec![] }];
    items.push(if rng.coin() { TsItem::TypeExt(ifc) } else { TsItem::TypeDef(ifc) });
    let locs = ["QUERY", "MUTATION", "SUBSCRIPTION", "FIELD", "FRAGMENT_DEFINITION", "FRAGMENT_SPREAD", "INLINE_FRAGMENT", "VARIABLE_DEFINITION", "SCHEMA", "SCALAR", "OBJECT", "FIELD_DEFINITION", "ARGUMENT_DEFINITION", "INTERFACE", "UNION", "ENUM", "ENUM_VALUE", "INPUT_OBJECT", "INPUT_FIELD_DEFINITION"];
    items.push(TsItem::DirectiveDef(DirectiveDef {
        desc: some_desc(rng, 2, 40, true),
        name: "wide".into(),
        name_pos: P::default(),
        args: (0..per / 40).map(|k| ivdef(rng, k, 30)).collect(),
        repeatable: rng.coin(),
        locations: (0..1 + rng.below(60)).map(|_| locs[rng.below(locs.len())].to_string()).collect(),
        pos: P::default(),
    }));
    let mut sc = TypeDef::new(TypeKind::Scalar, "ManyDirectives");
    sc.dirs = (0..200 + rng.below(400)).map(|k| Dir::new(&ident(rng, "d", k), if rng.coin() { vec![Arg::new("a", some_value(rng, 1, 2, false))] } else { vec![] })).collect();
    items.push(TsItem::TypeDef(sc));
    rng.shuffle(&mut items);
    Model::Ts(TsDoc { items })
}

/// ordinary definitions whose descriptions are long texts
pub fn ts_big_descriptions(rng: &mut Rng, target: usize) -> Model {
    let n = 6 + rng.below(10);
    let per = target / n;
    let mut items = vec![];
    for k in 0..n {
        let hostile = rng.coin();
        // one huge description or several large ones
        let mut t = TypeDef::new([TypeKind::Object, TypeKind::Interface, TypeKind::Enum, TypeKind::Input, TypeKind::Scalar, TypeKind::Union][rng.below(6)], &format!("Described{k}"));
        let split = 1 + rng.below(5);
        t.desc = Some(prose(rng, per / split, hostile));
        match t.kind {
            TypeKind::Object | TypeKind::Interface => {
                t.fields = (0..split).map(|j| {
                    let mut f = fdef(rng, j, 20, 2);
                    f.desc = Some(prose(rng, per / split / 2, hostile));
                    for a in f.args.iter_mut() {
                        a.desc = Some(prose(rng, per / split / 4, hostile));
                    }
                    f
                }).collect()
            }
            TypeKind::Enum => t.values = (0..split).map(|j| EnumValueDef { desc: Some(prose(rng, per / split, hostile)), name: format!("V{j}"), pos: P::default(), dirs: vec![] }).collect(),
            TypeKind::Input => {
                t.inputs = (0..split).map(|j| {
                    let mut a = ivdef(rng, j, 20);
                    a.desc = Some(prose(rng, per / split, hostile));
                    a
                }).collect()
            }
            TypeKind::Union => t.members = vec![("A".into(), P::default()), ("B".into(), P::default())],
            TypeKind::Scalar => {}
        }
        items.push(TsItem::TypeDef(t));
    }
    if rng.coin() {
        items.push(TsItem::SchemaDef(SchemaDef { desc: Some(prose(rng, per, false)), dirs: vec![], roots: vec![(OpKind::Query, "Described0".into(), P::default())], pos: P::default() }));
    }
    Model::Ts(TsDoc { items })
}

/// types and default values nested deeply (list types carry `!` at most levels: the parser retries a list type
/// without `!` twice per level — observation z — so unmarked nesting stays shallow)
pub fn ts_deep(rng: &mut Rng, target: usize, depth: usize) -> Model {
    let mut items = vec![];
    let mut size = 0;
    let mut k = 0;
    while size < target {
        let mut t = TypeDef::new(TypeKind::Input, &format!("Deep{k}"));
        let d = 2 + rng.below(depth.max(3) - 1);
        let mut ty = Ty::named("Int");
        for lvl in 0..d {
            // leave at most the 6 innermost levels unmarked
            if lvl >= 6 || rng.coin() {
                ty = Ty::non_null(ty);
            }
            ty = Ty::list(ty);
        }
        let v = some_value(rng, d, 2, false);
        t.inputs = vec![InputValueDef { desc: None, name: "deep".into(), pos: P::default(), ty, default: Some(v), dirs: vec![Dir::new("d", vec![Arg::new("a", some_value(rng, d, 1, false))])] }];
        let it = TsItem::TypeDef(t);
        size += tsdoc_text(&TsDoc { items: vec![it.clone()] }).len();
        items.push(it);
        k += 1;
    }
    Model::Ts(TsDoc { items })
}

// ------------------------------------------------------------------------------------------------
// operation shapes

/// many generated operation documents (operations, fragments, `#import` lines), renamed apart
pub fn op_many_definitions(rng: &mut Rng, target: usize) -> Model {
    let mut defs = vec![];
    let mut size = 0;
    let mut round = 0;
    while size < target {
        let cfg = GenCfg { hostile_text: round % 3 == 0, max_depth: 2 + rng.below(3), ..GenCfg::default() };
        let schema = gen_schema(rng, &cfg);
        for _ in 0..4 {
            let (doc, _) = gen_doc(rng, &schema, &cfg);
            size += doc_text(&doc).len();
            let anonymous = doc.defs.iter().any(|d| matches!(d, ExecDef::Op(o) if o.name.is_none()));
            for mut d in doc.defs {
                match &mut d {
                    ExecDef::Op(o) => {
                        if let Some((n, _)) = &mut o.name {
                            *n = format!("{n}_{round}");
                        }
                        if anonymous && o.name.is_none() && o.vars.is_empty() && o.dirs.is_empty() && o.kind == OpKind::Query && rng.coin() {
                            o.shorthand = true;
                        }
                    }
                    ExecDef::Frag(f) => f.name = format!("{}_{round}", f.name),
                    ExecDef::Import(_) => {}
                }
                defs.push(d);
            }
            if rng.chance(1, 3) {
                let at = rng.below(defs.len() + 1);
                defs.insert(at, ExecDef::Import(ImportDef { targets: vec![Some((format!("Frag{round}"), P::default())), None], path: format!("./f{round}.graphql"), pos: P::default() }));
            }
            round += 1;
        }
    }
    Model::Op(Doc { defs })
}

fn wide_field(rng: &mut Rng, k: usize) -> Sel {
    match rng.below(10) {
        0 => Sel::Spread { name: ident(rng, "Frag", k), name_pos: P::default(), dirs: some_dirs(rng, true), pos: P::default() },
        1 => Sel::Inline {
            cond: if rng.coin() { Some((ident(rng, "T", k), P::default())) } else { None },
            dirs: some_dirs(rng, true),
            sel: vec![Sel::field("id"), Sel::field("__typename")],
            pos: P::default(),
        },
        _ => Sel::Field {
            alias: if rng.coin() { Some((ident(rng, "alias", k), P::default())) } else { None },
            name: ident(rng, "field", k % 97),
            name_pos: P::default(),
            args: if rng.chance(1, 3) { (0..1 + rng.below(3)).map(|j| Arg::new(&format!("a{j}"), some_value_upto(rng, 3, 2, true))).collect() } else { vec![] },
            dirs: some_dirs(rng, true),
            sel: if rng.chance(1, 6) { Some(vec![Sel::field("id"), Sel::field(&format!("leaf{k}"))]) } else { None },
        },
    }
}

fn vardefs(rng: &mut Rng, n: usize) -> Vec<VarDef> {
    (0..n)
        .map(|k| VarDef {
            name: format!("v{k}"),
            pos: P::default(),
            ty: some_type_upto(rng, 3),
            default: if rng.chance(1, 3) { Some(some_value_upto(rng, 3, 2, false)) } else { None },
            dirs: some_dirs(rng, false),
        })
        .collect()
}

/// a few operations / fragments whose selection sets have thousands of entries
pub fn op_long_selection_sets(rng: &mut Rng, target: usize) -> Model {
    let n = 1 + rng.below(4);
    let per = target / n / 28; // ≈ 28 bytes per selection
    let mut defs = vec![];
    for k in 0..n {
        let sel: Vec<Sel> = (0..per.max(10)).map(|j| wide_field(rng, j)).collect();
        if k > 0 && rng.chance(1, 3) {
            defs.push(ExecDef::Frag(FragDef { name: format!("Wide{k}"), name_pos: P::default(), cond: "Query".into(), cond_pos: P::default(), dirs: some_dirs(rng, false), sel, pos: P::default() }));
        } else {
            let nv = rng.below(6);
            defs.push(ExecDef::Op(OpDef { kind: [OpKind::Query, OpKind::Mutation, OpKind::Subscription][rng.below(3)], name: Some((format!("Wide{k}"), P::default())), vars: vardefs(rng, nv), dirs: some_dirs(rng, true), sel, pos: P::default(), shorthand: false }));
        }
    }
    Model::Op(Doc { defs })
}

fn nested(rng: &mut Rng, depth: usize, k: &mut usize) -> Vec<Sel> {
    *k += 1;
    if depth == 0 {
        return vec![Sel::field("leaf"), Sel::field("__typename")];
    }
    let mut out = vec![];
    if rng.chance(1, 3) {
        out.push(wide_field(rng, *k));
    }
    let inner = nested(rng, depth - 1, k);
    if rng.chance(1, 4) {
        out.push(Sel::Inline { cond: if rng.coin() { Some(("Node".into(), P::default())) } else { None }, dirs: some_dirs(rng, true), sel: inner, pos: P::default() });
    } else {
        out.push(Sel::Field {
            alias: if rng.chance(1, 4) { Some((format!("n{k}"), P::default())) } else { None },
            name: ident(rng, "child", *k % 13),
            name_pos: P::default(),
            args: if rng.chance(1, 5) { vec![Arg::new("first", some_value(rng, 1, 2, true))] } else { vec![] },
            dirs: some_dirs(rng, true),
            sel: Some(inner),
        });
    }
    if rng.chance(1, 3) {
        out.push(wide_field(rng, *k + 1000));
    }
    out
}

/// operations whose selection sets, variable types, default values and argument values are nested `depth` deep
pub fn op_deep(rng: &mut Rng, target: usize, depth: usize) -> Model {
    let mut defs = vec![];
    let mut size = 0;
    let mut k = 0;
    while size < target {
        let d = 3 + rng.below(depth.max(4) - 2);
        let mut cnt = 0;
        let mut sel = nested(rng, d, &mut cnt);
        let vd = 2 + rng.below(d.min(40));
        sel.push(Sel::Field { alias: None, name: "withDeepValue".into(), name_pos: P::default(), args: vec![Arg::new("input", some_value(rng, vd, 2, true))], dirs: vec![], sel: None });
        let nv0 = rng.below(3);
        let mut vars = vardefs(rng, nv0);
        let mut ty = Ty::named("Int");
        for lvl in 0..(2 + rng.below(d.min(24))) {
            if lvl >= 6 || rng.coin() {
                ty = Ty::non_null(ty);
            }
            ty = Ty::list(ty);
        }
        vars.push(VarDef { name: "deep".into(), pos: P::default(), ty, default: Some(some_value(rng, vd, 1, false)), dirs: vec![] });
        let def = ExecDef::Op(OpDef { kind: OpKind::Query, name: Some((format!("Deep{k}"), P::default())), vars, dirs: vec![], sel, pos: P::default(), shorthand: false });
        size += doc_text(&Doc { defs: vec![def.clone()] }).len();
        defs.push(def);
        k += 1;
    }
    Model::Op(Doc { defs })
}

/// big string / list / object values and many variables with defaults
pub fn op_big_values(rng: &mut Rng, target: usize) -> Model {
    let p = P::default();
    let per = target / 4;
    let hostile = rng.coin();
    let big_string = Val::Str(prose(rng, per, hostile), p);
    let big_list = Val::List((0..per / 6).map(|_| Val::Int(format!("{}", rng.range(-9999, 99999)), p)).collect(), p);
    let big_obj = Val::Obj((0..per / 30).map(|k| Arg::new(&ident(rng, "key", k), some_value_upto(rng, 2, 2, true))).collect(), p);
    let nv = per / 40;
    let sel = vec![
        Sel::Field { alias: None, name: "text".into(), name_pos: p, args: vec![Arg::new("s", big_string)], dirs: vec![], sel: None },
        Sel::Field { alias: Some(("l".into(), p)), name: "list".into(), name_pos: p, args: vec![Arg::new("xs", big_list)], dirs: vec![], sel: Some(vec![Sel::field("id")]) },
        Sel::Field { alias: None, name: "obj".into(), name_pos: p, args: vec![Arg::new("o", big_obj)], dirs: vec![Dir::new("include", vec![Arg::new("if", Val::Var("v0".into(), p))])], sel: None },
    ];
    let mut defs = vec![ExecDef::Op(OpDef { kind: OpKind::Query, name: Some(("BigValues".into(), p)), vars: vardefs(rng, nv.max(1)), dirs: vec![], sel, pos: p, shorthand: false })];
    if rng.coin() {
        defs.push(ExecDef::Frag(FragDef { name: "After".into(), name_pos: p, cond: "T".into(), cond_pos: p, dirs: vec![], sel: vec![Sel::field("id")], pos: p }));
    }
    Model::Op(Doc { defs })
}

pub const SHAPES: [&str; 8] = ["ts-many-definitions", "ts-wide-definitions", "ts-big-descriptions", "ts-deep", "op-many-definitions", "op-long-selection-sets", "op-deep", "op-big-values"];

/// one large document of the given shape and approximate size
pub fn gen_big(rng: &mut Rng, shape: usize, target: usize, depth: usize) -> Big {
    let model = match shape % 8 {
        0 => ts_many_definitions(rng, target),
        1 => ts_wide_definitions(rng, target),
        2 => ts_big_descriptions(rng, target),
        3 => ts_deep(rng, target, depth),
        4 => op_many_definitions(rng, target),
        5 => op_long_selection_sets(rng, target),
        6 => op_deep(rng, target, depth),
        _ => op_big_values(rng, target),
    };
    // noisy renderings are ≈ 1.6× longer than canonical ones; both are wanted
    let st = BigStyle { noisy: rng.chance(1, 3), block_desc: rng.chance(1, 3), crlf: rng.chance(1, 4), bom: rng.chance(1, 8) };
    render_big(SHAPES[shape % 8], model, &st, rng)
}
