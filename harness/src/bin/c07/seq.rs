//! Stateful sequences: parsing must be a pure function of the text — no state may be carried from one call of
//! `parse_operation_document` / `parse_type_system_document` to the next one in the same process.
//!
//! A sequence of calls (operation / type-system documents, valid / invalid, small / large) runs in ONE child
//! process (this binary, `--seq-child <job> --out <result>`); every call also runs alone in a child process of
//! its own (= fresh state). Each result is summarised as (outcome, error position / panic class, hash of the AST
//! with positions, hash of the AST without positions). O:
//!   * the summary of call j of the sequence must equal the summary of the same call in a fresh process;
//!   * the fresh result of a rendered document must be the abstract document it was rendered from.
//! A failing sequence is minimised (predecessors dropped, predecessors and the failing document cut down to a
//! prefix of their definitions) before its signature is computed.
use super::common::*;
use nvh::gm::strip_pos;
use nvh::report::fnv;
use nvh::*;
use serde_json::{json, Value};
use std::io::Write;

/// how a large text was generated: stored in replay files instead of the text itself
#[derive(Clone, Debug)]
pub struct GenParams {
    pub rng_state: u64,
    pub shape: usize,
    pub target: usize,
    pub depth: usize,
    /// only the first n definitions
    pub prefix: Option<usize>,
    /// then one token-level mutation drawn from this generator state
    pub mutate_state: Option<u64>,
}

#[derive(Clone, Debug)]
pub struct Call {
    pub kind: &'static str,
    pub text: String,
    /// the denoted document with positions, if the text was rendered from one
    pub expect: Option<Sexp>,
    /// byte offsets just after each definition of a rendered document (prefixes are documents again)
    pub bounds: Vec<usize>,
    /// e.g. "ts:large:valid:ts-wide-definitions"
    pub tag: String,
    pub gen: Option<GenParams>,
}

/// "<kind>:large:<valid|mutated>:<shape>:large-<operation|type-system>" (the last component is the failure class)
pub fn large_tag(kind: &str, valid: &str, shape: &str) -> String {
    format!("{kind}:large:{valid}:{shape}:large-{}", if kind == "ts" { "type-system" } else { "operation" })
}

/// texts longer than this are stored in replay files as generator parameters
const LITERAL_LIMIT: usize = 60_000;

impl Call {
    pub fn literal(kind: &'static str, text: String, expect: Option<Sexp>, tag: String) -> Call {
        Call { kind, text, expect, bounds: vec![], tag, gen: None }
    }
    /// a generated large document (`big::gen_big` from the given generator state)
    pub fn generated(g: GenParams, valid_tag: &str) -> Call {
        let b = super::big::gen_big(&mut Rng(g.rng_state), g.shape, g.target, g.depth);
        let mut c = Call { kind: b.kind, text: b.text, expect: Some(b.expect), bounds: b.bounds, tag: large_tag(b.kind, valid_tag, b.shape), gen: Some(GenParams { prefix: None, mutate_state: None, ..g.clone() }) };
        if let Some(n) = g.prefix {
            c = c.prefix(n);
        }
        if let Some(ms) = g.mutate_state {
            let (mt, ml) = super::mutate::mutate(&mut Rng(ms), &c.text);
            c = Call { kind: c.kind, text: mt, expect: None, bounds: vec![], tag: format!("{}:large:mutated:{ml}", c.kind), gen: Some(GenParams { mutate_state: Some(ms), ..c.gen.clone().unwrap() }) };
        }
        c
    }
    pub fn json(&self) -> Value {
        match &self.gen {
            Some(g) if self.text.len() > LITERAL_LIMIT => json!({
                "kind": self.kind, "tag": self.tag, "bytes": self.text.len(), "text_fnv": fnv(&self.text).to_string(),
                "text_head": self.text.chars().take(300).collect::<String>(),
                "gen": {"rng_state": g.rng_state.to_string(), "shape": g.shape, "target": g.target, "depth": g.depth, "prefix": g.prefix, "mutate_state": g.mutate_state.map(|m| m.to_string())},
            }),
            _ => json!({"kind": self.kind, "text": self.text, "expect": self.expect.as_ref().map(|e| e.to_line()), "bounds": self.bounds, "tag": self.tag}),
        }
    }
    pub fn from_json(v: &Value) -> Call {
        if v["gen"].is_object() {
            let g = &v["gen"];
            let num = |x: &Value| x.as_u64().map(|n| n as usize);
            let params = GenParams {
                rng_state: g["rng_state"].as_str().and_then(|s| s.parse().ok()).unwrap_or(0),
                shape: num(&g["shape"]).unwrap_or(0),
                target: num(&g["target"]).unwrap_or(100_000),
                depth: num(&g["depth"]).unwrap_or(48),
                prefix: num(&g["prefix"]),
                mutate_state: g["mutate_state"].as_str().and_then(|s| s.parse().ok()),
            };
            let valid_tag = v["tag"].as_str().and_then(|t| t.split(':').nth(2)).unwrap_or("valid").to_string();
            let c = Call::generated(params, if valid_tag == "mutated" { "valid" } else { &valid_tag });
            if v["text_fnv"].as_str() != Some(fnv(&c.text).to_string().as_str()) {
                eprintln!("c07: the generator no longer reproduces the text of this replay file (generator changed since it was written)");
            }
            return c;
        }
        Call {
            kind: if v["kind"].as_str() == Some("ts") { "ts" } else { "op" },
            text: v["text"].as_str().unwrap_or("").to_string(),
            expect: v["expect"].as_str().and_then(Sexp::parse),
            bounds: v["bounds"].as_array().map(|a| a.iter().filter_map(|x| x.as_u64().map(|n| n as usize)).collect()).unwrap_or_default(),
            tag: v["tag"].as_str().unwrap_or("").to_string(),
            gen: None,
        }
    }
    /// the first `n` definitions of a rendered document
    pub fn prefix(&self, n: usize) -> Call {
        let n = n.min(self.bounds.len());
        let end = if n == 0 { 0 } else { self.bounds[n - 1] };
        let expect = self.expect.as_ref().map(|e| Sexp::call(e.head().unwrap_or("doc"), e.args()[..n.min(e.args().len())].to_vec()));
        let gen = self.gen.as_ref().map(|g| GenParams { prefix: Some(n), ..g.clone() });
        Call { kind: self.kind, text: self.text[..end].to_string(), expect, bounds: self.bounds[..n].to_vec(), tag: self.tag.clone(), gen }
    }
}

/// what a parse call returned, small enough to pass between processes
#[derive(Clone, Debug, PartialEq)]
pub struct Summ {
    pub outcome: String,
    pub detail: String,
    pub h_full: u64,
    pub h_strip: u64,
}

impl Summ {
    pub fn of(r: &Res) -> Summ {
        match r {
            Res::Ok(s) => Summ { outcome: "ok".into(), detail: String::new(), h_full: fnv(&s.to_line()), h_strip: fnv(&strip_pos(s).to_line()) },
            Res::Err(l, c) => Summ { outcome: "syntax-error".into(), detail: format!("{l}:{c}"), h_full: 0, h_strip: 0 },
            Res::Panic(m) => Summ { outcome: "panic".into(), detail: m.clone(), h_full: 0, h_strip: 0 },
            Res::Other(m) => Summ { outcome: "other".into(), detail: m.clone(), h_full: 0, h_strip: 0 },
        }
    }
    fn crash(why: &str) -> Summ {
        Summ { outcome: if why.starts_with("timeout") { "timeout".into() } else { "crash".into() }, detail: why.into(), h_full: 0, h_strip: 0 }
    }
    pub fn show(&self) -> String {
        match self.outcome.as_str() {
            "ok" => format!("ok (document #{:016x})", self.h_full),
            "syntax-error" => format!("syntax error at {}", self.detail),
            o => format!("{o} {}", self.detail),
        }
    }
}

/// child mode: run the calls of the job file in order in THIS process, one result line per call
pub fn child_main(job: &str, out: &str) {
    quiet_panics();
    let v: Value = serde_json::from_str(&std::fs::read_to_string(job).expect("job file")).expect("job json");
    let mut f = std::fs::File::create(out).expect("result file");
    for c in v["calls"].as_array().cloned().unwrap_or_default() {
        let kind = if c["kind"].as_str() == Some("ts") { "ts" } else { "op" };
        let r = real_parse(kind, c["text"].as_str().unwrap_or(""));
        let s = Summ::of(&r);
        let mut line = json!({"outcome": s.outcome, "detail": s.detail, "h_full": s.h_full.to_string(), "h_strip": s.h_strip.to_string()});
        if c["dump"].as_bool() == Some(true) {
            if let Res::Ok(d) = &r {
                line["dump"] = json!(d.to_line());
            }
        }
        writeln!(f, "{line}").expect("write result");
        f.flush().ok();
    }
}

/// limits of one child process
const CHILD_KB: u64 = 3_000_000;
const CHILD_SECS: u64 = 60;

pub struct Runner {
    pub scratch: String,
    pub children: u64,
    n: u64,
}

impl Runner {
    pub fn new(scratch: &str) -> Runner {
        Runner { scratch: scratch.to_string(), children: 0, n: 0 }
    }

    /// run the calls in order in ONE fresh child process; `dump` = index whose parsed document is wanted back
    pub fn run_dump(&mut self, calls: &[&Call], dump: Option<usize>) -> (Vec<Summ>, Option<Sexp>) {
        self.n += 1;
        self.children += 1;
        let dir = if self.scratch.is_empty() { std::env::temp_dir() } else { std::path::PathBuf::from(&self.scratch) };
        let job = dir.join(format!("c07-seq-{}-{}.job.json", std::process::id(), self.n));
        let res = dir.join(format!("c07-seq-{}-{}.res.jsonl", std::process::id(), self.n));
        let body = json!({"calls": calls.iter().enumerate().map(|(i, c)| json!({"kind": c.kind, "text": c.text, "dump": dump == Some(i)})).collect::<Vec<_>>()});
        std::fs::write(&job, serde_json::to_string(&body).unwrap()).expect("write job");
        let _ = std::fs::remove_file(&res);
        let exe = std::env::current_exe().expect("current exe");
        // the child gets an address-space limit and a time limit: a runaway parse must not take the machine down
        let spawned = std::process::Command::new("sh")
            .arg("-c").arg(format!("ulimit -v {CHILD_KB}; exec \"$0\" \"$@\""))
            .arg(&exe).arg("--seq-child").arg(&job).arg("--out").arg(&res)
            .stdin(std::process::Stdio::null()).stdout(std::process::Stdio::null()).stderr(std::process::Stdio::null())
            .spawn();
        let why = match spawned {
            Err(e) => format!("child process not started ({e})"),
            Ok(mut child) => {
                let t0 = std::time::Instant::now();
                loop {
                    match child.try_wait() {
                        Ok(Some(st)) if st.success() => break "child ended early".to_string(),
                        Ok(Some(st)) => break format!("child process died ({st})"),
                        Ok(None) if t0.elapsed().as_secs() >= CHILD_SECS => {
                            let _ = child.kill();
                            let _ = child.wait();
                            break format!("timeout: no answer within {CHILD_SECS} s");
                        }
                        Ok(None) => std::thread::sleep(std::time::Duration::from_millis(1)),
                        Err(e) => break format!("wait failed ({e})"),
                    }
                }
            }
        };
        let text = std::fs::read_to_string(&res).unwrap_or_default();
        let mut out = vec![];
        let mut dumped = None;
        for (i, l) in text.lines().enumerate() {
            if let Ok(v) = serde_json::from_str::<Value>(l) {
                out.push(Summ {
                    outcome: v["outcome"].as_str().unwrap_or("other").to_string(),
                    detail: v["detail"].as_str().unwrap_or("").to_string(),
                    h_full: v["h_full"].as_str().and_then(|s| s.parse().ok()).unwrap_or(0),
                    h_strip: v["h_strip"].as_str().and_then(|s| s.parse().ok()).unwrap_or(0),
                });
                if dump == Some(i) {
                    dumped = v["dump"].as_str().and_then(Sexp::parse);
                }
            }
        }
        while out.len() < calls.len() {
            // the first missing answer is the call that killed the process; later ones never ran
            out.push(Summ::crash(&why));
        }
        let _ = std::fs::remove_file(&job);
        let _ = std::fs::remove_file(&res);
        (out, dumped)
    }

    pub fn run(&mut self, calls: &[&Call]) -> Vec<Summ> {
        self.run_dump(calls, None).0
    }

    pub fn fresh(&mut self, c: &Call) -> Summ {
        self.run(&[c]).pop().unwrap()
    }
}

fn kinds_of(preds: &[Call]) -> String {
    let mut ks: Vec<&str> = preds.iter().map(|c| c.kind).collect();
    ks.sort();
    ks.dedup();
    ks.join("+")
}

/// stable class of "call `last` after `preds` differs from the same call in a fresh process"
pub fn state_signature(preds: &[Call], last: &Call, fresh: &Summ, seq: &Summ) -> String {
    let change = if fresh.outcome != seq.outcome {
        format!("{}-became-{}", fresh.outcome, seq.outcome)
    } else if fresh.outcome == "ok" && fresh.h_strip == seq.h_strip {
        "positions-differ".to_string()
    } else if fresh.outcome == "ok" {
        "document-differs".to_string()
    } else {
        format!("{}-differs", fresh.outcome)
    };
    format!("stateful:{}-after-{}:{change}", last.kind, kinds_of(preds))
}

/// does `last` after `preds` (one process) differ from `last` alone (fresh process)?
pub fn differs(run: &mut Runner, preds: &[Call], last: &Call) -> Option<(Summ, Summ)> {
    let fresh = run.fresh(last);
    let mut all: Vec<&Call> = preds.iter().collect();
    all.push(last);
    let seq = run.run(&all).pop().unwrap();
    if fresh != seq {
        Some((fresh, seq))
    } else {
        None
    }
}

/// minimise a sequence whose last call differs from its fresh run: drop predecessors, cut predecessors and the
/// last document down to prefixes of their definitions
pub fn minimise(run: &mut Runner, preds: Vec<Call>, last: Call) -> (Vec<Call>, Call) {
    let mut preds = preds;
    let mut last = last;
    // a single predecessor is the common case: try each one alone first (latest first)
    let mut single = None;
    for k in (0..preds.len()).rev().take(6) {
        if differs(run, &preds[k..k + 1], &last).is_some() {
            single = Some(k);
            break;
        }
    }
    if let Some(k) = single {
        preds = vec![preds[k].clone()];
    } else {
        let mut k = preds.len();
        while k > 0 && preds.len() > 1 {
            k -= 1;
            let mut trial = preds.clone();
            trial.remove(k);
            if differs(run, &trial, &last).is_some() {
                preds = trial;
            }
        }
    }
    // smaller predecessors
    for k in 0..preds.len() {
        if preds[k].bounds.len() > 1 {
            let mut trial = preds.clone();
            trial[k] = preds[k].prefix(1);
            if differs(run, &trial, &last).is_some() {
                preds = trial;
            }
        }
    }
    // smallest prefix of the last document that still behaves differently (bisection; assumes monotonicity)
    if last.bounds.len() > 1 {
        let (mut lo, mut hi) = (0usize, last.bounds.len()); // prefix(hi) differs; prefix(lo) is assumed not to
        while hi - lo > 1 {
            let mid = (lo + hi) / 2;
            if differs(run, &preds, &last.prefix(mid)).is_some() {
                hi = mid;
            } else {
                lo = mid;
            }
        }
        if hi < last.bounds.len() {
            last = last.prefix(hi);
        }
    }
    (preds, last)
}

pub fn seq_case(preds: &[Call], last: &Call, label: &str) -> Value {
    let mut calls: Vec<Value> = preds.iter().map(|c| c.json()).collect();
    calls.push(last.json());
    json!({"kind": "seq", "label": label, "calls": calls})
}

fn clip(s: &str) -> String {
    if s.chars().count() > 160 { format!("{}… ({} bytes)", s.chars().take(160).collect::<String>(), s.len()) } else { s.to_string() }
}

/// report "`last` after `preds` ≠ `last` alone" (already minimal)
pub fn report_state(rep: &mut Report, preds: &[Call], last: &Call, fresh: &Summ, seq: &Summ, label: &str) {
    let sig = state_signature(preds, last, fresh, seq);
    let what = format!(
        "parsing is not a function of the text: the {} document {:?} gives [{}] in a fresh process but [{}] in a process that has parsed {} before",
        last.kind, clip(&last.text), fresh.show(), seq.show(),
        preds.iter().map(|p| format!("the {} document {:?}", p.kind, clip(&p.text))).collect::<Vec<_>>().join(", then ")
    );
    rep.fail("O", &sig, &what, seq_case(preds, last, label));
}

/// O for one call judged against the document it denotes, given only its summary; `Some((signature, what))`
pub fn judge_expect(run: &mut Runner, c: &Call, s: &Summ) -> Option<(String, String)> {
    let exp = c.expect.as_ref()?;
    let class = c.tag.split(':').last().unwrap_or("document").to_string();
    match s.outcome.as_str() {
        "ok" => {
            if s.h_full == fnv(&exp.to_line()) {
                return None;
            }
            // fetch the parsed document to name the first definition that differs
            let (_, got) = run.run_dump(&[c], Some(0));
            let structure = s.h_strip != fnv(&strip_pos(exp).to_line());
            let what = match &got {
                Some(g) if structure => super::first_diff(&strip_pos(exp), &strip_pos(g)),
                Some(g) => super::first_diff(exp, g),
                None => "unknown".into(),
            };
            if structure {
                Some((format!("structure:{what}"), format!("{:?} parses to a different document than it denotes (first differing definition: {what})", clip(&c.text))))
            } else {
                Some((format!("positions:{what}"), format!("{:?}: a reported position is not the token start (first differing definition: {what})", clip(&c.text))))
            }
        }
        "syntax-error" => Some((format!("syntax-error:{class}"), format!("valid text {:?} is rejected with a syntax error at {}", clip(&c.text), s.detail))),
        "panic" => Some((format!("panic:{}", s.detail), format!("valid text {:?} makes the parser panic: {}", clip(&c.text), s.detail))),
        "timeout" => Some((format!("timeout:{class}"), format!("valid text {:?} is not parsed: {}", clip(&c.text), s.detail))),
        "crash" => Some((format!("crash:{class}"), format!("valid text {:?} kills the process: {}", clip(&c.text), s.detail))),
        _ => Some(("other".into(), format!("{:?}: {}", clip(&c.text), s.detail))),
    }
}

/// smallest prefix of definitions of `c` that is still judged wrong in a fresh process (bisection)
pub fn minimise_single(run: &mut Runner, c: &Call, sig: &str) -> Call {
    if c.bounds.len() <= 1 {
        return c.clone();
    }
    let (mut lo, mut hi) = (0usize, c.bounds.len());
    while hi - lo > 1 {
        let mid = (lo + hi) / 2;
        let t = c.prefix(mid);
        let s = run.fresh(&t);
        let same_class = judge_expect(run, &t, &s).map_or(false, |(g, _)| g == sig);
        if same_class {
            hi = mid;
        } else {
            lo = mid;
        }
    }
    c.prefix(hi)
}

/// Replay / check of a whole sequence: every call against its fresh run and against its denoted document.
/// Returns the number of judged calls. With `minimal` the sequence is reported as it is (replay).
pub fn check_sequence(rep: &mut Report, run: &mut Runner, calls: &[&Call], fresh: &[&Summ], label: &str, minimal: bool, budget: &mut usize) -> u64 {
    let got = run.run(calls);
    let mut judged = 0;
    for j in 0..calls.len() {
        judged += 1;
        rep.count(&format!("sequence-call:{}", calls[j].tag.split(':').take(3).collect::<Vec<_>>().join(":")));
        if got[j] == *fresh[j] {
            continue;
        }
        let preds: Vec<Call> = calls[..j].iter().map(|c| (*c).clone()).collect();
        if minimal || *budget == 0 {
            report_state(rep, &preds, calls[j], fresh[j], &got[j], label);
        } else {
            *budget -= 1;
            let (p, l) = minimise(run, preds.clone(), calls[j].clone());
            match differs(run, &p, &l) {
                Some((f, s)) => report_state(rep, &p, &l, &f, &s, label),
                None => report_state(rep, &preds, calls[j], fresh[j], &got[j], label),
            }
        }
        // later calls of this sequence ran in a process that is already off the rails
        break;
    }
    judged
}
