//! K stream `composed:*` — the COMPOSED Lean model (`Lemmas/CliComposed.lean`: `stagesOf` = the CLI-driver model fed by the
//! stage MODELS `ExtResolve.resolve`, `CheckTs.checkSchema`, `Imports.resolveExt` / `resolve`, `CheckOp.checkOp`) against the
//! REAL built binary on whole projects.
//!
//! The two parsers are the abstract parameter of the composition (`Env.parseTs` / `parseOp`): every schema / operation file
//! of the project is parsed here with the REAL parser (file index set the way `run_cli_impl` sets it) and the AST — or the
//! parse error — is sent through the shared `Gql/Codec.lean` wire format.  Everything after the parsers is computed by the
//! Lean model alone: merge + built-ins, extension resolution, schema check, `#import` extension / import resolution over
//! the map of all files, operation check of own + imported definitions, `check_impl`'s masking, the command loop and the
//! generate gating.  Its answer (exit code, command error, ordered diagnostics with kind / file index / line / column,
//! files listed, files written) is compared with what the binary did in the `--output-format json` run of the same
//! project (exit status, parsed stdout, directory snapshot).
//!
//! Message texts are not modelled by the checker models: a diagnostic of the model carries the VARIANT NAME of
//! `CheckErrorMessage`; it is compared with the binary's message through the message-class table
//! (variant name → message with every quoted part and number blanked), learned from the diagnostics of the real library
//! stages run in-process (the table the C03 CLI leg uses, in the other direction, because two variants share one text).
//! The six resolver errors (`resolve_schema_extensions`, `resolve_operation_extensions`, `resolve_operation_imports`) carry
//! all fields of their message in the model, so the driver writes the message and it is compared text for text; parse
//! errors carry the tag the harness sent, i.e. the text is compared as well.
use super::{classify_error, decl_path, field, io_of, mode_ext, nat, out_path, s_bit, Case};
use nitrogql_ast::operation_ext::ExecutableDefinitionExt;
use nitrogql_ast::set_current_file_of_pos;
use nitrogql_error::PositionedError;
use nitrogql_parser::{parse_operation_document, parse_type_system_document};
use nvh::gm;
use nvh::*;
use serde_json::Value;
use std::collections::{BTreeMap, BTreeSet};
use std::path::Path;

/// variant name of `CheckErrorMessage` → message classes seen for it
#[derive(Default)]
pub struct Classes(pub BTreeMap<String, BTreeSet<String>>);

/// message class: the message with every quoted part and every number blanked (as `opcheck::imports::message_template`)
pub fn message_template(m: &str) -> String {
    let mut out = String::new();
    let mut in_quote = false;
    for c in m.chars() {
        if c == '\'' {
            in_quote = !in_quote;
            out.push(c);
        } else if in_quote {
        } else if c.is_ascii_digit() {
            if !out.ends_with('#') {
                out.push('#');
            }
        } else {
            out.push(c);
        }
    }
    out
}

impl Classes {
    pub fn learn(&mut self, kinds: &[(String, String)]) {
        for (k, m) in kinds {
            self.0.entry(k.clone()).or_default().insert(message_template(m));
        }
    }
}

pub struct Request {
    pub sexp: Sexp,
    /// texts of the parse errors, by the tag sent
    pub parse_msgs: Vec<String>,
}

fn s_p(p: &nitrogql_ast::base::Pos) -> Sexp {
    gm::P::from_real(p).to_sexp()
}

/// parse every file with the real parser and build the `(composed …)` request
pub fn build_request(dir: &Path, case: &Case, printer_fails: bool) -> Request {
    let mut parse_msgs: Vec<String> = vec![];
    let mut err = |e: PositionedError| -> Sexp {
        let p = e.position().unwrap_or_default();
        parse_msgs.push(e.into_inner().to_string());
        Sexp::call("err", vec![Sexp::int(p.line as i128), Sexp::int(p.column as i128), Sexp::int(parse_msgs.len() as i128 - 1)])
    };
    let mut schema = vec![];
    for (i, (_, text)) in case.schema_files.iter().enumerate() {
        set_current_file_of_pos(i);
        let pr = match parse_type_system_document(text) {
            Ok(d) => Sexp::call("ok", vec![gm::from_real_tsdoc_ext(&d).to_sexp()]),
            Err(e) => err(e.into()),
        };
        schema.push(Sexp::call("sf", vec![Sexp::int(i as i128), pr]));
    }
    let ns = case.schema_files.len();
    let mut ops = vec![];
    for (j, (rel, text)) in case.op_files.iter().enumerate() {
        set_current_file_of_pos(ns + j);
        let mut paths = vec![];
        let pr = match parse_operation_document(text) {
            Ok(d) => {
                for def in &d.definitions {
                    if let ExecutableDefinitionExt::Import(i) = def {
                        paths.push(Sexp::list(vec![s_p(&i.position), s_p(&i.path.position)]));
                    }
                }
                Sexp::call("ok", vec![gm::from_real_doc_ext(&d).to_sexp()])
            }
            Err(e) => err(e.into()),
        };
        let decl = Some(decl_path(rel, mode_ext(&case.mode)));
        ops.push(Sexp::call(
            "of",
            vec![Sexp::int((ns + j) as i128), Sexp::str(dir.join(rel).to_string_lossy()), pr, io_of(case, &decl), Sexp::call("paths", paths)],
        ));
    }
    let cmds = case.cmds.iter().map(|c| match c.as_str() {
        "check" => Sexp::atom("check"),
        "generate" => Sexp::atom("generate"),
        _ => Sexp::call("other", vec![Sexp::int(0)]),
    });
    let runtime_dts = case.emit_runtime && case.schema_output.as_ref().map_or(false, |s| s.ends_with(".d.ts"));
    let sexp = Sexp::call(
        "composed",
        vec![
            Sexp::call("cmds", cmds.collect()),
            Sexp::call("schema", schema),
            Sexp::call("ops", ops),
            Sexp::call(
                "gen",
                vec![
                    s_bit(case.schema_output.is_some()),
                    s_bit(case.module_specifier),
                    s_bit(runtime_dts),
                    s_bit(case.server_output.is_some()),
                    s_bit(case.resolvers_output.is_some()),
                    Sexp::atom(match case.mode.as_str() {
                        "with-loader-ts-5.0" => "ts50",
                        "with-loader-ts-4.0" => "ts40",
                        _ => "standalone",
                    }),
                ],
            ),
            Sexp::call("sprinter", vec![s_bit(printer_fails)]),
            Sexp::call("io", vec![io_of(case, &case.schema_output), io_of(case, &case.server_output), io_of(case, &case.resolvers_output)]),
        ],
    );
    Request { sexp, parse_msgs }
}

/// does the binary's message belong to what the model's tag says?
fn tag_matches(tag: &str, msg: &str, parse_msgs: &[String], classes: &Classes) -> bool {
    if let Some(t) = tag.strip_prefix("parse:") {
        t.parse::<usize>().ok().and_then(|t| parse_msgs.get(t)).map_or(false, |m| m == msg)
    } else if let Some(m) = tag.strip_prefix("msg:") {
        m == msg
    } else if let Some(k) = tag.strip_prefix("kind:") {
        classes.0.get(k).map_or(false, |ts| ts.contains(&message_template(msg)))
    } else {
        false
    }
}

fn show_tag(tag: &str, parse_msgs: &[String]) -> String {
    match tag.strip_prefix("parse:").and_then(|t| t.parse::<usize>().ok()).and_then(|t| parse_msgs.get(t)) {
        Some(m) => format!("parse:{m}"),
        None => tag.to_string(),
    }
}

fn short(s: &str, n: usize) -> String {
    s.chars().take(n).collect()
}

/// compare the answer of the composed model with the `json` run of the binary
#[allow(clippy::too_many_arguments)]
pub fn compare(
    rep: &mut Report,
    case: &Case,
    cj: &Value,
    dir: &Path,
    req: &Request,
    ans: &Sexp,
    run: &nvh::cli::CliRun,
    before: &BTreeMap<String, Vec<u8>>,
    after: &BTreeMap<String, Vec<u8>>,
    classes: &Classes,
) {
    rep.k_cases += 1;
    rep.count("composed:projects");
    if ans.head() != Some("outcome") {
        rep.fail("K", "composed:model-no-outcome", &format!("the composed model answered {}", short(&ans.to_line(), 300)), cj.clone());
        return;
    }
    let Some(code) = run.code else { return };
    let stages = short(&Sexp::call("stages", field(ans, "stages").to_vec()).to_line(), 1500);
    let abs = |rel: &str| dir.join(rel).to_string_lossy().to_string();
    let inputs: Vec<String> = case.schema_files.iter().chain(case.op_files.iter()).map(|(p, _)| abs(p)).collect();
    let path_of_index = |i: usize| inputs.get(i).cloned().unwrap_or_else(|| format!("<no file {i}>"));
    let ext = field(ans, "declExt").first().and_then(|s| s.as_str()).unwrap_or("").to_string();

    // what the model says happened, for the input distribution of the report
    let m_diags = field(ans, "diags");
    let first_cls = m_diags.first().and_then(|d| d.args().get(1)).and_then(|c| c.as_atom()).unwrap_or("clean").to_string();
    rep.count(&format!("composed:first-failing-stage:{first_cls}"));
    let cls_set: BTreeSet<&str> = m_diags.iter().filter_map(|d| d.args().get(1).and_then(|c| c.as_atom())).collect();
    if cls_set.len() > 1 {
        rep.count("composed:diagnostics-of-several-stages");
    }
    if m_diags.iter().any(|d| d.args().get(3).and_then(|t| t.as_str()).map_or(false, |t| t.starts_with("harness:"))) {
        rep.fail("K", "composed:file-index", &format!("`stagesOf` asks a parser with another file index than `run_cli_impl` sets: {}", short(&Sexp::list(m_diags.to_vec()).to_line(), 400)), cj.clone());
        return;
    }

    // ---------------- exit code --------------------------------------------------------------------------------
    let model_exit = nat(&field(ans, "exit")[0]) as i32;
    if code != model_exit {
        rep.fail("K", "composed:exit", &format!("binary exits {code}, the composed model predicts {model_exit}; cmds {:?}; model stage results {stages}; stderr {}", case.cmds, short(&run.stderr, 300)), cj.clone());
    }
    // ---------------- files written (directory snapshot) ----------------------------------------------------------
    let changed: BTreeSet<String> = after.iter().filter(|(k, v)| before.get(*k) != Some(*v)).map(|(k, _)| k.clone()).chain(before.keys().filter(|k| !after.contains_key(*k)).cloned()).collect();
    let model_written: BTreeSet<String> = field(ans, "written").iter().map(|f| out_path(case, f, &ext).0).collect();
    if changed != model_written {
        rep.fail("K", "composed:written", &format!("files created/changed by the binary {changed:?}, the composed model predicts {model_written:?}; model stage results {stages}"), cj.clone());
    }
    if case.has_generate() {
        rep.count(if model_written.is_empty() { "composed:generate-writes-nothing" } else { "composed:generate-writes" });
    }
    let v: Value = match serde_json::from_str(run.stdout.trim_end_matches('\n')) {
        Ok(v) => v,
        Err(_) => {
            rep.count("composed:stdout-not-json(reported by O)");
            return;
        }
    };
    // ---------------- command error -----------------------------------------------------------------------------
    let m_err = &field(ans, "json")[0].args()[0];
    let real_err: Option<(Option<String>, String)> = v.get("error").map(|e| (e["command"].as_str().map(|s| s.to_string()), classify_error(e["message"].as_str().unwrap_or("")).to_string()));
    let model_err: Option<(Option<String>, String)> = if m_err.head() == Some("e") {
        let cmd = match &m_err.args()[0] {
            Sexp::Atom(a) if a == "none" => None,
            Sexp::Atom(a) => Some(a.clone()),
            _ => Some("bogus".to_string()),
        };
        Some((cmd, m_err.args()[1].as_atom().unwrap_or("").to_string()))
    } else {
        None
    };
    if real_err != model_err {
        rep.fail("K", "composed:error", &format!("binary reports the command error {real_err:?} ({:?}), the composed model predicts {model_err:?}; model stage results {stages}", short(v["error"]["message"].as_str().unwrap_or(""), 200)), cj.clone());
    }
    // ---------------- diagnostics: ordered, (file type, file, line, column, kind) ---------------------------------------
    let m_check = &field(ans, "json")[1].args()[0];
    let real_check: Option<Vec<(String, Option<(String, usize, usize)>, String)>> = v.get("check").map(|c| {
        c["errors"]
            .as_array()
            .cloned()
            .unwrap_or_default()
            .iter()
            .map(|d| {
                let f = if d["file"].is_null() { None } else { Some((d["file"]["path"].as_str().unwrap_or("").to_string(), d["file"]["line"].as_u64().unwrap_or(u64::MAX) as usize, d["file"]["column"].as_u64().unwrap_or(u64::MAX) as usize)) };
                (d["fileType"].as_str().unwrap_or("").to_string(), f, d["message"].as_str().unwrap_or("").to_string())
            })
            .collect()
    });
    let model_check: Option<Vec<(String, Option<(String, usize, usize)>, String)>> = if m_check.head() == Some("some") {
        Some(
            m_check
                .args()
                .iter()
                .map(|jd| {
                    let a = jd.args();
                    let f = if a[1].head() == Some("f") { Some((path_of_index(nat(&a[1].args()[0])), nat(&a[1].args()[1]), nat(&a[1].args()[2]))) } else { None };
                    (a[0].as_atom().unwrap_or("").to_string(), f, a[2].as_str().unwrap_or("").to_string())
                })
                .collect(),
        )
    } else {
        None
    };
    let strip = |p: &str| p.strip_prefix(&format!("{}/", dir.to_string_lossy())).unwrap_or(p).to_string();
    let show_real = |ds: &[(String, Option<(String, usize, usize)>, String)]| -> String { format!("{:?}", ds.iter().map(|(t, f, m)| (t.clone(), f.as_ref().map(|(p, l, c)| format!("{}:{l}:{c}", strip(p))), short(m, 80))).collect::<Vec<_>>()) };
    let show_model = |ds: &[(String, Option<(String, usize, usize)>, String)]| -> String { format!("{:?}", ds.iter().map(|(t, f, m)| (t.clone(), f.as_ref().map(|(p, l, c)| format!("{}:{l}:{c}", strip(p))), short(&show_tag(m, &req.parse_msgs), 80))).collect::<Vec<_>>()) };
    match (&real_check, &model_check) {
        (None, None) => {}
        (Some(r), Some(m)) => {
            let what = |aspect: &str| format!("{aspect}: check.errors of the binary {}, the composed model predicts {} (first failing stage of the model: {first_cls}); model stage results {stages}", show_real(r), show_model(m));
            if r.len() != m.len() {
                rep.fail("K", "composed:diags:count", &what(&format!("{} diagnostics reported, {} predicted", r.len(), m.len())), cj.clone());
            } else {
                for (i, (a, b)) in r.iter().zip(m.iter()).enumerate() {
                    if a.0 != b.0 {
                        rep.fail("K", "composed:diags:filetype", &what(&format!("diagnostic #{i} has another file type")), cj.clone());
                        break;
                    }
                    if a.1 != b.1 {
                        rep.fail("K", "composed:diags:position", &what(&format!("diagnostic #{i} is located elsewhere (or the order differs)")), cj.clone());
                        break;
                    }
                    if !tag_matches(&b.2, &a.2, &req.parse_msgs, classes) {
                        let known = b.2.strip_prefix("kind:").map(|k| format!("; message classes of {k}: {:?}", classes.0.get(k))).unwrap_or_default();
                        rep.fail("K", "composed:diags:kind", &what(&format!("diagnostic #{i} is of another kind{known}")), cj.clone());
                        break;
                    }
                }
            }
            rep.count_n("composed:diagnostics-compared", r.len().min(m.len()) as u64);
        }
        (a, b) => rep.fail("K", "composed:check-member", &format!("check member of the binary {:?}, the composed model predicts {:?}; model stage results {stages}", a.as_ref().map(|x| show_real(x)), b.as_ref().map(|x| show_model(x))), cj.clone()),
    }
    // ---------------- files listed ------------------------------------------------------------------------------
    let m_gen = &field(ans, "json")[2].args()[0];
    let real_gen: Option<Vec<(String, String)>> = v.get("generate").map(|g| g["files"].as_array().cloned().unwrap_or_default().iter().map(|f| (f["fileType"].as_str().unwrap_or("").to_string(), f["path"].as_str().unwrap_or("").to_string())).collect());
    let model_gen: Option<Vec<(String, String)>> = if m_gen.head() == Some("some") {
        Some(m_gen.args().iter().map(|of| { let (p, k) = out_path(case, of, &ext); (k, abs(&p)) }).collect())
    } else {
        None
    };
    if real_gen != model_gen {
        rep.fail("K", "composed:generate", &format!("generate member of the binary {real_gen:?}, the composed model predicts {model_gen:?}; model stage results {stages}"), cj.clone());
    }
}
