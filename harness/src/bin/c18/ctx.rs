//! Context-dependent faults across `#import` (C18 seed follow-up m4).
//!
//! A cluster of two or three operation files linked by `#import` (specific and wildcard), over a small schema cluster
//! appended to the project's schema.  Every file of the cluster is valid when it is looked at ALONE; the injected fault
//! only exists in the context of an importing document:
//!  * a variable used inside an imported fragment (field argument, list item, `@include` / `@skip`, a directive of the
//!    fragment definition, a sibling fragment it spreads) that the importing operation does not declare, declares with
//!    another type, or declares nullable where a non-null value is required;
//!  * a specifically imported fragment that spreads a sibling the importer did not import;
//!  * an imported fragment whose type condition cannot apply where the importer spreads it;
//!  * a local fragment with the name of an imported one.
//! The generator knows which fault it injected and which files are involved (`file` = the file holding the offending
//! construct, `alt` = the importing file(s) in whose context it is a fault); the O clauses judge the binary against that
//! knowledge, never against the library's answer.  `Valid` clusters (everything declared properly, possibly with
//! several importers declaring the variable differently) guard against false alarms.
use nvh::Rng;

#[derive(Clone, Copy, PartialEq, Eq, Debug)]
pub enum CtxKind {
    Valid,
    Undeclared,
    WrongType,
    Nullability,
    Sibling,
    TypeCondition,
    Duplicate,
}

impl CtxKind {
    pub fn tag(self) -> &'static str {
        match self {
            CtxKind::Valid => "ctx-valid",
            CtxKind::Undeclared => "ctx-undeclared-variable",
            CtxKind::WrongType => "ctx-variable-type",
            CtxKind::Nullability => "ctx-variable-nullability",
            CtxKind::Sibling => "ctx-sibling-not-imported",
            CtxKind::TypeCondition => "ctx-type-condition",
            CtxKind::Duplicate => "ctx-duplicate-fragment-name",
        }
    }
    pub fn pick(rng: &mut Rng, faulty: bool) -> CtxKind {
        if !faulty {
            return CtxKind::Valid;
        }
        match rng.below(10) {
            0..=2 => CtxKind::Undeclared,
            3..=4 => CtxKind::WrongType,
            5..=6 => CtxKind::Nullability,
            7 => CtxKind::Sibling,
            8 => CtxKind::TypeCondition,
            _ => CtxKind::Duplicate,
        }
    }
}

pub struct CtxFault {
    pub kind: String,
    /// the file holding the offending construct
    pub file: String,
    /// the importing file(s) in whose context the construct is a fault
    pub alt: Vec<String>,
}

pub struct CtxScenario {
    /// definitions appended to one schema file (valid)
    pub schema_add: String,
    /// new operation files (relative path, text)
    pub files: Vec<(String, String)>,
    pub faults: Vec<CtxFault>,
    pub features: Vec<String>,
}

/// a place inside a fragment where the variable `$v` is used, with the declarations that fit / do not fit it
struct Site {
    /// selection text put into the fragment body
    sel: String,
    /// directive text put on the fragment DEFINITION ("" if none)
    def_dir: String,
    good: Vec<&'static str>,
    wrong: Vec<&'static str>,
    /// a declaration of the right named type that is nullable where non-null is required
    nullable: Option<&'static str>,
    name: &'static str,
}

fn site(rng: &mut Rng, n: usize, v: &str, need_non_null: bool) -> Site {
    let int_good = vec!["Int", "Int!", "Int = 3"];
    let int_wrong = vec!["String", "[Int]", "Boolean!", "ID"];
    let bool_good = vec!["Boolean!", "Boolean = true", "Boolean! = false"];
    let bool_wrong = vec!["Int!", "String!", "[Boolean!]!", "ID = \"x\""];
    loop {
        let s = match rng.below(9) {
            0 => Site { sel: format!("byNum(num: ${v}) {{ id }}"), def_dir: String::new(), good: int_good.clone(), wrong: int_wrong.clone(), nullable: None, name: "field-argument" },
            1 => Site { sel: format!("byFlag(flag: ${v}) {{ id }}"), def_dir: String::new(), good: bool_good.clone(), wrong: bool_wrong.clone(), nullable: Some("Boolean"), name: "field-argument-non-null" },
            2 => Site { sel: format!("byIds(ids: [1, ${v}]) {{ id }}"), def_dir: String::new(), good: vec!["Int!", "Int = 1"], wrong: vec!["String!", "[Int!]!", "Float!"], nullable: Some("Int"), name: "list-item" },
            3 => Site { sel: format!("id @{}(if: ${v})", if rng.coin() { "include" } else { "skip" }), def_dir: String::new(), good: bool_good.clone(), wrong: bool_wrong.clone(), nullable: Some("Boolean"), name: "skip-include" },
            4 => Site { sel: format!("... @include(if: ${v}) {{ id }}"), def_dir: String::new(), good: bool_good.clone(), wrong: bool_wrong.clone(), nullable: Some("Boolean"), name: "inline-fragment-directive" },
            5 => Site { sel: "id".into(), def_dir: format!(" @cxd{n}(flag: ${v})"), good: bool_good.clone(), wrong: bool_wrong.clone(), nullable: Some("Boolean"), name: "fragment-definition-directive" },
            6 => Site { sel: "id".into(), def_dir: format!(" @cxd{n}(flag: true, num: ${v})"), good: int_good.clone(), wrong: int_wrong.clone(), nullable: None, name: "fragment-definition-directive" },
            7 => Site { sel: format!("id @cxd{n}(flag: true, num: ${v})"), def_dir: String::new(), good: int_good.clone(), wrong: int_wrong.clone(), nullable: None, name: "field-directive" },
            _ => Site { sel: format!("byNum(num: 1) {{ other {{ id }} byFlag(flag: ${v}) {{ id }} }}"), def_dir: String::new(), good: bool_good.clone(), wrong: bool_wrong.clone(), nullable: Some("Boolean"), name: "nested-field-argument" },
        };
        if !need_non_null || s.nullable.is_some() {
            return s;
        }
    }
}

/// a spelling of the path of `target` (a file of the same directory `ops/`): `resolve_relative_path` normalises them all
/// to the path under which the file is registered
fn spell(rng: &mut Rng, target: &str) -> String {
    match rng.below(8) {
        0..=3 => format!("./{target}"),
        4 => target.to_string(),
        5 => format!("../ops/{target}"),
        6 => format!("./sub/../{target}"),
        _ => format!("./././{target}"),
    }
}

/// one `#import` line — or two lines that import from the same file (same or different spelling of its path: lines
/// with the same path literal are merged by `resolve_operation_extensions`, the others meet in the import resolver)
fn import_line(rng: &mut Rng, wildcard: bool, names: &[String], target: &str) -> String {
    let lead = if rng.chance(1, 4) { "  " } else { "" };
    let sep = if rng.coin() { ", " } else { " " };
    if wildcard {
        let path = spell(rng, target);
        return format!("{lead}#import * from \"{path}\"\n");
    }
    if names.len() >= 2 && rng.chance(1, 3) {
        let k = 1 + rng.below(names.len() - 1);
        let p1 = spell(rng, target);
        let p2 = if rng.coin() { p1.clone() } else { spell(rng, target) };
        return format!("{lead}#import {} from \"{p1}\"\n#import {} from \"{p2}\"\n", names[..k].join(sep), names[k..].join(sep));
    }
    let path = spell(rng, target);
    format!("{lead}#import {} from \"{path}\"\n", names.join(sep))
}

/// lay a fragment out on several lines or on one
fn fragment(rng: &mut Rng, name: &str, on: &str, def_dir: &str, sels: &[String]) -> String {
    if rng.coin() {
        format!("fragment {name} on {on}{def_dir} {{ {} }}\n", sels.join(" "))
    } else {
        let ind = if rng.coin() { "  " } else { "    " };
        format!("fragment {name} on {on}{def_dir} {{\n{}}}\n", sels.iter().map(|s| format!("{ind}{s}\n")).collect::<String>())
    }
}

/// `n` makes every name of the cluster unique in the project; `query_root` is the name of the query root type.
pub fn gen_ctx(rng: &mut Rng, n: usize, query_root: &str, kind: CtxKind) -> CtxScenario {
    let node = format!("CxNode{n}");
    let other = format!("CxOther{n}");
    let schema_add = format!(
        "\nextend type {query_root} {{ cx{n}(num: Int): {node} }}\ntype {node} {{\n  id: ID\n  byNum(num: Int): {node}\n  byFlag(flag: Boolean!): {node}\n  byIds(ids: [Int!]): {node}\n  other: {other}\n}}\ntype {other} {{ id: ID }}\ndirective @cxd{n}(num: Int, flag: Boolean!) on FIELD | FRAGMENT_DEFINITION | FRAGMENT_SPREAD | INLINE_FRAGMENT\n"
    );
    let mut features = vec![format!("ctx:{}", kind.tag())];
    // file names sorting before and after the generated `o<j>.graphql` (so imported files get lower and higher indices)
    let fname = |rng: &mut Rng, role: &str| format!("{}{n}{role}.graphql", if rng.coin() { "a" } else { "q" });
    let leaf = fname(rng, "leaf");
    let mid = fname(rng, "mid");
    let main = fname(rng, "main");
    let also = fname(rng, "also");
    let rel = |f: &str| format!("ops/{f}");
    let chain3 = rng.coin();
    features.push(format!("ctx-chain:{}", if chain3 { 3 } else { 2 }));
    let f_name = format!("CxF{n}");
    let g_name = format!("CxG{n}");
    let sib_name = format!("CxSib{n}");
    let m_name = format!("CxM{n}");
    let v = format!("cv{n}");

    let mut leaf_text = String::new();
    let mut leaf_names = vec![f_name.clone()];
    // does the link INTO the leaf file import by name (true) or with a wildcard
    let mut leaf_wild = rng.coin();
    let mid_wild = rng.coin();
    let mut main_decl: Option<String> = None;
    let mut good_decl: Option<String> = None;
    let mut main_local = String::new();
    let mut mid_local = String::new();
    let mut faults = vec![];
    let leaf_importer = if chain3 { mid.clone() } else { main.clone() };

    match kind {
        CtxKind::Valid | CtxKind::Undeclared | CtxKind::WrongType | CtxKind::Nullability => {
            let s = site(rng, n, &v, kind == CtxKind::Nullability);
            features.push(format!("ctx-site:{}", s.name));
            let good = rng.pick(&s.good).to_string();
            main_decl = match kind {
                CtxKind::Valid => Some(good.clone()),
                CtxKind::Undeclared => None,
                CtxKind::WrongType => Some(rng.pick(&s.wrong).to_string()),
                _ => Some(s.nullable.unwrap().to_string()),
            };
            good_decl = Some(rng.pick(&s.good).to_string());
            if rng.chance(1, 3) {
                // the variable is used by a sibling fragment that the imported fragment spreads
                features.push("ctx-site:through-sibling-fragment".into());
                leaf_names.push(g_name.clone());
                let f = fragment(rng, &f_name, &node, "", &["id".to_string(), format!("...{g_name}")]);
                let g = fragment(rng, &g_name, &node, &s.def_dir, &[s.sel.clone()]);
                if rng.coin() {
                    leaf_text.push_str(&f);
                    leaf_text.push_str(&g);
                } else {
                    leaf_text.push_str(&g);
                    leaf_text.push_str(&f);
                }
            } else {
                let mut sels = vec![s.sel.clone()];
                if s.sel != "id" && rng.coin() {
                    sels.insert(0, "id".into());
                }
                leaf_text.push_str(&fragment(rng, &f_name, &node, &s.def_dir, &sels));
            }
            if kind != CtxKind::Valid {
                faults.push(CtxFault { kind: kind.tag().into(), file: rel(&leaf), alt: vec![rel(&main)] });
            }
        }
        CtxKind::Sibling => {
            leaf_wild = false;
            let f = fragment(rng, &f_name, &node, "", &["id".to_string(), format!("...{sib_name}")]);
            let s = fragment(rng, &sib_name, &node, "", &["id".to_string(), "other { id }".to_string()]);
            leaf_text.push_str(&f);
            leaf_text.push_str(&s);
            let mut alt = vec![rel(&leaf_importer)];
            if chain3 {
                alt.push(rel(&main));
            }
            faults.push(CtxFault { kind: kind.tag().into(), file: rel(&leaf), alt });
        }
        CtxKind::TypeCondition => {
            // valid on its own; cannot apply where the importer spreads it (a selection on CxNode)
            leaf_text.push_str(&fragment(rng, &f_name, &other, "", &["id".to_string()]));
            let mut alt = vec![rel(&leaf)];
            if chain3 {
                alt.push(rel(&main));
            }
            faults.push(CtxFault { kind: kind.tag().into(), file: rel(&leaf_importer), alt });
        }
        CtxKind::Duplicate => {
            leaf_text.push_str(&fragment(rng, &f_name, &node, "", &["id".to_string()]));
            let local = fragment(rng, &f_name, &node, "", &["id".to_string(), "other { id }".to_string()]);
            let mut alt = vec![];
            if chain3 && rng.coin() {
                mid_local = local;
                alt.push(rel(&mid));
                features.push("ctx-duplicate:local-in-middle-file".into());
            } else {
                main_local = local;
            }
            alt.push(rel(&main));
            faults.push(CtxFault { kind: kind.tag().into(), file: rel(&leaf), alt });
        }
    }
    // the fragment file may carry an operation of its own that declares the variable properly (so the file is not a
    // pure fragment file and its fragments are checked in the context of ITS operation), possibly on one line behind
    // non-ASCII text
    let mut leaf_own_op = String::new();
    if rng.chance(1, 3) && !matches!(kind, CtxKind::TypeCondition) {
        features.push("ctx-leaf-has-own-operation".into());
        let decl = match &good_decl {
            Some(d) => format!("(${v}: {d}, $s{n}: String = \"日本語 😀 Größe\")"),
            None => format!("($s{n}: String = \"日本語 😀 Größe\")"),
        };
        leaf_own_op = format!("query CxOwn{n}{decl} {{ cx{n} {{ id ...{f_name} }} }}");
    }
    if leaf_own_op.is_empty() {
        // nothing
    } else if rng.coin() {
        leaf_text = format!("{leaf_own_op} {}", leaf_text.replace('\n', " ").trim_end().to_string() + "\n");
        features.push("ctx-non-ascii-before-fragment".into());
    } else {
        leaf_text = format!("{leaf_text}{leaf_own_op}\n");
    }
    features.push(format!("ctx-import-into-leaf:{}", if leaf_wild { "wildcard" } else { "specific" }));

    let mut files = vec![];
    // middle file
    let spread_name = if chain3 { m_name.clone() } else { f_name.clone() };
    let spread_names = if chain3 { vec![m_name.clone()] } else { leaf_names.clone() };
    if chain3 {
        features.push(format!("ctx-import-into-middle:{}", if mid_wild { "wildcard" } else { "specific" }));
        let imp = import_line(rng, leaf_wild, &leaf_names, &leaf);
        let m = fragment(rng, &m_name, &node, "", &["id".to_string(), format!("...{f_name}")]);
        let text = if rng.coin() { format!("{imp}{m}{mid_local}") } else { format!("{imp}{mid_local}{m}") };
        files.push((rel(&mid), text));
    }
    // importing operation(s)
    let importer = |rng: &mut Rng, qname: &str, decl: &Option<String>, local: &str| -> String {
        let imp = if chain3 { import_line(rng, mid_wild, &spread_names, &mid) } else { import_line(rng, leaf_wild, &spread_names, &leaf) };
        let extra = rng.coin();
        let mut decls = vec![];
        if extra {
            decls.push(format!("$x{n}: Int"));
        }
        if let Some(d) = decl {
            let at = rng.below(decls.len() + 1);
            decls.insert(at, format!("${v}: {d}"));
        }
        let vars = if decls.is_empty() { String::new() } else { format!("({})", decls.join(", ")) };
        let arg = if extra { format!("(num: $x{n})") } else { String::new() };
        let op = if rng.coin() {
            format!("query {qname}{vars} {{ cx{n}{arg} {{ id ...{spread_name} }} }}\n")
        } else {
            format!("query {qname}{vars} {{\n  cx{n}{arg} {{\n    id\n    ...{spread_name}\n  }}\n}}\n")
        };
        if rng.coin() {
            format!("{imp}\n{op}{local}")
        } else {
            format!("{imp}{local}{op}")
        }
    };
    let main_text = importer(rng, &format!("CxQ{n}"), &main_decl, &main_local);
    files.push((rel(&main), main_text));
    if good_decl.is_some() && rng.chance(1, 3) {
        // a second importer that declares the variable properly: the fragment file is fine for this one
        features.push("ctx-second-importer-declares-properly".into());
        let t = importer(rng, &format!("CxAlso{n}"), &good_decl, "");
        files.push((rel(&also), t));
    }
    files.push((rel(&leaf), leaf_text));
    CtxScenario { schema_add, files, faults, features }
}
