//! C13 — `#import` resolution brings in every requested fragment, transitively, once.
//!
//! A case is an import graph: files (path, raw import lines, definitions) and a root. The harness writes every file as
//! real `.graphql` text, parses it with the real parser, runs the real `resolve_operation_extensions` on every file and
//! the real `resolve_operation_imports` on the root with an in-memory `OperationResolver`, and compares
//!   K: with the Lean model of the code (ordered list of appended definitions / error kind and position),
//!   O: with the Lean reference specification (set of definitions, each once / error iff dangling or missing name),
//!      plus order-independence evaluated directly on the real code (a line-permuted twin of the case).
//! Definitions are identified by (file, index in the file) — recovered from the line of their position.
use nitrogql_ast::operation::ExecutableDefinition;
use nitrogql_ast::{OperationDocument, base::HasPos};
use nitrogql_error::PositionedError;
use nitrogql_parser::parse_operation_document;
use nitrogql_semantics::{OperationExtension, OperationResolver, resolve_operation_extensions, resolve_operation_imports};
use nitrogql_utils::normalize_path;
use nvh::*;
use serde_json::{Value, json};
use std::collections::{BTreeMap, BTreeSet, HashMap};
use std::panic::AssertUnwindSafe;
use std::path::{Path, PathBuf};

#[path = "c13/cli_leg.rs"]
mod cli_leg;

fn trunc(s: &str, n: usize) -> String {
    if s.chars().count() <= n { s.to_string() } else { format!("{}…", s.chars().take(n).collect::<String>()) }
}

const STRIDE: usize = 64;
const DEF_OFF: usize = 40;

#[derive(Clone, Debug, PartialEq, Eq)]
struct Line {
    rel: String,
    /// None = `*`, Some(k) = fragment name `N<k>`
    targets: Vec<Option<u32>>,
}

#[derive(Clone, Debug, PartialEq, Eq)]
struct FileG {
    path: String,
    lines: Vec<Line>,
    /// None = an operation, Some(k) = `fragment N<k>`
    defs: Vec<Option<u32>>,
}

#[derive(Clone, Debug, PartialEq, Eq)]
struct Case {
    files: Vec<FileG>,
    root: usize,
    /// is the root document also known to the resolver (true for the CLI and the loader)
    root_registered: bool,
}

impl Case {
    fn to_json(&self) -> Value {
        json!({
            "root": self.root,
            "root_registered": self.root_registered,
            "files": self.files.iter().map(|f| json!({
                "path": f.path,
                "lines": f.lines.iter().map(|l| json!({
                    "rel": l.rel,
                    "targets": l.targets.iter().map(|t| match t { None => json!("*"), Some(k) => json!(k) }).collect::<Vec<_>>(),
                })).collect::<Vec<_>>(),
                "defs": f.defs.iter().map(|d| match d { None => json!("op"), Some(k) => json!(k) }).collect::<Vec<_>>(),
            })).collect::<Vec<_>>(),
        })
    }
    fn from_json(v: &Value) -> Option<Case> {
        let files = v["files"].as_array()?.iter().map(|f| {
            Some(FileG {
                path: f["path"].as_str()?.to_string(),
                lines: f["lines"].as_array()?.iter().map(|l| {
                    Some(Line {
                        rel: l["rel"].as_str()?.to_string(),
                        targets: l["targets"].as_array()?.iter().map(|t| t.as_u64().map(|k| k as u32)).collect(),
                    })
                }).collect::<Option<Vec<_>>>()?,
                defs: f["defs"].as_array()?.iter().map(|d| d.as_u64().map(|k| k as u32)).collect(),
            })
        }).collect::<Option<Vec<_>>>()?;
        Some(Case { files, root: v["root"].as_u64()? as usize, root_registered: v["root_registered"].as_bool().unwrap_or(true) })
    }
    fn text_key(&self) -> String {
        self.to_json().to_string()
    }
}

/// text of file number `fidx`: import line j on line fidx*STRIDE + j, definition k on line fidx*STRIDE + DEF_OFF + k;
/// also returns, per import line, the column of each target
fn file_text(fidx: usize, f: &FileG) -> (String, Vec<Vec<usize>>) {
    let mut s = "\n".repeat(fidx * STRIDE);
    let mut cols = vec![];
    for l in &f.lines {
        let mut line = String::from("#import ");
        let mut c = vec![];
        for (i, t) in l.targets.iter().enumerate() {
            if i > 0 {
                line.push_str(", ");
            }
            c.push(line.len());
            match t {
                None => line.push('*'),
                Some(k) => line.push_str(&format!("N{k}")),
            }
        }
        line.push_str(&format!(" from \"{}\"\n", l.rel));
        s.push_str(&line);
        cols.push(c);
    }
    for _ in f.lines.len()..DEF_OFF {
        s.push('\n');
    }
    for (k, d) in f.defs.iter().enumerate() {
        match d {
            None => s.push_str(&format!("query Q{fidx}x{k} {{ id }}\n")),
            Some(n) => s.push_str(&format!("fragment N{n} on T {{ id }}\n")),
        }
    }
    (s, cols)
}

type Parsed = Result<&'static (OperationDocument<'static>, OperationExtension<'static>), (String, usize)>;

struct Real {
    cache: HashMap<String, Parsed>,
}

struct MapResolver(HashMap<PathBuf, &'static (OperationDocument<'static>, OperationExtension<'static>)>);
impl OperationResolver<'static> for MapResolver {
    fn resolve(&self, path: &Path) -> Option<(&OperationDocument<'static>, &OperationExtension<'static>)> {
        self.0.get(path).map(|p| (&p.0, &p.1))
    }
}

fn norm_text(p: &str) -> String {
    normalize_path(Path::new(p)).to_string_lossy().to_string()
}

fn classify_message(msg: &str) -> &'static str {
    if msg.starts_with("File '") {
        "notfound"
    } else if msg.contains("is not found in the imported file") {
        "nofrag"
    } else if msg.contains("only once") {
        "once"
    } else if msg.contains("cannot be combined") {
        "combined"
    } else {
        "unknown-error"
    }
}

impl Real {
    fn parsed(&mut self, text: String) -> Parsed {
        if let Some(p) = self.cache.get(&text) {
            return p.clone();
        }
        let src: &'static str = Box::leak(text.clone().into_boxed_str());
        let doc = parse_operation_document(src).unwrap_or_else(|e| panic!("generated text does not parse: {e:?}\n{src}"));
        let r: Parsed = match resolve_operation_extensions(doc) {
            Ok(pair) => Ok(Box::leak(Box::new(pair))),
            Err(e) => {
                let pe: PositionedError = e.into();
                let line = pe.position().map(|p| p.line).unwrap_or(usize::MAX);
                Err((classify_message(&pe.into_inner().to_string()).to_string(), line))
            }
        };
        self.cache.insert(text, r.clone());
        r
    }

    /// run the real code; returns (answer in the model's format, were the root's own definitions kept first and in order)
    fn run(&mut self, case: &Case) -> (Sexp, bool) {
        let root = &case.files[case.root];
        // extension resolution: root first, then every registered file, first error wins
        let mut order = vec![case.root];
        for i in 0..case.files.len() {
            if i != case.root || case.root_registered {
                order.push(i);
            }
        }
        let mut parsed: BTreeMap<usize, _> = BTreeMap::new();
        let mut cols: BTreeMap<usize, Vec<Vec<usize>>> = BTreeMap::new();
        for &i in &order {
            let (text, c) = file_text(i, &case.files[i]);
            cols.insert(i, c);
            match self.parsed(text) {
                Ok(p) => {
                    parsed.insert(i, p);
                }
                Err((kind, line)) => {
                    return (Sexp::call("ext-err", vec![Sexp::str(case.files[i].path.as_str()), Sexp::atom(kind), Sexp::int((line % STRIDE) as i128)]), true);
                }
            }
        }
        let mut map = HashMap::new();
        for &i in order.iter().skip(1) {
            // like `collect()` into a HashMap: a later file with an equal path replaces an earlier one (never generated)
            map.insert(PathBuf::from(&case.files[i].path), parsed[&i]);
        }
        let resolver = MapResolver(map);
        let root_parsed = parsed[&case.root];
        let root_path = PathBuf::from(&root.path);
        let res = catch(AssertUnwindSafe(|| {
            resolve_operation_imports((root_path.as_path(), &root_parsed.0, &root_parsed.1), &resolver)
                .map_err(|e| -> PositionedError { e.into() })
        }));
        match res {
            Err(_) => (Sexp::call("panic", vec![]), true),
            Ok(Err(pe)) => {
                let pos = pe.position().expect("import errors are positioned");
                let msg = pe.into_inner().to_string();
                let kind = classify_message(&msg);
                let fidx = pos.line / STRIDE;
                let j = pos.line % STRIDE;
                let doc = norm_text(&case.files[fidx.min(case.files.len() - 1)].path);
                if kind == "notfound" {
                    (Sexp::call("err", vec![Sexp::atom("notfound"), Sexp::str(doc), Sexp::int(j as i128)]), true)
                } else {
                    let col = cols.get(&fidx).and_then(|c| c.get(j)).and_then(|c| c.iter().position(|&x| x == pos.column)).map(|x| x as i128).unwrap_or(-1);
                    let name: i128 = msg.split('\'').nth(1).and_then(|n| n.trim_start_matches('N').parse().ok()).unwrap_or(-1);
                    (Sexp::call("err", vec![Sexp::atom(kind), Sexp::str(doc), Sexp::int(j as i128), Sexp::int(col), Sexp::int(name)]), true)
                }
            }
            Ok(Ok(doc)) => {
                let n_own = root.defs.len();
                let mut own_ok = doc.definitions.len() >= n_own;
                let mut items = vec![];
                for (k, d) in doc.definitions.iter().enumerate() {
                    let line = d.position().line;
                    let (fidx, idx) = (line / STRIDE, (line % STRIDE).wrapping_sub(DEF_OFF));
                    if k < n_own {
                        if fidx != case.root || idx != k {
                            own_ok = false;
                        }
                        continue;
                    }
                    if matches!(d, ExecutableDefinition::OperationDefinition(_)) {
                        own_ok = false; // an operation of another file was imported
                    }
                    items.push(Sexp::list(vec![Sexp::str(norm_text(&case.files[fidx.min(case.files.len() - 1)].path)), Sexp::int(idx as i128)]));
                }
                (Sexp::call("ok", items), own_ok)
            }
        }
    }
}

fn request(case: &Case) -> Sexp {
    fn body(f: &FileG) -> Vec<Sexp> {
        vec![
            Sexp::call("imps", f.lines.iter().map(|l| {
                let mut v = vec![Sexp::str(l.rel.as_str())];
                v.extend(l.targets.iter().map(|t| match t { None => Sexp::atom("w"), Some(k) => Sexp::int(*k as i128) }));
                Sexp::call("i", v)
            }).collect()),
            Sexp::call("defs", f.defs.iter().map(|d| match d { None => Sexp::atom("o"), Some(k) => Sexp::int(*k as i128) }).collect()),
        ]
    }
    let root = &case.files[case.root];
    let mut r = vec![Sexp::str(root.path.as_str())];
    r.extend(body(root));
    let mut files = vec![];
    for (i, f) in case.files.iter().enumerate() {
        if i != case.root || case.root_registered {
            let mut v = vec![Sexp::str(f.path.as_str())];
            v.extend(body(f));
            files.push(Sexp::call("f", v));
        }
    }
    Sexp::call("c13", vec![Sexp::call("root", r), Sexp::call("files", files)])
}

// ------------------------------------------------------------------------------------------------ graph shape

struct Shape {
    /// resolved target file index of every line (None = dangling)
    targets: Vec<Vec<Option<usize>>>,
    reachable: BTreeSet<usize>,
}

fn shape(case: &Case) -> Shape {
    let by_path: HashMap<String, usize> = case.files.iter().enumerate()
        .filter(|(i, _)| *i != case.root || case.root_registered)
        .map(|(i, f)| (norm_text(&f.path), i)).collect();
    let targets: Vec<Vec<Option<usize>>> = case.files.iter().map(|f| {
        f.lines.iter().map(|l| {
            let p = nitrogql_utils::resolve_relative_path(Path::new(&f.path), Path::new(&l.rel));
            by_path.get(&p.to_string_lossy().to_string()).copied()
        }).collect()
    }).collect();
    let mut reachable = BTreeSet::new();
    let mut todo = vec![case.root];
    while let Some(q) = todo.pop() {
        if reachable.insert(q) {
            for t in targets[q].iter().flatten() {
                todo.push(*t);
            }
        }
    }
    Shape { targets, reachable }
}

/// graph-shape class of a (shrunk) case, most specific first
fn shape_class(case: &Case) -> String {
    let sh = shape(case);
    let mut feats = vec![];
    // the same name requested twice for one path literal of one file
    let repeated = case.files.iter().any(|f| {
        let mut seen = BTreeSet::new();
        f.lines.iter().any(|l| l.targets.iter().any(|t| t.is_some() && !seen.insert((l.rel.clone(), *t))))
    });
    if repeated {
        feats.push("repeated-name");
    }
    // root reachable from itself
    let root_cycle = sh.reachable.iter().any(|&q| sh.targets[q].iter().any(|t| *t == Some(case.root)));
    if root_cycle {
        feats.push("root-cycle");
    }
    // two differently spelled literals of one file resolve to the same file
    let respelled = case.files.iter().enumerate().any(|(i, f)| {
        (0..f.lines.len()).any(|a| (0..a).any(|b| f.lines[a].rel != f.lines[b].rel && sh.targets[i][a].is_some() && sh.targets[i][a] == sh.targets[i][b]))
    });
    if respelled {
        feats.push("respelled-path");
    }
    // a file is the target of import lines of two different reachable files
    let mut indeg: BTreeMap<usize, BTreeSet<usize>> = BTreeMap::new();
    for &q in &sh.reachable {
        for t in sh.targets[q].iter().flatten() {
            indeg.entry(*t).or_default().insert(q);
        }
    }
    if indeg.values().any(|s| s.len() >= 2) {
        feats.push(if root_cycle { "shared-target" } else { "diamond" });
    }
    if case.files.iter().any(|f| f.lines.iter().any(|l| l.targets.contains(&None))) {
        feats.push("wildcard");
    }
    if sh.reachable.iter().any(|&q| sh.targets[q].iter().any(|t| t.is_none())) {
        feats.push("dangling");
    }
    if feats.is_empty() {
        feats.push("plain");
    }
    feats.join("+")
}

fn features(case: &Case, rep: &mut Report) {
    let sh = shape(case);
    rep.count(&format!("files:{}", case.files.len()));
    rep.count(&format!("reachable:{}", sh.reachable.len()));
    for part in shape_class(case).split('+') {
        rep.count(&format!("feature:{part}"));
    }
    if !case.root_registered {
        rep.count("feature:root-not-registered");
    }
    if case.files.iter().any(|f| {
        (0..f.lines.len()).any(|a| (0..a).any(|b| f.lines[a].rel == f.lines[b].rel))
    }) {
        rep.count("feature:merged-lines");
    }
}

// ------------------------------------------------------------------------------------------------ comparison

fn sorted_items(x: &Sexp) -> Vec<Sexp> {
    let mut v = x.args().to_vec();
    v.sort();
    v
}

/// O verdict of one real answer against the spec answer: None = agrees, Some((coarse class, description))
fn oracle(real: &Sexp, own_ok: bool, spec: &Sexp) -> Option<(String, String)> {
    if !own_ok {
        return Some(("own-defs".into(), "the root's own definitions are not the prefix of the result (or an operation was imported)".into()));
    }
    match (real.head(), spec.head()) {
        (Some("ext-err"), Some("ill-formed")) => None,
        (Some("ext-err"), _) => Some(("ext-err-unexpected".into(), format!("import lines are well-formed but the code reports {real}"))),
        (_, Some("ill-formed")) => Some(("ext-err-missing".into(), format!("`*` is combined with other targets for one path but the code answers {real}"))),
        (Some("panic"), _) => Some(("panic".into(), format!("the code panics; reference answer {spec}"))),
        (Some("err"), Some("err")) => None,
        (Some("err"), _) => Some(("err-unexpected".into(), format!("no dangling file and no missing name, but the code reports {real}"))),
        (Some("ok"), Some("err")) => Some(("err-missing".into(), format!("a reachable import line is dangling or names a missing fragment, but the code succeeds with {real}"))),
        (Some("ok"), Some("set")) => {
            let (r, s) = (sorted_items(real), sorted_items(spec));
            if r == s {
                return None;
            }
            let rs: BTreeSet<_> = r.iter().cloned().collect();
            let ss: BTreeSet<_> = s.iter().cloned().collect();
            let lost: Vec<_> = ss.difference(&rs).map(|x| x.to_line()).collect();
            let extra: Vec<_> = rs.difference(&ss).map(|x| x.to_line()).collect();
            if !lost.is_empty() {
                Some(("lost".into(), format!("requested definitions missing from the result: {}", lost.join(" "))))
            } else if !extra.is_empty() {
                Some(("extra".into(), format!("definitions nobody requested (or the root's own) were appended: {}", extra.join(" "))))
            } else {
                Some(("dup".into(), format!("a definition is appended more than once: {real}")))
            }
        }
        _ => Some(("bad-answer".into(), format!("real {real} spec {spec}"))),
    }
}

enum Pred {
    Oracle(String),
    Order,
    /// a verdict class of the CLI leg (with the documents glob used)
    Cli(String, usize),
}

/// the case with the import lines of every file in reverse order
fn reversed(case: &Case) -> Case {
    let mut c = case.clone();
    for f in c.files.iter_mut() {
        f.lines.reverse();
    }
    c
}

/// equal as far as order independence demands: the same definitions, or an error in both
fn same_modulo_order(ra: &Sexp, rb: &Sexp) -> bool {
    match (ra.head(), rb.head()) {
        (Some("ok"), Some("ok")) => sorted_items(ra) == sorted_items(rb),
        (Some("ok"), _) | (_, Some("ok")) => false,
        // which error is reported may depend on the order; that one is reported may not
        (Some("ext-err"), Some("ext-err")) => true,
        (Some("ext-err"), _) | (_, Some("ext-err")) => false,
        (Some("panic"), Some("panic")) => true,
        (Some("panic"), _) | (_, Some("panic")) => false,
        _ => true,
    }
}

struct Ctx<'a> {
    rep: &'a mut Report,
    drv: &'a mut Driver,
    real: Real,
    shrunk: BTreeMap<String, usize>,
    legacy: bool,
    pending: Vec<(Case, bool)>,
    cli: Option<cli_leg::CliEnv>,
}

impl<'a> Ctx<'a> {
    fn answers(&mut self, case: &Case) -> (Sexp, bool, Sexp, Sexp) {
        let ans = self.drv.one(&request(case));
        let (real, own) = self.real.run(case);
        let a = ans.args();
        let model = a.get(if self.legacy { 1 } else { 0 }).cloned().unwrap_or(Sexp::atom("none"));
        let spec = a.get(2).cloned().unwrap_or(Sexp::atom("none"));
        (real, own, model, spec)
    }

    /// does the failure (an O class, or order dependence against the line-reversed twin) show on this case?
    fn holds(&mut self, pred: &Pred, c: &Case) -> bool {
        match pred {
            Pred::Oracle(coarse) => {
                let (real, own, _, spec) = self.answers(c);
                matches!(oracle(&real, own, &spec), Some((k, _)) if &k == coarse)
            }
            Pred::Order => {
                let (ra, _) = self.real.run(c);
                let (rb, _) = self.real.run(&reversed(c));
                !same_modulo_order(&ra, &rb)
            }
            Pred::Cli(class, glob) => self.holds_cli(class, *glob, c),
        }
    }

    /// greedy shrink of an O failure keeping its class
    fn shrink(&mut self, case: &Case, pred: &Pred) -> Case {
        let mut cur = case.clone();
        let still = |ctx: &mut Ctx, c: &Case| -> bool { ctx.holds(pred, c) };
        loop {
            let mut progressed = false;
            // drop a whole non-root file that nobody's lines would then dangle on: remove lines pointing to it too
            let mut cands: Vec<Case> = vec![];
            for i in (0..cur.files.len()).rev() {
                if i == cur.root {
                    continue;
                }
                let sh = shape(&cur);
                let mut c = cur.clone();
                for (q, f) in c.files.iter_mut().enumerate() {
                    let mut k = 0;
                    f.lines.retain(|_| {
                        let keep = sh.targets[q][k] != Some(i);
                        k += 1;
                        keep
                    });
                }
                c.files.remove(i);
                if c.root > i {
                    c.root -= 1;
                }
                cands.push(c);
            }
            for (fi, f) in cur.files.iter().enumerate() {
                for li in 0..f.lines.len() {
                    let mut c = cur.clone();
                    c.files[fi].lines.remove(li);
                    cands.push(c);
                    for ti in 0..f.lines[li].targets.len() {
                        if f.lines[li].targets.len() > 1 {
                            let mut c = cur.clone();
                            c.files[fi].lines[li].targets.remove(ti);
                            cands.push(c);
                        }
                    }
                }
                if !f.defs.is_empty() {
                    let mut c = cur.clone();
                    c.files[fi].defs.pop();
                    cands.push(c);
                }
            }
            for c in cands {
                // an empty text is not a document
                if c.files.iter().any(|f| f.lines.is_empty() && f.defs.is_empty()) {
                    continue;
                }
                if still(self, &c) {
                    cur = c;
                    progressed = true;
                    break;
                }
            }
            if !progressed {
                return cur;
            }
        }
    }

    fn check(&mut self, case: &Case, count_features: bool) {
        self.pending.push((case.clone(), count_features));
        if self.pending.len() >= 4000 {
            self.flush();
        }
    }

    /// evaluate the queued cases: one driver batch, then the comparisons
    fn flush(&mut self) {
        let pending = std::mem::take(&mut self.pending);
        if pending.is_empty() {
            return;
        }
        let reqs: Vec<Sexp> = pending.iter().map(|(c, _)| request(c)).collect();
        let answers = self.drv.batch(&reqs);
        for ((case, count_features), ans) in pending.iter().zip(answers) {
            let (real, own) = self.real.run(case);
            let a = ans.args();
            let model = a.get(if self.legacy { 1 } else { 0 }).cloned().unwrap_or(Sexp::atom("none"));
            let spec = a.get(2).cloned().unwrap_or(Sexp::atom("none"));
            self.check_one(case, *count_features, real, own, model, spec);
        }
    }

    fn check_one(&mut self, case: &Case, count_features: bool, real: Sexp, own: bool, model: Sexp, spec: Sexp) {
        self.rep.evaluations += 1;
        if count_features {
            features(case, self.rep);
        }
        // K: model vs code
        self.rep.k_cases += 1;
        if real != model {
            let sig = format!("{}-vs-{}", real.head().unwrap_or("?"), model.head().unwrap_or("?"));
            self.rep.fail("K", &sig, &format!("code {real} ≠ model {model}"), case.to_json());
        }
        // O: spec vs code
        self.rep.o_cases += 1;
        self.rep.count(&format!("answer:{}", real.head().unwrap_or("?")));
        if let Some((coarse, what)) = oracle(&real, own, &spec) {
            let n = *self.shrunk.get(&coarse).unwrap_or(&0);
            self.rep.count(&format!("o-fail-unshrunk:{coarse}"));
            if n < 25 {
                self.shrunk.insert(coarse.clone(), n + 1);
                let small = self.shrink(case, &Pred::Oracle(coarse.clone()));
                let (r2, o2, _, s2) = self.answers(&small);
                let what2 = oracle(&r2, o2, &s2).map(|x| x.1).unwrap_or(what);
                let sig = format!("{coarse}:{}", shape_class(&small));
                self.rep.fail("O", &sig, &what2, small.to_json());
            }
        }
        if count_features || self.rep.evaluations % 8 == 0 {
            let sh = shape(case);
            if sh.reachable.len() >= 2 {
                self.rep.nontrivial(&case.text_key());
            }
        }
    }

    /// order independence on the real code: `b` is `a` with import lines permuted
    fn check_perm(&mut self, a: &Case, b: &Case) {
        let (ra, _) = self.real.run(a);
        let (rb, _) = self.real.run(b);
        self.rep.o_cases += 1;
        self.rep.count("o:order-independence-pairs");
        if !same_modulo_order(&ra, &rb) {
            let n = *self.shrunk.get("order").unwrap_or(&0);
            self.rep.count("o-fail-unshrunk:order");
            if n < 25 {
                self.shrunk.insert("order".into(), n + 1);
                if self.holds(&Pred::Order, a) {
                    let small = self.shrink(a, &Pred::Order);
                    let twin = reversed(&small);
                    let (sa, _) = self.real.run(&small);
                    let (sb, _) = self.real.run(&twin);
                    let sig = format!("order:{}", shape_class(&small));
                    self.rep.fail("O", &sig, &format!("reversing the import lines changes the result: {sa} vs {sb}"),
                        json!({"perm_of": small.to_json(), "permuted": twin.to_json()}));
                } else {
                    self.rep.fail("O", "order:unshrunk", &format!("permuting import lines changes the result: {ra} vs {rb}"),
                        json!({"perm_of": a.to_json(), "permuted": b.to_json()}));
                }
            }
        }
    }
}

// ------------------------------------------------------------------------------------------------ generators

const PATHS: [&str; 8] = ["/p/m.graphql", "/p/x.graphql", "/p/d/y.graphql", "/q/z.graphql", "/p/d/e/u.graphql", "/v.graphql", "/q/w.graphql", "/p/d/t.graphql"];

fn split(p: &str) -> Vec<&str> {
    p.split('/').filter(|s| !s.is_empty()).collect()
}

/// a relative spelling of `to` as seen from the file `from`; style 0 = canonical, others are respellings
fn rel_spelling(from: &str, to: &str, style: usize) -> String {
    let f = split(from);
    let t = split(to);
    let fdir = &f[..f.len() - 1];
    let mut n = 0;
    while n < fdir.len() && n < t.len() - 1 && fdir[n] == t[n] {
        n += 1;
    }
    let ups = fdir.len() - n;
    let down = t[n..].join("/");
    let canonical = if ups == 0 { format!("./{down}") } else { format!("{}{down}", "../".repeat(ups)) };
    match style {
        1 => {
            // detour through a directory that need not exist
            if ups == 0 { format!("./zz/../{down}") } else { format!("{}zz/../{down}", "../".repeat(ups)) }
        }
        2 if !fdir.is_empty() => {
            // one level further up and back down through the real directory name
            let back = fdir[..n.max(1).min(fdir.len())].last().copied().unwrap_or("p");
            if n >= 1 && n <= fdir.len() {
                format!("{}{}/{down}", "../".repeat(ups + 1), back)
            } else {
                canonical
            }
        }
        3 if ups == 0 => down,
        4 => format!("././{}", canonical.trim_start_matches("./")),
        _ => canonical,
    }
}

fn base_file(i: usize, nfrag: usize, is_root: bool) -> FileG {
    let mut defs: Vec<Option<u32>> = vec![];
    if is_root || nfrag == 0 {
        // the root has an operation; a file without fragments must still contain a definition to be a document
        defs.push(None);
    }
    for k in 0..nfrag {
        defs.push(Some(k as u32));
    }
    FileG { path: PATHS[i].to_string(), lines: vec![], defs }
}

/// option of an edge: 0 = `*`, 1 = `N0`, 2 = `N1`, 3 = `N0, N1`
fn option_targets(o: usize) -> Vec<Option<u32>> {
    match o {
        0 => vec![None],
        1 => vec![Some(0)],
        2 => vec![Some(1)],
        _ => vec![Some(0), Some(1)],
    }
}

/// all graphs over `n` files with at most `max_edges` import lines (one per ordered pair, self-imports included)
fn enumerate(n: usize, max_edges: usize, nfrags: &[usize], f: &mut dyn FnMut(Case)) {
    let pairs: Vec<(usize, usize)> = (0..n).flat_map(|a| (0..n).map(move |b| (a, b))).collect();
    fn rec(pairs: &[(usize, usize)], start: usize, left: usize, chosen: &mut Vec<((usize, usize), usize)>, n: usize, nfrags: &[usize], f: &mut dyn FnMut(Case)) {
        let mut files: Vec<FileG> = (0..n).map(|i| base_file(i, nfrags[i], i == 0)).collect();
        for ((a, b), o) in chosen.iter() {
            files[*a].lines.push(Line { rel: rel_spelling(PATHS[*a], PATHS[*b], 0), targets: option_targets(*o) });
        }
        f(Case { files, root: 0, root_registered: true });
        if left == 0 {
            return;
        }
        for k in start..pairs.len() {
            for o in 0..4 {
                chosen.push((pairs[k], o));
                rec(pairs, k + 1, left - 1, chosen, n, nfrags, f);
                chosen.pop();
            }
        }
    }
    rec(&pairs, 0, max_edges, &mut vec![], n, nfrags, f);
}

/// random decorations: respelled paths, repeated / split / permuted lines, repeated names, dangling files, missing names
fn decorate(case: &Case, rng: &mut Rng) -> Case {
    let mut c = case.clone();
    let n = 1 + rng.below(3);
    for _ in 0..n {
        let fi = rng.below(c.files.len());
        let nl = c.files[fi].lines.len();
        match rng.below(9) {
            0 if nl > 0 => {
                // respell one line's path
                let li = rng.below(nl);
                let sh = shape(&c);
                if let Some(t) = sh.targets[fi][li] {
                    let style = 1 + rng.below(4);
                    c.files[fi].lines[li].rel = rel_spelling(&c.files[fi].path.clone(), &c.files[t].path.clone(), style);
                }
            }
            1 if nl > 0 => {
                // repeat a line (same literal: merged; may repeat names)
                let li = rng.below(nl);
                let l = c.files[fi].lines[li].clone();
                let at = rng.below(nl + 1);
                c.files[fi].lines.insert(at, l);
            }
            2 if nl > 0 => {
                // a second line to the same file under another spelling, asking for something else
                let li = rng.below(nl);
                let sh = shape(&c);
                if let Some(t) = sh.targets[fi][li] {
                    let style = 1 + rng.below(4);
                    let rel = rel_spelling(&c.files[fi].path.clone(), &c.files[t].path.clone(), style);
                    let targets = option_targets(rng.below(4));
                    c.files[fi].lines.push(Line { rel, targets });
                }
            }
            3 if nl > 0 => {
                // split a multi-target line in two
                let li = rng.below(nl);
                if c.files[fi].lines[li].targets.len() > 1 {
                    let t = c.files[fi].lines[li].targets.pop().unwrap();
                    let rel = c.files[fi].lines[li].rel.clone();
                    c.files[fi].lines.push(Line { rel, targets: vec![t] });
                }
            }
            4 if nl > 0 => {
                // repeat a name within a line
                let li = rng.below(nl);
                let t = *rng.pick(&c.files[fi].lines[li].targets);
                if t.is_some() {
                    c.files[fi].lines[li].targets.push(t);
                }
            }
            5 => {
                let mut ls = std::mem::take(&mut c.files[fi].lines);
                rng.shuffle(&mut ls);
                c.files[fi].lines = ls;
            }
            6 => {
                // a dangling import
                let targets = option_targets(rng.below(4));
                let at = rng.below(nl + 1);
                c.files[fi].lines.insert(at, Line { rel: "./nowhere.graphql".into(), targets });
            }
            7 if nl > 0 => {
                // a name the target does not define
                let li = rng.below(nl);
                if !c.files[fi].lines[li].targets.contains(&None) {
                    c.files[fi].lines[li].targets.push(Some(7));
                }
            }
            8 if nl > 0 => {
                // `*` next to a name (ill-formed)
                if rng.chance(1, 4) {
                    let li = rng.below(nl);
                    c.files[fi].lines[li].targets.push(None);
                }
            }
            _ => {}
        }
    }
    if rng.chance(1, 12) {
        c.root_registered = false;
    }
    c
}

fn permuted(case: &Case, rng: &mut Rng) -> Case {
    let mut c = case.clone();
    for f in c.files.iter_mut() {
        rng.shuffle(&mut f.lines);
    }
    c
}

fn random_case(rng: &mut Rng) -> Case {
    let n = 1 + rng.below(8);
    let pool = 1 + rng.below(4) as u32;
    let mut order: Vec<usize> = (0..8).collect();
    rng.shuffle(&mut order);
    let mut files: Vec<FileG> = vec![];
    for i in 0..n {
        let mut defs = vec![];
        let nd = rng.below(4);
        for _ in 0..nd {
            if rng.chance(1, 6) {
                defs.push(None);
            } else {
                defs.push(Some(rng.below(pool as usize) as u32));
            }
        }
        if defs.is_empty() {
            defs.push(Some(0));
        }
        files.push(FileG { path: PATHS[order[i]].to_string(), lines: vec![], defs });
    }
    let root = rng.below(n);
    files[root].defs.insert(0, None);
    for i in 0..n {
        let nl = if rng.chance(1, 5) { 0 } else { 1 + rng.below(4) };
        for _ in 0..nl {
            let t = rng.below(n);
            let rel = if rng.chance(1, 25) { "../gone.graphql".to_string() } else {
                let style = if rng.chance(2, 3) { 0 } else { 1 + rng.below(4) };
                rel_spelling(&files[i].path, &files[t].path, style)
            };
            let mut targets = vec![];
            if rng.chance(1, 4) {
                targets.push(None);
                if rng.chance(1, 30) {
                    targets.push(Some(0));
                }
            } else {
                let frags: Vec<u32> = files[t].defs.iter().flatten().copied().collect();
                let k = 1 + rng.below(3);
                for _ in 0..k {
                    if !frags.is_empty() && !rng.chance(1, 20) {
                        targets.push(Some(*rng.pick(&frags)));
                    } else if rng.chance(1, 3) {
                        targets.push(Some(rng.below(pool as usize + 1) as u32));
                    }
                }
                if targets.is_empty() {
                    targets.push(Some(frags.first().copied().unwrap_or(0)));
                }
                // keep accidental repeats rare but present
                if !rng.chance(1, 8) {
                    let mut seen = BTreeSet::new();
                    targets.retain(|t| seen.insert(*t));
                }
            }
            files[i].lines.push(Line { rel, targets });
        }
    }
    let mut c = Case { files, root, root_registered: !rng.chance(1, 15) };
    if rng.chance(1, 20) {
        // the root is given under an unnormalised path (the resolver knows it under the same spelling)
        let p = c.files[root].path.clone();
        let parts = split(&p);
        if parts.len() >= 2 {
            c.files[root].path = format!("/{}/./{}", parts[..parts.len() - 1].join("/"), parts[parts.len() - 1]);
        }
    }
    c
}

fn corpus() -> Vec<Case> {
    let l = |rel: &str, t: &[i32]| Line { rel: rel.into(), targets: t.iter().map(|x| if *x < 0 { None } else { Some(*x as u32) }).collect() };
    let f = |path: &str, lines: Vec<Line>, defs: &[i32]| FileG { path: path.into(), lines, defs: defs.iter().map(|x| if *x < 0 { None } else { Some(*x as u32) }).collect() };
    vec![
        // §9-ad diamond: main imports N2 from y and N0 from x; y imports N1 from x
        Case { root: 0, root_registered: true, files: vec![
            f("/p/m.graphql", vec![l("./y.graphql", &[2]), l("./x.graphql", &[0])], &[-1]),
            f("/p/x.graphql", vec![], &[0, 1]),
            f("/p/y.graphql", vec![l("./x.graphql", &[1])], &[2]) ] },
        // §9-ae cycle through the root
        Case { root: 0, root_registered: true, files: vec![
            f("/p/m.graphql", vec![l("./x.graphql", &[1])], &[-1, 0]),
            f("/p/x.graphql", vec![l("./m.graphql", &[0])], &[1]) ] },
        // self import of the root
        Case { root: 0, root_registered: true, files: vec![f("/p/m.graphql", vec![l("./m.graphql", &[-1])], &[-1, 0])] },
        // §9-af `#import N0, N0 from …`
        Case { root: 0, root_registered: true, files: vec![
            f("/p/m.graphql", vec![l("./x.graphql", &[0, 0])], &[-1]),
            f("/p/x.graphql", vec![], &[0]) ] },
        // the same name on two lines with the same literal
        Case { root: 0, root_registered: true, files: vec![
            f("/p/m.graphql", vec![l("./x.graphql", &[0]), l("./x.graphql", &[0])], &[-1]),
            f("/p/x.graphql", vec![], &[0]) ] },
        // two spellings of one file in one document
        Case { root: 0, root_registered: true, files: vec![
            f("/p/m.graphql", vec![l("./x.graphql", &[0]), l("./zz/../x.graphql", &[1])], &[-1]),
            f("/p/x.graphql", vec![], &[0, 1]) ] },
        // a missing name hidden behind an already visited file
        Case { root: 0, root_registered: true, files: vec![
            f("/p/m.graphql", vec![l("./x.graphql", &[0]), l("../p/x.graphql", &[5])], &[-1]),
            f("/p/x.graphql", vec![], &[0]) ] },
        // the existing tests: transitive, wildcard, recursion away from the root, import twice, errors
        Case { root: 0, root_registered: true, files: vec![
            f("/p/m.graphql", vec![l("./x.graphql", &[0])], &[-1]),
            f("/p/x.graphql", vec![l("./d/y.graphql", &[1])], &[0]),
            f("/p/d/y.graphql", vec![], &[1]) ] },
        Case { root: 0, root_registered: true, files: vec![
            f("/p/m.graphql", vec![l("./x.graphql", &[-1])], &[-1]),
            f("/p/x.graphql", vec![], &[0, 1]) ] },
        Case { root: 0, root_registered: true, files: vec![
            f("/p/m.graphql", vec![l("./x.graphql", &[0])], &[-1]),
            f("/p/x.graphql", vec![l("y.graphql", &[1])], &[0]),
            f("/p/y.graphql", vec![l("x.graphql", &[0])], &[1]) ] },
        Case { root: 0, root_registered: true, files: vec![
            f("/p/m.graphql", vec![l("./x.graphql", &[0]), l("./x.graphql", &[1])], &[-1]),
            f("/p/x.graphql", vec![], &[0, 1]) ] },
        Case { root: 0, root_registered: true, files: vec![f("/p/m.graphql", vec![l("./nonexistent.graphql", &[0])], &[-1])] },
        Case { root: 0, root_registered: true, files: vec![
            f("/p/m.graphql", vec![l("./x.graphql", &[9])], &[-1]),
            f("/p/x.graphql", vec![], &[0]) ] },
        // wildcard rules of the extension resolver
        Case { root: 0, root_registered: true, files: vec![
            f("/p/m.graphql", vec![l("./x.graphql", &[-1]), l("./x.graphql", &[-1])], &[-1]),
            f("/p/x.graphql", vec![], &[0]) ] },
        Case { root: 0, root_registered: true, files: vec![
            f("/p/m.graphql", vec![l("./x.graphql", &[0, -1])], &[-1]),
            f("/p/x.graphql", vec![], &[0]) ] },
        // duplicate fragment names inside one imported file: both definitions are imported, once each
        Case { root: 0, root_registered: true, files: vec![
            f("/p/m.graphql", vec![l("./x.graphql", &[0]), l("./zz/../x.graphql", &[-1])], &[-1]),
            f("/p/x.graphql", vec![], &[0, 0, -1, 1]) ] },
    ]
}

fn main() {
    let args = Args::parse();
    if std::env::var("NV_LOUD").is_err() {
        quiet_panics();
    }
    let mut rep = Report::new("C13", "import graphs (files × raw #import lines × definitions, one root); bounded-exhaustive over ≤3 (quick) / ≤4 (thorough) files with ≤2 fragments and ≤4 import lines (one per ordered pair incl. self; *, N0, N1, N0+N1), each also with random decorations (respelled paths, repeated/split/permuted lines, repeated names, dangling files, missing names), plus random graphs of ≤8 files; CLI leg: ~200 (quick) / ~1700 (thorough) of these graphs as projects through `nitrogql-cli check generate` (skeleton × broken-line placement families over 2–3 documents, samples of the ≤3-file family and of the random graphs with broken lines sprinkled in); non-trivial = at least two files reachable from the root (distinct by canonical JSON)");
    let mut drv = Driver::spawn(&args.driver);
    let legacy = args.extra.get("legacy").map(|s| s == "1").unwrap_or(false);
    let cli = cli_leg::locate_cli(&args, &mut rep);
    let mut ctx = Ctx { rep: &mut rep, drv: &mut drv, real: Real { cache: HashMap::new() }, shrunk: BTreeMap::new(), legacy, pending: vec![], cli };

    if let Some(path) = &args.replay {
        let v: Value = serde_json::from_str(&std::fs::read_to_string(path).expect("replay file")).expect("replay json");
        let c = &v["case"];
        if c.get("cli_project").is_some() {
            let case = Case::from_json(&c["cli_project"]).expect("case");
            ctx.check_project(&case, c["glob"].as_u64().unwrap_or(0) as usize);
        } else if c.get("perm_of").is_some() {
            let a = Case::from_json(&c["perm_of"]).expect("case");
            let b = Case::from_json(&c["permuted"]).expect("case");
            ctx.check(&a, true);
            ctx.check(&b, true);
            ctx.check_perm(&a, &b);
        } else {
            let case = Case::from_json(c).expect("case");
            ctx.check(&case, true);
        }
        ctx.flush();
        rep.write(&args);
        return;
    }

    let mut rng = Rng::new(args.seed);
    let search = args.extra.get("search").map(|s| s == "1").unwrap_or(false);

    // corpus first
    for c in corpus() {
        ctx.check(&c, true);
        let p = permuted(&c, &mut rng);
        ctx.check_perm(&c, &p);
    }
    ctx.rep.sample(corpus()[0].to_json());

    // CLI leg: import graphs as projects through the built binary (its own random stream)
    {
        let mut crng = Rng::new(args.seed ^ 0xC13C_11);
        cli_leg::run_leg(&mut ctx, &mut crng, args.thorough() || search);
    }

    // bounded-exhaustive part
    let thorough = args.thorough() || search;
    let plans: Vec<(usize, usize, Vec<usize>)> = if thorough {
        vec![(1, 1, vec![2]), (2, 4, vec![2, 2]), (2, 4, vec![1, 2]), (3, 4, vec![2, 2, 2]), (3, 4, vec![1, 2, 0]), (3, 5, vec![2, 1, 2]),
             (4, 3, vec![2, 2, 2, 2]), (4, 4, vec![2, 2, 1, 2])]
    } else {
        vec![(1, 1, vec![2]), (2, 4, vec![2, 2]), (2, 4, vec![1, 2]), (3, 4, vec![2, 2, 2]), (3, 3, vec![1, 2, 0]), (4, 2, vec![2, 2, 1, 2])]
    };
    let deco_every = if thorough { 2 } else { 4 };
    let mut k = 0usize;
    for (n, max_edges, nfrags) in &plans {
        let mut cases = vec![];
        enumerate(*n, *max_edges, nfrags, &mut |c| cases.push(c));
        ctx.rep.count_n(&format!("exhaustive:n={n},edges<={max_edges},frags={nfrags:?}"), cases.len() as u64);
        for c in cases {
            k += 1;
            ctx.check(&c, k % 16 == 0);
            if k % deco_every == 0 {
                let d = decorate(&c, &mut rng);
                ctx.check(&d, true);
                if k % (deco_every * 4) == 0 {
                    let p = permuted(&d, &mut rng);
                    ctx.check_perm(&d, &p);
                }
            }
        }
    }

    // random graphs up to 8 files
    let nrand = args.budget(15000, 150000);
    for i in 0..nrand {
        let c = random_case(&mut rng);
        if i < 2 {
            ctx.rep.sample(c.to_json());
        }
        ctx.check(&c, true);
        if i % 4 == 0 {
            let p = permuted(&c, &mut rng);
            ctx.check(&p, false);
            ctx.check_perm(&c, &p);
        }
    }
    ctx.flush();
    rep.exhaustive = true;
    rep.write(&args);
}
