//! C19 — loader tasks are isolated and safe under any call sequence.
//!
//! The real ABI functions (`loader_native::*` = /repo/crates/graphql-loader/src/main.rs compiled natively)
//! run in CHILD PROCESSES (`c19 --worker`, see c19/worker.rs): a panic inside an `extern "C"` function
//! aborts the process, and the loader's state is thread-local (fresh thread = fresh instance).
//!
//! K: every response of every call of a history, real code vs the Lean model (lean/Driver/C19.lean).
//!    Emission is abstract in the model (a token naming the files the module may depend on); the token is
//!    realised by a FRESH real task that is given exactly those files.
//! O: the property on the real code with the harness' own bookkeeping (no model involved): no trap,
//!    fresh increasing ids, unknown ids answer "Task not found", required files are exact, emit equals
//!    the emit of a fresh task with the same files, per-task projections answer identically (isolation),
//!    and the std `len == capacity` behaviours the loader's raw-parts code relies on.
use nvh::*;
use serde_json::{json, Value};
use std::collections::{BTreeMap, BTreeSet, HashMap, HashSet};
use std::path::Path;

#[path = "c19/pool.rs"]
mod pool;
#[path = "c19/worker.rs"]
mod worker;
#[path = "c19/concrete.rs"]
mod concrete;
#[path = "c19/checkalloc.rs"]
mod checkalloc;

/// checks allocator discipline in the `--worker` children (where the loader's real code runs); switched off in the parent
#[global_allocator]
static GLOBAL: checkalloc::Checking = checkalloc::Checking;
use pool::{Cfg, RealResp, WorkerPool};

macro_rules! rep4 {
    ($s:expr) => {
        concat!($s, $s, $s, $s)
    };
}
/// a long source: 1024 fields (≈ 4 KB; a history that parses and emits it costs ≈ 10 ordinary ones, so it is drawn rarely)
const LONG: &str = concat!("query Long { ", rep4!(rep4!(rep4!(rep4!(rep4!("abc "))))), "}");
const LONG_IX: usize = 15;

const POOL: [&str; 19] = [
    "query Q { a }",
    "#import F from \"./f.graphql\"\nquery Q { ...F }",
    "#import G from \"./g.graphql\"\nfragment F on T { x ...G }",
    "fragment G on T { y }",
    "query {",
    "query Q { ...Missing }",
    "fragment F on T { z }",
    "#import * from \"../p/g.graphql\"\n#import F from \"./f.graphql\"\nquery R { ...F ...G }",
    "#import * from \"./f.graphql\"\n#import * from \"./f.graphql\"\nquery Q { a }",
    "#import F from \"./f.graphql\"\nfragment G on T { y ...F }",
    // 10… texts as they come out of checkouts and editors: CRLF / mixed / lone CR line terminators (also inside block
    // strings), a byte-order mark, non-ASCII characters, a long text, an empty and a blank text
    "#import F from \"./f.graphql\"\r\nquery Q {\r\n  ...F\r\n}\r\n",
    "fragment F on T {\r\n  z\r\n}\r\n",
    "fragment F on T {\r\n  x(a: \"\"\"l1\r\nl2\nl3\rl4\"\"\")\n}\r",
    "\u{FEFF}query Q { a }",
    "# caf\u{e9} \u{2603} \u{1d4b3}\nquery Q { a(s: \"h\u{e9}llo \u{2603} \u{1d4b3}\") }\r\n",
    LONG,
    "",
    " \r\n\t\r\n",
    "#import G from \"./g.graphql\"\r\nfragment F on T { x ...G }\n# trailing comment\r\n",
];
const PATHS: [&str; 5] = ["/p/op.graphql", "/p/f.graphql", "/p/g.graphql", "/q/op.graphql", "/q/f.graphql"];

const RULE: &str = "a history is non-trivial if it issues ≥ 2 task ids and addresses at least two of them after both exist, or addresses a freed or never-issued id, or re-supplies a path already loaded in a task";

#[derive(Clone, Copy, PartialEq, Eq, Hash, Debug, PartialOrd, Ord)]
pub enum Op {
    /// initiate_task(path index, source index)
    I(usize, usize),
    /// get_required_files(task)
    R(usize),
    /// load_file(task, path index, source index)
    L(usize, usize, usize),
    /// emit_js(task)
    E(usize),
    /// free_task(task)
    F(usize),
    /// get_result_ptr/size
    G,
}
pub type History = Vec<Op>;

impl Op {
    fn json(&self) -> Value {
        match *self {
            Op::I(p, s) => json!(["I", p, s]),
            Op::R(t) => json!(["R", t]),
            Op::L(t, p, s) => json!(["L", t, p, s]),
            Op::E(t) => json!(["E", t]),
            Op::F(t) => json!(["F", t]),
            Op::G => json!(["G"]),
        }
    }
    fn from_json(v: &Value) -> Option<Op> {
        let n = |i: usize| v.get(i).and_then(|x| x.as_u64()).map(|x| x as usize);
        Some(match v.get(0)?.as_str()? {
            "I" => Op::I(n(1)?, n(2)?),
            "R" => Op::R(n(1)?),
            "L" => Op::L(n(1)?, n(2)?, n(3)?),
            "E" => Op::E(n(1)?),
            "F" => Op::F(n(1)?),
            "G" => Op::G,
            _ => return None,
        })
    }
    fn text(&self) -> String {
        match *self {
            Op::I(p, s) => format!("I({p},{s})"),
            Op::R(t) => format!("R{t}"),
            Op::L(t, p, s) => format!("L({t},{p},{s})"),
            Op::E(t) => format!("E{t}"),
            Op::F(t) => format!("F{t}"),
            Op::G => "G".to_string(),
        }
    }
    fn kind(&self) -> &'static str {
        match self {
            Op::I(..) => "initiate",
            Op::R(_) => "required",
            Op::L(..) => "load",
            Op::E(_) => "emit",
            Op::F(_) => "free",
            Op::G => "result",
        }
    }
    fn target(&self) -> Option<usize> {
        match *self {
            Op::R(t) | Op::L(t, _, _) | Op::E(t) | Op::F(t) => Some(t),
            _ => None,
        }
    }
    fn sexp(&self) -> Sexp {
        match *self {
            Op::I(p, s) => Sexp::call("init", vec![Sexp::str(PATHS[p]), Sexp::int(s as i128)]),
            Op::R(t) => Sexp::call("req", vec![Sexp::int(t as i128)]),
            Op::L(t, p, s) => Sexp::call("load", vec![Sexp::int(t as i128), Sexp::str(PATHS[p]), Sexp::int(s as i128)]),
            Op::E(t) => Sexp::call("emit", vec![Sexp::int(t as i128)]),
            Op::F(t) => Sexp::call("free", vec![Sexp::int(t as i128)]),
            Op::G => Sexp::call("res", vec![]),
        }
    }
}

pub fn hist_json(h: &History) -> String {
    let mut s = String::with_capacity(h.len() * 12 + 2);
    s.push('[');
    for (i, op) in h.iter().enumerate() {
        if i > 0 {
            s.push(',');
        }
        match *op {
            Op::I(p, x) => s.push_str(&format!("[\"I\",{p},{x}]")),
            Op::R(t) => s.push_str(&format!("[\"R\",{t}]")),
            Op::L(t, p, x) => s.push_str(&format!("[\"L\",{t},{p},{x}]")),
            Op::E(t) => s.push_str(&format!("[\"E\",{t}]")),
            Op::F(t) => s.push_str(&format!("[\"F\",{t}]")),
            Op::G => s.push_str("[\"G\"]"),
        }
    }
    s.push(']');
    s
}

fn hist_text(h: &History) -> String {
    h.iter().map(|o| o.text()).collect::<Vec<_>>().join(" ")
}

fn case_json(h: &History) -> Value {
    json!({ "ops": h.iter().map(|o| o.json()).collect::<Vec<_>>() })
}

fn case_from_json(v: &Value) -> Option<History> {
    v.get("ops")?.as_array()?.iter().map(Op::from_json).collect()
}

/// parse result of a pool source, computed with the REAL parser directly (not via the loader)
type ParseInfo = Result<Vec<String>, u32>;

fn parse_info(src: &str) -> ParseInfo {
    let doc = match nitrogql_parser::parse_operation_document(src) {
        Ok(d) => d,
        Err(_) => return Err(1),
    };
    match nitrogql_semantics::resolve_operation_extensions(doc) {
        Err(_) => Err(2),
        Ok((_, ext)) => Ok(ext.imports.iter().map(|i| i.path.value.clone()).collect()),
    }
}

fn src_class(s: usize) -> &'static str {
    match s {
        0 | 3 | 6 => "valid",
        1 | 2 | 7 | 9 => "import",
        4 | 8 => "invalid",
        5 => "missing-fragment",
        10..=18 => "odd-text",
        _ => "n/a",
    }
}

fn resolve(from: &str, imp: &str) -> String {
    nitrogql_utils::resolve_relative_path(Path::new(from), Path::new(imp)).to_string_lossy().into_owned()
}

fn path_index(p: &str) -> Option<usize> {
    PATHS.iter().position(|x| *x == p)
}

// ---------------------------------------------------------------------------------------------
// the harness' own bookkeeping of what a history should have done (spec side of O; also used by the
// generators). Independent of the Lean model and of the loader.

#[derive(Clone, Debug)]
struct TaskBk {
    root: String,
    root_src_at_init: usize,
    files: BTreeMap<String, usize>,
}

#[derive(Clone, Copy, PartialEq, Eq, Debug)]
enum IdClass {
    Live,
    Freed,
    Never,
    NA,
}

impl IdClass {
    fn text(self) -> &'static str {
        match self {
            IdClass::Live => "live",
            IdClass::Freed => "freed",
            IdClass::Never => "never",
            IdClass::NA => "n/a",
        }
    }
}

struct Book<'a> {
    info: &'a [ParseInfo],
    ok_inits: usize,
    /// (id, index of the initiate that issued it)
    issued: Vec<(usize, usize)>,
    live: BTreeMap<usize, TaskBk>,
    freed: BTreeSet<usize>,
    has_result: bool,
    resupplied: bool,
    /// (id, op index) of every call addressed to an issued id
    addressed: Vec<(usize, usize)>,
    addressed_unknown: bool,
    at: usize,
}

impl<'a> Book<'a> {
    fn new(info: &'a [ParseInfo]) -> Book<'a> {
        Book {
            info,
            ok_inits: 0,
            issued: vec![],
            live: BTreeMap::new(),
            freed: BTreeSet::new(),
            has_result: false,
            resupplied: false,
            addressed: vec![],
            addressed_unknown: false,
            at: 0,
        }
    }
    fn class(&self, op: &Op) -> IdClass {
        match op.target() {
            None => IdClass::NA,
            Some(t) if self.live.contains_key(&t) => IdClass::Live,
            Some(t) if self.freed.contains(&t) => IdClass::Freed,
            Some(_) => IdClass::Never,
        }
    }
    /// source class relevant to the call: the supplied source, or (required/emit on a live task) the root's
    fn src_class(&self, op: &Op) -> &'static str {
        match *op {
            Op::I(_, s) | Op::L(_, _, s) => src_class(s),
            Op::R(t) | Op::E(t) => match self.live.get(&t) {
                Some(tk) => src_class(*tk.files.get(&tk.root).unwrap_or(&tk.root_src_at_init)),
                None => "n/a",
            },
            _ => "n/a",
        }
    }
    fn required(&self, t: usize) -> BTreeSet<String> {
        let mut out = BTreeSet::new();
        if let Some(tk) = self.live.get(&t) {
            for (from, s) in &tk.files {
                if let Ok(imps) = &self.info[*s] {
                    for imp in imps {
                        let p = resolve(from, imp);
                        if !tk.files.contains_key(&p) {
                            out.insert(p);
                        }
                    }
                }
            }
        }
        out
    }
    /// the history that gives a FRESH task exactly the bookkept files of `t` and emits
    fn fresh_history(&self, t: usize) -> Option<History> {
        let tk = self.live.get(&t)?;
        let mut h = vec![Op::I(path_index(&tk.root)?, *tk.files.get(&tk.root)?)];
        for (p, s) in &tk.files {
            if *p != tk.root {
                h.push(Op::L(1, path_index(p)?, *s));
            }
        }
        h.push(Op::E(1));
        Some(h)
    }
    fn apply(&mut self, op: &Op) {
        let at = self.at;
        self.at += 1;
        if let Some(t) = op.target() {
            if self.issued.iter().any(|(id, _)| *id == t) {
                self.addressed.push((t, at));
            }
            if !self.live.contains_key(&t) {
                self.addressed_unknown = true;
            }
        }
        match *op {
            Op::I(p, s) => {
                if self.info[s].is_ok() {
                    self.ok_inits += 1;
                    let id = self.ok_inits;
                    let mut files = BTreeMap::new();
                    files.insert(PATHS[p].to_string(), s);
                    self.live.insert(id, TaskBk { root: PATHS[p].to_string(), root_src_at_init: s, files });
                    self.issued.push((id, at));
                } else {
                    self.has_result = true;
                }
            }
            Op::R(_) | Op::E(_) => self.has_result = true,
            Op::L(t, p, s) => {
                let ok = self.info[s].is_ok();
                match self.live.get_mut(&t) {
                    Some(tk) => {
                        if tk.files.contains_key(PATHS[p]) {
                            self.resupplied = true;
                        }
                        if ok {
                            tk.files.insert(PATHS[p].to_string(), s);
                        } else {
                            self.has_result = true;
                        }
                    }
                    None => self.has_result = true,
                }
            }
            Op::F(t) => {
                if self.live.remove(&t).is_some() {
                    self.freed.insert(t);
                }
            }
            Op::G => {}
        }
    }
    fn nontrivial(&self) -> bool {
        if self.addressed_unknown || self.resupplied {
            return true;
        }
        // two distinct issued ids, both addressed after both exist
        for (b, issued_at) in &self.issued {
            let b_addr = self.addressed.iter().any(|(t, k)| t == b && k > issued_at);
            if !b_addr {
                continue;
            }
            for (a, a_issued) in &self.issued {
                if a == b || a_issued > issued_at {
                    continue;
                }
                if self.addressed.iter().any(|(t, k)| t == a && k > issued_at) {
                    return true;
                }
            }
        }
        false
    }
}

// ---------------------------------------------------------------------------------------------
// canonicalisation

fn classify_msg(msg: &str) -> Sexp {
    if msg == "Task not found" {
        Sexp::atom("notfound")
    } else if msg.starts_with("Parse error") {
        Sexp::call("src", vec![Sexp::int(1)])
    } else if msg.starts_with("Wildcard import") {
        Sexp::call("src", vec![Sexp::int(2)])
    } else {
        Sexp::call("other", vec![Sexp::str(msg)])
    }
}

fn files_sorted(text: &str) -> Vec<String> {
    let mut v: Vec<String> = text.split('\n').filter(|s| !s.is_empty()).map(|s| s.to_string()).collect();
    v.sort();
    v
}

fn files_sexp(text: &str) -> Sexp {
    Sexp::call("files", files_sorted(text).into_iter().map(Sexp::str).collect())
}

/// the real response in the model's shape
fn canon(r: &RealResp) -> Sexp {
    match r {
        RealResp::Id(n) => Sexp::call("id", vec![Sexp::int(*n as i128)]),
        RealResp::Fail(m) => Sexp::call("failed", vec![classify_msg(m)]),
        RealResp::Files(t) => files_sexp(t),
        RealResp::Ok => Sexp::call("loaded", vec![]),
        RealResp::Js(h, n) => Sexp::call("js-real", vec![Sexp::str(h.as_str()), Sexp::int(*n as i128)]),
        RealResp::Freed => Sexp::call("freed", vec![]),
        RealResp::Res(t, h) => Sexp::call("result-real", vec![Sexp::str(t.as_str()), Sexp::str(h.as_str())]),
        RealResp::Trap { .. } | RealResp::Dead => Sexp::call("trap", vec![]),
        RealResp::Bad(t) => Sexp::call("bad", vec![Sexp::str(t.as_str())]),
        // answers of the ops of stream `emit-concrete` (c19/concrete.rs); never produced for the histories of this file
        RealResp::Cfg(_) | RealResp::JsText(_) | RealResp::ResText(_) | RealResp::Leak(_) => Sexp::call("bad", vec![Sexp::str(r.to_json().to_string())]),
    }
}

/// equality of two real responses (file lists as sets: HashMap iteration order is not part of the contract)
fn resp_eq(a: &RealResp, b: &RealResp) -> bool {
    match (a, b) {
        (RealResp::Files(x), RealResp::Files(y)) => files_sorted(x) == files_sorted(y),
        (x, y) if x.is_trap() && y.is_trap() => true,
        (x, y) => x == y,
    }
}

fn show(r: &RealResp) -> String {
    r.to_json().to_string()
}

/// kind of an allocator-discipline violation in a worker's last words (`a alloc-violation kind=<kind> …`)
pub fn alloc_kind(why: &str) -> Option<&str> {
    let at = why.find("alloc-violation kind=")? + "alloc-violation kind=".len();
    let rest = &why[at..];
    Some(&rest[..rest.find(|c: char| c == ' ' || c == ';').unwrap_or(rest.len())])
}

/// history realising a model emission token `("root" ("path" i)|("path" missing) …)`
fn token_history(tok: &Sexp) -> Option<History> {
    let items = tok.as_list()?;
    let root = items.first()?.as_str()?;
    let mut root_src = None;
    let mut loads = vec![];
    for e in &items[1..] {
        let e = e.as_list()?;
        let p = e.first()?.as_str()?;
        let Some(i) = e.get(1)?.as_int() else { continue }; // `missing`
        if p == root {
            root_src = Some(i as usize);
        } else {
            loads.push(Op::L(1, path_index(p)?, i as usize));
        }
    }
    let mut h = vec![Op::I(path_index(root)?, root_src?)];
    h.extend(loads);
    h.push(Op::E(1));
    Some(h)
}

// ---------------------------------------------------------------------------------------------

#[derive(Clone, Debug)]
struct Finding {
    stream: &'static str,
    sig: String,
    what: String,
    at: usize,
}

#[derive(Clone)]
struct Item {
    h: History,
    kind: &'static str,
    iso: bool,
}

struct Ctx {
    rep: Report,
    drv: Driver,
    wp: WorkerPool,
    info: Vec<ParseInfo>,
    pool_sexp: Sexp,
    /// last response of a fresh `[I …, L 1 …, E 1]` history
    fresh: HashMap<History, RealResp>,
    shrink_runs: u64,
    samples_random: u32,
}

fn projection(h: &History, t: usize, issued_at: usize) -> (History, Vec<usize>) {
    let mut out = vec![];
    let mut pos = vec![];
    for (k, op) in h.iter().enumerate() {
        let keep = if k == issued_at { true } else { op.target() == Some(t) };
        if !keep {
            continue;
        }
        pos.push(k);
        out.push(match *op {
            Op::R(_) => Op::R(1),
            Op::L(_, p, s) => Op::L(1, p, s),
            Op::E(_) => Op::E(1),
            Op::F(_) => Op::F(1),
            o => o,
        });
    }
    (out, pos)
}

impl Ctx {
    fn request(&self, h: &History) -> Sexp {
        Sexp::call("hist", vec![self.pool_sexp.clone(), Sexp::call("ops", h.iter().map(|o| o.sexp()).collect())])
    }

    /// model answers + real responses + every auxiliary real run, then K and O per history
    fn evaluate(&mut self, items: &[Item], record: bool) -> Vec<Vec<Finding>> {
        let reqs: Vec<Sexp> = items.iter().map(|it| self.request(&it.h)).collect();
        let hs: Vec<History> = items.iter().map(|it| it.h.clone()).collect();
        let (model, real) = {
            let (drv, wp) = (&mut self.drv, &mut self.wp);
            std::thread::scope(|s| {
                let m = s.spawn(move || drv.batch(&reqs));
                let r = wp.run_histories(&hs);
                (m.join().expect("driver thread"), r)
            })
        };
        // auxiliary histories: realisations of the model's tokens, fresh tasks for emit, projections
        let mut need: Vec<History> = vec![];
        let mut seen: HashSet<History> = HashSet::new();
        let mut n_fresh = 0u64;
        let mut n_proj = 0u64;
        for (idx, it) in items.iter().enumerate() {
            for a in model[idx].args() {
                let tok = match a.head() {
                    Some("js") => a.args().first(),
                    Some("result") => a.args().first().filter(|x| x.head() == Some("js")).and_then(|x| x.args().first()),
                    _ => None,
                };
                if let Some(th) = tok.and_then(token_history) {
                    if !self.fresh.contains_key(&th) && seen.insert(th.clone()) {
                        need.push(th);
                        n_fresh += 1;
                    }
                }
            }
            let mut book = Book::new(&self.info);
            for op in &it.h {
                if let Op::E(t) = op {
                    if let Some(fh) = book.fresh_history(*t) {
                        if !self.fresh.contains_key(&fh) && seen.insert(fh.clone()) {
                            need.push(fh);
                            n_fresh += 1;
                        }
                    }
                }
                book.apply(op);
            }
            if it.iso {
                for (t, at) in &book.issued {
                    let (ph, _) = projection(&it.h, *t, *at);
                    n_proj += 1;
                    if seen.insert(ph.clone()) {
                        need.push(ph);
                    }
                }
            }
        }
        let extra_resps = self.wp.run_histories(&need);
        let mut extra: HashMap<History, Vec<RealResp>> = HashMap::with_capacity(need.len());
        for (h, r) in need.into_iter().zip(extra_resps) {
            let fresh_shape = matches!(h.last(), Some(Op::E(1))) && matches!(h.first(), Some(Op::I(..))) && h[1..h.len() - 1].iter().all(|o| matches!(o, Op::L(1, _, _)));
            if fresh_shape {
                let last = r.get(h.len() - 1).cloned().unwrap_or(RealResp::Dead);
                self.fresh.insert(h.clone(), last);
            }
            extra.insert(h, r);
        }
        if record {
            self.rep.count_n("fresh-emit-runs", n_fresh);
            self.rep.count_n("isolation-projections", n_proj);
        }
        let mut out = Vec::with_capacity(items.len());
        for (idx, it) in items.iter().enumerate() {
            out.push(self.check(it, &model[idx], &real[idx], &extra, record));
        }
        out
    }

    fn token_resp(&self, tok: &Sexp) -> Option<&RealResp> {
        self.fresh.get(&token_history(tok)?)
    }

    fn k_agree(&self, op: &Op, m: &Sexp, r: &RealResp) -> bool {
        match op {
            Op::E(_) if m.head() == Some("js") => {
                let Some(exp) = m.args().first().and_then(|t| self.token_resp(t)) else { return false };
                if matches!(r, RealResp::Fail(msg) if msg == "Task not found") {
                    return false;
                }
                resp_eq(r, exp)
            }
            Op::G => match m.head() {
                Some("trap") => r.is_trap(),
                Some("result") => {
                    let RealResp::Res(text, hash) = r else { return false };
                    let Some(x) = m.args().first() else { return false };
                    match x.head() {
                        Some("msg") => x.args().first() == Some(&classify_msg(text)),
                        Some("files") => *x == files_sexp(text),
                        Some("js") => match x.args().first().and_then(|t| self.token_resp(t)) {
                            Some(RealResp::Js(h, _)) => h == hash,
                            Some(RealResp::Fail(msg)) => format!("{:016x}", nvh::report::fnv(msg)) == *hash,
                            _ => false,
                        },
                        _ => false,
                    }
                }
                _ => false,
            },
            _ => canon(r) == *m,
        }
    }

    fn check(&mut self, it: &Item, model: &Sexp, real: &[RealResp], extra: &HashMap<History, Vec<RealResp>>, record: bool) -> Vec<Finding> {
        let h = &it.h;
        let mut findings: Vec<Finding> = vec![];
        let dead = RealResp::Dead;
        let margs: &[Sexp] = if model.head() == Some("ok") { model.args() } else { &[] };
        if margs.len() != h.len() {
            findings.push(Finding { stream: "K", sig: "model-answer".into(), what: format!("model answered {} to {}", model, hist_text(h)), at: h.len().saturating_sub(1) });
        }
        // ---- K: call by call (stop at the first difference: later ones are consequences)
        let mut k_cases = 0u64;
        if margs.len() == h.len() {
            for (i, op) in h.iter().enumerate() {
                let r = real.get(i).unwrap_or(&dead);
                k_cases += 1;
                if !self.k_agree(op, &margs[i], r) {
                    let mut what = format!("call {i} `{}` of [{}]: model {} real {}", op.text(), hist_text(h), margs[i], show(r));
                    if let Some(tok) = match margs[i].head() {
                        Some("js") => margs[i].args().first(),
                        Some("result") => margs[i].args().first().filter(|x| x.head() == Some("js")).and_then(|x| x.args().first()),
                        _ => None,
                    } {
                        what.push_str(&format!("; fresh realisation of the token [{}] answers {}",
                            token_history(tok).map(|t| hist_text(&t)).unwrap_or_else(|| "?".into()),
                            self.token_resp(tok).map(show).unwrap_or_else(|| "nothing".into())));
                    }
                    findings.push(Finding { stream: "K", sig: op.kind().to_string(), what, at: i });
                    break;
                }
            }
        }
        // ---- O: the property on the real responses, with the harness' own bookkeeping
        let mut book = Book::new(&self.info);
        let mut kinds: BTreeSet<&'static str> = BTreeSet::new();
        kinds.insert("trap");
        let mut o_broken = false;
        let mut trapped = false;
        let mut misuse = 0u64;
        for (i, op) in h.iter().enumerate() {
            let r = real.get(i).unwrap_or(&dead);
            let cls = book.class(op);
            if record {
                self.rep.count(&format!("call:{}:{}", op.kind(), cls.text()));
                if let Op::I(_, s) | Op::L(_, _, s) = op {
                    self.rep.count(&format!("src:{}", src_class(*s)));
                }
            }
            if !o_broken && !trapped {
                let mut fail = |sig: String, what: String| {
                    findings.push(Finding { stream: "O", sig, what: format!("call {i} `{}` of [{}]: {what}", op.text(), hist_text(h)), at: i });
                };
                match (op, r) {
                    (_, RealResp::Trap { why }) => {
                        trapped = true;
                        if let Some(kind) = alloc_kind(why) {
                            o_broken = true;
                            fail(format!("alloc:{kind}"), format!("allocator discipline violated (checking allocator of the worker): {why}"));
                        } else if *op == Op::G && !book.has_result {
                            misuse += 1; // documented protocol misuse (DESIGN §9 row am), not a failure
                        } else {
                            o_broken = true;
                            fail(format!("trap:{}:{}:{}", op.kind(), cls.text(), book.src_class(op)), format!("the loader died: {why}"));
                        }
                    }
                    (_, RealResp::Dead) | (_, RealResp::Bad(_)) => {
                        o_broken = true;
                        fail(format!("trap:{}:{}:{}", op.kind(), cls.text(), book.src_class(op)), format!("no usable answer: {}", show(r)));
                    }
                    (Op::I(_, s), _) => {
                        kinds.insert("ids");
                        let ok = match (&self.info[*s], r) {
                            (Ok(_), RealResp::Id(n)) => *n == book.ok_inits as u64 + 1 && *n != 0,
                            (Err(_), RealResp::Fail(m)) => !m.is_empty(),
                            _ => false,
                        };
                        if !ok {
                            o_broken = true;
                            let exp = if self.info[*s].is_ok() { format!("id {}", book.ok_inits + 1) } else { "0 with a message".to_string() };
                            fail("ids".into(), format!("expected {exp}, real {}", show(r)));
                        }
                    }
                    (_, _) if cls == IdClass::Freed || cls == IdClass::Never => {
                        kinds.insert("unknown-id");
                        let ok = match op {
                            Op::F(_) => *r == RealResp::Freed,
                            _ => matches!(r, RealResp::Fail(m) if m == "Task not found"),
                        };
                        if !ok {
                            o_broken = true;
                            fail(format!("unknown-id:{}:{}", op.kind(), cls.text()), format!("id is {} but real answered {}", cls.text(), show(r)));
                        }
                    }
                    (Op::R(t), _) => {
                        kinds.insert("required-exact");
                        let exp = book.required(*t);
                        let ok = match r {
                            RealResp::Files(text) => {
                                let got = files_sorted(text);
                                let set: BTreeSet<String> = got.iter().cloned().collect();
                                set.len() == got.len() && set == exp
                            }
                            _ => false,
                        };
                        if !ok {
                            o_broken = true;
                            fail("required-exact".into(), format!("expected exactly {:?}, real {}", exp, show(r)));
                        }
                    }
                    (Op::L(_, _, s), _) => {
                        kinds.insert("load");
                        let ok = match (&self.info[*s], r) {
                            (Ok(_), RealResp::Ok) => true,
                            (Err(_), RealResp::Fail(m)) => !m.is_empty() && m != "Task not found",
                            _ => false,
                        };
                        if !ok {
                            o_broken = true;
                            fail("load".into(), format!("source {} ({}) on a live task, real {}", s, src_class(*s), show(r)));
                        }
                    }
                    (Op::E(t), _) => {
                        kinds.insert("emit-fresh");
                        let fh = book.fresh_history(*t);
                        let exp = fh.as_ref().and_then(|f| self.fresh.get(f));
                        let ok = match exp {
                            Some(e) => resp_eq(r, e) && matches!(r, RealResp::Js(..) | RealResp::Fail(_)) && !matches!(r, RealResp::Fail(m) if m == "Task not found"),
                            None => false,
                        };
                        if !ok {
                            o_broken = true;
                            fail("emit-fresh".into(), format!("fresh task [{}] answers {}, real {}",
                                fh.as_ref().map(hist_text).unwrap_or_default(), exp.map(show).unwrap_or_else(|| "nothing".into()), show(r)));
                        }
                    }
                    (Op::F(_), _) => {
                        kinds.insert("free");
                        if *r != RealResp::Freed {
                            o_broken = true;
                            fail("free".into(), format!("real {}", show(r)));
                        }
                    }
                    (Op::G, _) => {}
                }
            }
            book.apply(op);
        }
        // death after the last call (thread exit drops the remaining tasks)
        if !trapped && real.len() > h.len() {
            if let Some(RealResp::Trap { why }) = real.get(h.len()) {
                o_broken = true;
                trapped = true;
                let sig = match alloc_kind(why) {
                    Some(kind) => format!("alloc:{kind}"),
                    None => "trap:thread-exit:n/a:n/a".into(),
                };
                findings.push(Finding { stream: "O", sig, what: format!("after [{}] (the instance's thread exits, the remaining tasks are dropped): {why}", hist_text(h)), at: h.len().saturating_sub(1) });
            }
        }
        // nothing leaked: every block the history allocated is gone once its loader instance is gone
        kinds.insert("alloc");
        if !trapped {
            if let Some(RealResp::Leak(desc)) = real.last() {
                o_broken = true;
                findings.push(Finding { stream: "O", sig: "alloc:leak".into(), what: format!("after [{}] and the end of its loader instance, blocks it allocated are still live: {desc}", hist_text(h)), at: h.len().saturating_sub(1) });
            }
        }
        // isolation: every issued task answers as it does alone
        if it.iso && !o_broken && !trapped {
            for (t, at) in &book.issued {
                kinds.insert("isolation");
                let (ph, pos) = projection(h, *t, *at);
                let Some(pr) = extra.get(&ph) else { continue };
                for (k, full_at) in pos.iter().enumerate() {
                    let full = match real.get(*full_at).unwrap_or(&dead) {
                        RealResp::Id(n) if *n == *t as u64 => RealResp::Id(1),
                        x => x.clone(),
                    };
                    let alone = pr.get(k).unwrap_or(&dead);
                    if !resp_eq(&full, alone) {
                        findings.push(Finding {
                            stream: "O",
                            sig: format!("isolation:{}", h[*full_at].kind()),
                            what: format!("task {t} of [{}]: call {full_at} `{}` answers {} but alone (history [{}], call {k}) it answers {}",
                                hist_text(h), h[*full_at].text(), show(&full), hist_text(&ph), show(alone)),
                            at: *full_at,
                        });
                        break;
                    }
                }
            }
        }
        if record {
            self.rep.evaluations += 1;
            self.rep.k_cases += k_cases;
            self.rep.o_cases += kinds.len() as u64;
            self.rep.count(&format!("hist:{}", it.kind));
            self.rep.count_n("misuse:get-result-before-any-result", misuse);
            if book.nontrivial() {
                self.rep.nontrivial(&hist_text(h));
            }
        }
        findings
    }

    fn has_failure(&self, stream: &str, sig: &str) -> bool {
        self.rep.failures.iter().any(|f| f.stream == stream && f.signature == sig)
    }

    /// does `h` still show a finding of the given class? (all checks on, nothing recorded)
    fn still_fails(&mut self, h: &History, stream: &str, sig: &str) -> Option<String> {
        self.shrink_runs += 1;
        let it = Item { h: h.clone(), kind: "shrink", iso: true };
        let f = self.evaluate(std::slice::from_ref(&it), false).pop().unwrap();
        f.into_iter().find(|g| g.stream == stream && g.sig == sig).map(|g| g.what)
    }

    fn shrink(&mut self, h: &History, f: &Finding) -> (History, String) {
        let mut cur = h.clone();
        let mut what = f.what.clone();
        let mut budget = 60;
        if f.at + 1 < cur.len() {
            let cand: History = cur[..=f.at].to_vec();
            budget -= 1;
            if let Some(w) = self.still_fails(&cand, f.stream, &f.sig) {
                cur = cand;
                what = w;
            }
        }
        let mut i = 0;
        while cur.len() > 1 && i < cur.len() && budget > 0 {
            let mut cand = cur.clone();
            cand.remove(i);
            budget -= 1;
            match self.still_fails(&cand, f.stream, &f.sig) {
                Some(w) => {
                    cur = cand;
                    what = w;
                }
                None => i += 1,
            }
        }
        (cur, what)
    }

    /// evaluate a batch, shrink and report what failed
    fn run(&mut self, items: &[Item]) -> Vec<Vec<Finding>> {
        let all = self.evaluate(items, true);
        for (it, fs) in items.iter().zip(all.iter()) {
            for f in fs {
                if self.has_failure(f.stream, &f.sig) {
                    self.rep.fail(f.stream, &f.sig, &f.what, case_json(&it.h));
                } else {
                    let (small, what) = self.shrink(&it.h, f);
                    let what = if small.len() < it.h.len() { format!("{what} (shrunk from [{}])", hist_text(&it.h)) } else { what };
                    self.rep.fail(f.stream, &f.sig, &what, case_json(&small));
                }
            }
        }
        all
    }
}

// ---------------------------------------------------------------------------------------------
// generators

fn corpus() -> Vec<History> {
    use Op::*;
    vec![
        vec![I(0, 5), E(1)],
        vec![I(0, 0), I(0, 5), E(2), R(1), E(1)],
        vec![I(0, 1), R(1), L(1, 1, 2), R(1), L(1, 2, 3), R(1), E(1), F(1), E(1), F(1), R(1)],
        vec![R(1), L(1, 1, 2), E(1), F(1)],
        vec![I(0, 4), I(0, 0), R(1)],
        vec![I(0, 1), L(1, 1, 2), L(1, 1, 6), E(1), L(1, 1, 4), E(1), R(1)],
        vec![I(0, 0), G],
        vec![I(0, 4), G],
        vec![G],
        vec![I(0, 8), G],
        vec![I(0, 1), L(1, 1, 2), G],
        vec![I(3, 1), R(1), L(1, 4, 6), E(1)],
        vec![I(0, 7), R(1), L(1, 2, 3), L(1, 1, 6), R(1), E(1)],
        vec![I(0, 1), L(1, 1, 2), L(1, 2, 9), R(1), E(1)],
        // the example of lean/Driver/C19.lean
        vec![I(0, 1), R(1), L(1, 1, 2), R(1), E(1), I(0, 4), G, L(1, 2, 3), E(1), F(1), E(1), F(1), R(7)],
        // two live tasks with different sources for the same path; re-supplied root
        vec![I(0, 1), I(0, 1), L(1, 1, 6), L(2, 1, 2), L(2, 2, 3), E(1), E(2), G, L(1, 0, 0), E(1), R(1), R(2)],
        // odd texts (CRLF, mixed, BOM, non-ASCII, long, empty, blank) as root and as loaded file; freed, re-supplied, dropped
        // with the instance
        vec![I(0, 10), R(1), L(1, 1, 11), R(1), E(1), G, F(1), E(1)],
        vec![I(0, 10), L(1, 1, 12), E(1), L(1, 1, 18), R(1), L(1, 2, 3), E(1)],
        vec![I(0, 13), R(1), E(1), F(1), I(0, 14), E(2), G, F(2)],
        vec![I(0, 15), E(1), L(1, 1, 15), E(1), F(1)],
        vec![I(0, 16), R(1), E(1), I(0, 17), E(2), L(1, 1, 16), L(2, 1, 17), F(2), F(1)],
        vec![I(0, 1), L(1, 1, 11), L(1, 1, 12), L(1, 1, 11), E(1), I(3, 10), L(2, 4, 14), E(2)],
    ]
}

/// calls over the odd texts of the pool (without the long one)
fn odd_alphabet() -> Vec<Op> {
    use Op::*;
    vec![I(0, 10), I(0, 13), L(1, 1, 11), L(1, 1, 12), L(1, 1, 14), L(1, 1, 16), R(1), E(1), F(1)]
}

fn full_alphabet() -> Vec<Op> {
    use Op::*;
    let mut a = vec![I(0, 0), I(0, 1), I(0, 4), I(0, 5), I(0, 7)];
    for t in [1, 2, 9] {
        a.push(R(t));
        a.push(E(t));
        a.push(F(t));
    }
    for t in [1, 2, 9] {
        for (p, s) in [(1, 2), (1, 6), (2, 3), (1, 4), (0, 0)] {
            a.push(L(t, p, s));
        }
    }
    a.push(G);
    a
}

fn reduced_alphabet() -> Vec<Op> {
    use Op::*;
    vec![I(0, 1), I(0, 4), R(1), R(2), L(1, 1, 2), L(1, 2, 3), L(2, 1, 2), L(2, 2, 3), L(1, 1, 4), E(1), E(2), F(1), F(2)]
}

/// a `G` before any result-storing call could have happened kills the child (documented misuse): such
/// sequences are skipped unless they are of length ≤ 2
fn skip_misuse(h: &History, info: &[ParseInfo]) -> bool {
    if h.len() <= 2 {
        return false;
    }
    // a result is stored by: a failing I, any R, a failing L (unknown id or unparsable source), any E
    let mut book = Book::new(info);
    for op in h {
        if *op == Op::G && !book.has_result {
            return true;
        }
        book.apply(op);
    }
    false
}

fn decode(alpha: &[Op], n: usize, mut idx: u64) -> History {
    let b = alpha.len() as u64;
    let mut h = vec![Op::G; n];
    for k in (0..n).rev() {
        h[k] = alpha[(idx % b) as usize];
        idx /= b;
    }
    h
}

/// any source of the pool; the long one eight times less often
fn pick_source(rng: &mut Rng) -> usize {
    loop {
        let s = rng.below(POOL.len());
        if s != LONG_IX || rng.chance(1, 8) {
            return s;
        }
    }
}

fn random_history(rng: &mut Rng, info: &[ParseInfo]) -> History {
    let len = rng.range(5, 40) as usize;
    let mut book = Book::new(info);
    let mut h = vec![];
    while h.len() < len {
        let x = rng.below(100);
        let op = if x < 15 {
            if book.live.len() >= 4 {
                continue;
            }
            Op::I(rng.below(PATHS.len()), pick_source(rng))
        } else if x >= 95 {
            if book.has_result || rng.chance(1, 200) {
                Op::G
            } else {
                continue;
            }
        } else {
            let y = rng.below(10);
            let live: Vec<usize> = book.live.keys().cloned().collect();
            let freed: Vec<usize> = book.freed.iter().cloned().collect();
            let never = [0, book.ok_inits + 1, book.ok_inits + 4, 1_000_000];
            let t = if y < 8 && !live.is_empty() {
                *rng.pick(&live)
            } else if y == 8 && !freed.is_empty() {
                *rng.pick(&freed)
            } else {
                *rng.pick(&never)
            };
            if x < 35 {
                Op::R(t)
            } else if x < 65 {
                let wanted: Vec<usize> = book.required(t).iter().filter_map(|p| path_index(p)).collect();
                if !wanted.is_empty() && rng.chance(7, 10) {
                    Op::L(t, *rng.pick(&wanted), *rng.pick(&[2, 3, 6, 9, 11, 12, 18]))
                } else {
                    Op::L(t, rng.below(PATHS.len()), pick_source(rng))
                }
            } else if x < 85 {
                Op::E(t)
            } else {
                Op::F(t)
            }
        };
        book.apply(&op);
        h.push(op);
    }
    h
}

// ---------------------------------------------------------------------------------------------

const BATCH: usize = 40_000;

struct Feeder {
    buf: Vec<Item>,
    iso_counter: u64,
    sampled: u32,
}

impl Feeder {
    fn push(&mut self, ctx: &mut Ctx, h: History, kind: &'static str) {
        let iso = match kind {
            "exhaustive-full" | "exhaustive-reduced" | "sample-full4" => {
                self.iso_counter += 1;
                self.iso_counter % 7 == 0
            }
            _ => true,
        };
        self.buf.push(Item { h, kind, iso });
        if self.buf.len() >= BATCH {
            self.flush(ctx);
        }
    }
    fn flush(&mut self, ctx: &mut Ctx) {
        if self.buf.is_empty() {
            return;
        }
        let items = std::mem::take(&mut self.buf);
        ctx.run(&items);
    }
}

fn exhaustive(ctx: &mut Ctx, fd: &mut Feeder, alpha: &[Op], n: usize, kind: &'static str) -> (u64, u64) {
    let total = (alpha.len() as u64).pow(n as u32);
    let (mut run, mut skipped) = (0, 0);
    for idx in 0..total {
        let h = decode(alpha, n, idx);
        if skip_misuse(&h, &ctx.info) {
            skipped += 1;
            continue;
        }
        run += 1;
        fd.push(ctx, h, kind);
    }
    fd.flush(ctx);
    (run, skipped)
}

fn main() {
    let argv: Vec<String> = std::env::args().collect();
    if argv.iter().any(|a| a == "--worker") {
        worker::main(argv.iter().any(|a| a == "--careful"));
        return;
    }
    checkalloc::disable();
    let args = Args::parse();
    let t0 = std::time::Instant::now();
    let info: Vec<ParseInfo> = POOL.iter().map(|s| parse_info(s)).collect();
    let pool_sexp = Sexp::call(
        "pool",
        info.iter()
            .map(|r| match r {
                Ok(imps) => Sexp::call("ok", imps.iter().map(|p| Sexp::str(p.as_str())).collect()),
                Err(c) => Sexp::call("err", vec![Sexp::int(*c as i128)]),
            })
            .collect(),
    );
    let header = json!({ "pool": POOL, "paths": PATHS }).to_string();
    let n_workers = std::thread::available_parallelism().map(|n| n.get()).unwrap_or(1).min(8);
    let cfg = Cfg { exe: std::env::current_exe().expect("current_exe"), header };
    let mut ctx = Ctx {
        rep: Report::new("C19", RULE),
        drv: Driver::spawn(&args.driver),
        wp: WorkerPool::new(cfg, n_workers),
        info,
        pool_sexp,
        fresh: HashMap::new(),
        shrink_runs: 0,
        samples_random: 0,
    };
    let mut rng = Rng::new(args.seed);

    if let Some(file) = &args.replay {
        let text = std::fs::read_to_string(file).expect("read replay file");
        let v: Value = serde_json::from_str(&text).expect("replay file is JSON");
        let case = v.get("case").cloned().unwrap_or(v.clone());
        if case.get("concrete").is_some() {
            match concrete::Case::from_json(&case) {
                Some(c) => {
                    let exe = std::env::current_exe().expect("current_exe");
                    concrete::replay(&mut ctx.rep, &mut ctx.drv, &exe, &c);
                }
                None => ctx.rep.fail("K", "bad-replay-case", &format!("cannot read a concrete case from {file}"), case),
            }
            finish(ctx, &args, t0);
            return;
        }
        match case_from_json(&case) {
            Some(h) if h.iter().all(|o| match *o {
                Op::I(p, s) | Op::L(_, p, s) => p < PATHS.len() && s < POOL.len(),
                _ => true,
            }) => {
                let it = Item { h: h.clone(), kind: "replay", iso: true };
                // same comparisons; the case is reported as given (no shrinking)
                let fs = ctx.evaluate(std::slice::from_ref(&it), true).pop().unwrap();
                for f in fs {
                    ctx.rep.fail(f.stream, &f.sig, &f.what, case_json(&h));
                }
            }
            _ => ctx.rep.fail("K", "bad-replay-case", &format!("cannot read a history from {file}"), case),
        }
        finish(ctx, &args, t0);
        return;
    }

    let thorough = args.thorough() || args.extra.get("search").map(|s| s == "1").unwrap_or(false);
    let mut fd = Feeder { buf: vec![], iso_counter: 0, sampled: 0 };

    // 1. corpus
    let corpus_items: Vec<Item> = corpus().into_iter().map(|h| Item { h, kind: "corpus", iso: true }).collect();
    let hs: Vec<History> = corpus_items.iter().map(|i| i.h.clone()).collect();
    ctx.run(&corpus_items);
    // samples with their real responses (re-run: cheap)
    let sample_ix = [2usize, 5, 8];
    let sample_hs: Vec<History> = sample_ix.iter().map(|i| hs[*i].clone()).collect();
    let sample_rs = ctx.wp.run_histories(&sample_hs);
    for (h, r) in sample_hs.iter().zip(sample_rs) {
        ctx.rep.sample(json!({ "ops": hist_text(h), "real": r.iter().map(|x| x.to_json()).collect::<Vec<_>>() }));
    }

    // 1b. the concrete emitter model against the real emit_js (stream `emit-concrete:*`, c19/concrete.rs): on its own
    //     thread, with its own driver process and worker children, while the streams below run; merged before `finish`
    let concrete_thread = {
        let exe = std::env::current_exe().expect("current_exe");
        let mut crng = rng.fork();
        let driver_path = args.driver.clone();
        std::thread::spawn(move || {
            let mut crep = Report::new("C19", RULE);
            let mut drv = Driver::spawn(&driver_path);
            concrete::run(&mut crep, &mut drv, &exe, &mut crng, thorough);
            crep.extra.insert("concrete_model_requests".into(), json!(drv.requests));
            crep
        })
    };

    // 2. exhaustive
    let full = full_alphabet();
    let reduced = reduced_alphabet();
    assert_eq!(full.len(), 30);
    assert_eq!(reduced.len(), 13);
    let (full_n, red_n) = if thorough { (4, 5) } else { (3, 4) };
    let mut full_counts = vec![];
    for n in 1..=full_n {
        let (run, skipped) = exhaustive(&mut ctx, &mut fd, &full, n, "exhaustive-full");
        full_counts.push(json!({ "len": n, "run": run, "skipped_get_result_misuse": skipped }));
    }
    let (red_run, _) = exhaustive(&mut ctx, &mut fd, &reduced, red_n, "exhaustive-reduced");
    // 2b. odd texts: all sequences over 9 calls that supply / use / free CRLF, mixed, BOM, non-ASCII, long, empty texts
    let odd = odd_alphabet();
    let odd_n = if thorough { 5 } else { 4 };
    let mut odd_run = 0;
    for n in 1..=(if std::env::var("C19_SKIP_ODD").is_ok() { 0 } else { odd_n }) {
        odd_run += exhaustive(&mut ctx, &mut fd, &odd, n, "exhaustive-odd-texts").0;
    }

    // 3. random sample of FULL sequences of length 4 (quick only: thorough has them all)
    let sample4 = if thorough { 0 } else { 20_000 };
    let mut drawn = 0;
    while drawn < sample4 {
        let h: History = (0..4).map(|_| *rng.pick(&full)).collect();
        if skip_misuse(&h, &ctx.info) {
            continue;
        }
        drawn += 1;
        fd.push(&mut ctx, h, "sample-full4");
    }
    fd.flush(&mut ctx);

    // 4. random long histories
    let n_random = if thorough { 20_000 } else { 2_000 };
    let mut random_samples: Vec<History> = vec![];
    for k in 0..n_random {
        let h = random_history(&mut rng, &ctx.info);
        if k < 3 {
            random_samples.push(h.clone());
        }
        fd.push(&mut ctx, h, "random");
    }
    fd.flush(&mut ctx);
    let rs = ctx.wp.run_histories(&random_samples);
    for (h, r) in random_samples.iter().zip(rs) {
        ctx.rep.sample(json!({ "ops": hist_text(h), "real": r.iter().map(|x| x.to_json()).collect::<Vec<_>>() }));
    }
    let _ = (fd.sampled, ctx.samples_random);

    let crep = concrete_thread.join().expect("concrete stream thread");
    ctx.rep.k_cases += crep.k_cases;
    ctx.rep.evaluations += crep.evaluations;
    for (k, n) in &crep.dist {
        ctx.rep.count_n(k, *n);
    }
    for f in crep.failures {
        if !ctx.rep.failures.iter().any(|g| g.stream == f.stream && g.signature == f.signature) {
            ctx.rep.failures.push(f);
        }
    }
    ctx.rep.notes.extend(crep.notes);
    ctx.rep.extra.extend(crep.extra);

    ctx.rep.exhaustive = true;
    ctx.rep.extra.insert("exhaustive_full_len".into(), json!(full_n));
    ctx.rep.extra.insert("exhaustive_reduced_len".into(), json!(red_n));
    ctx.rep.extra.insert("exhaustive_full_counts".into(), json!(full_counts));
    ctx.rep.extra.insert("exhaustive_reduced_count".into(), json!(red_run));
    ctx.rep.extra.insert("exhaustive_odd_texts_len".into(), json!(odd_n));
    ctx.rep.extra.insert("exhaustive_odd_texts_count".into(), json!(odd_run));
    ctx.rep.extra.insert("odd_texts_alphabet".into(), json!(odd.iter().map(|o| o.text()).collect::<Vec<_>>()));
    ctx.rep.extra.insert("sample_full4_count".into(), json!(sample4));
    ctx.rep.extra.insert("random_long_count".into(), json!(n_random));
    ctx.rep.extra.insert("full_alphabet".into(), json!(full.iter().map(|o| o.text()).collect::<Vec<_>>()));
    ctx.rep.extra.insert("reduced_alphabet".into(), json!(reduced.iter().map(|o| o.text()).collect::<Vec<_>>()));
    finish(ctx, &args, t0);
}

fn finish(mut ctx: Ctx, args: &Args, t0: std::time::Instant) {
    ctx.wp.shutdown();
    let st = ctx.wp.stats.clone();
    if st.lencap_violations > 0 {
        ctx.rep.fail(
            "O",
            "lencap",
            &format!("{} of {} len==capacity checks failed: String::with_capacity(n).capacity() != n or String::from_utf8(bytes.to_vec()) has len != capacity; the loader's from_raw_parts calls would then pass a wrong capacity to the allocator", st.lencap_violations, st.lencap_checks),
            json!({ "ops": [] }),
        );
    }
    ctx.rep.o_cases += 1; // lencap
    ctx.rep.extra.insert("lencap_checks".into(), json!(st.lencap_checks));
    ctx.rep.extra.insert("lencap_violations".into(), json!(st.lencap_violations));
    ctx.rep.extra.insert("alloc_checked_frees".into(), json!(st.alloc_checked_frees));
    ctx.rep.extra.insert("alloc_leak_checks".into(), json!(st.alloc_leak_checks));
    ctx.rep.extra.insert("alloc_leak_reruns_first_use_initialisation".into(), json!(st.alloc_leak_reruns));
    ctx.rep.extra.insert("alloc_string_header_leaks_not_recorded".into(), json!(st.alloc_string_headers));
    if st.alloc_table_overflows > 0 {
        ctx.rep.fail("K", "alloc-table-overflow", &format!("{} workers filled the checking allocator's table (checks switched off from then on): enlarge SLOTS in c19/checkalloc.rs", st.alloc_table_overflows), json!({ "ops": [] }));
    }
    ctx.rep.extra.insert("workers".into(), json!(ctx.wp.size()));
    ctx.rep.extra.insert("worker_processes_spawned".into(), json!(st.spawned));
    ctx.rep.extra.insert("worker_deaths".into(), json!(st.deaths));
    ctx.rep.extra.insert("worker_timeouts".into(), json!(st.timeouts));
    ctx.rep.extra.insert("careful_reruns".into(), json!(st.careful_runs));
    ctx.rep.extra.insert("careful_reruns_that_survived".into(), json!(st.careful_survived));
    ctx.rep.extra.insert("real_histories_run".into(), json!(st.histories));
    ctx.rep.extra.insert("distinct_fresh_emit_histories".into(), json!(ctx.fresh.len()));
    ctx.rep.extra.insert("shrink_runs".into(), json!(ctx.shrink_runs));
    ctx.rep.extra.insert("model_requests".into(), json!(ctx.drv.requests));
    ctx.rep.extra.insert("wall_seconds".into(), json!(t0.elapsed().as_secs_f64()));
    ctx.rep.extra.insert("pool_sources".into(), json!(POOL));
    ctx.rep.extra.insert("paths".into(), json!(PATHS));
    ctx.rep.notes.push("The real ABI functions (alloc_string, free_string, initiate_task, get_required_files, load_file, emit_js, free_task, get_result_ptr, get_result_size) ran in child processes (`c19 --worker`), one fresh thread (= fresh thread-local loader instance) per history, because a panic inside an `extern \"C\"` function aborts the process and cannot be caught; a child death is attributed to the exact call by re-running the history alone in a child that flushes after every call.".into());
    ctx.rep.notes.push("len==capacity check: for every string passed through the ABI the worker mirrors the loader's constructions and checks String::with_capacity(n).capacity() == n (alloc_string/free_string rebuild the String from (ptr, 0, n)) and that String::from_utf8(bytes.to_vec()) has len == capacity (read_str_ptr → register_file records (ptr,len,capacity) and then calls into_boxed_str, which must not reallocate). Counters of workers that died (get-result misuse) are lost; counts are of the surviving workers.".into());
    ctx.rep.notes.push("Emit equality (history under test vs fresh task, and vs the realisation of the model's token) is by 64-bit FNV-1a hash plus byte length of the emitted text, or equality of the error message.".into());
    ctx.rep.notes.push("Allocator discipline on the REAL code: the worker children run under a checking global allocator (c19/checkalloc.rs: every live block recorded with its layout; realloc always moves; released blocks poisoned and quarantined). dealloc/realloc of a pointer that is not live (double-free, free-of-unknown-pointer) or with another layout (layout-mismatch) aborts the child with `alloc-violation kind=…` → O failure alloc:<kind> at the exact call; after every history (fresh thread = fresh loader instance, joined, its thread-locals dropped) every block the history allocated must be gone — the 24-byte Box<String> header that alloc_string leaks per string (documented, outside the statement) is not recorded, and a history that leaves blocks behind is run a second time so that once-per-process initialisation does not count — otherwise O failure alloc:leak. alloc_checked_frees / alloc_leak_checks count the checks of the surviving workers.".into());
    ctx.rep.notes.push("Miri/ASan were not run (optional in DESIGN): allocator-level safety of the raw-parts code is observed only as \"no abort / no crash of the worker\", including the drop of the remaining tasks at thread exit.".into());
    ctx.rep.notes.push("A `G` (get_result_ptr/size) before any result was stored unwraps None and aborts: documented protocol misuse (DESIGN §9 row am; the JS side never does it). Model `(trap)` + real death there is K agreement and is counted as misuse:get-result-before-any-result, not as an O failure. Exhaustive sequences longer than 2 that contain such a G are skipped to keep child restarts rare.".into());
    ctx.rep.write(args);
}
