//! probe (temporary)
use loader_native as ln;

fn put(s: &str) -> (*mut u8, usize) {
    let p = ln::alloc_string(s.len());
    unsafe { std::ptr::copy_nonoverlapping(s.as_ptr(), p, s.len()) };
    (p, s.len())
}
fn result() -> String {
    let p = ln::get_result_ptr();
    let n = ln::get_result_size();
    String::from_utf8_lossy(unsafe { std::slice::from_raw_parts(p, n) }).into_owned()
}
fn main() {
    let which = std::env::args().nth(1).unwrap_or_default();
    let src = match which.as_str() {
        "missing" => "query Q { ...Missing }",
        "anon" => "query { a }",
        "bad" => "query {",
        "imp" => "#import F from \"./f.graphql\"\nquery Q { ...F }",
        _ => "query Q { a }",
    };
    let (fp, fl) = put("/p/op.graphql");
    let (sp, sl) = put(src);
    let id = ln::initiate_task(fp, fl, sp, sl);
    unsafe { ln::free_string(fp, fl); ln::free_string(sp, sl) };
    println!("id={id}");
    if id == 0 { println!("err={}", result()); return; }
    println!("req={} [{}]", ln::get_required_files(id), result());
    let r = std::panic::catch_unwind(|| ln::emit_js(id));
    println!("emit={r:?} [{}]", result());
    println!("req99={} [{}]", ln::get_required_files(99), result());
    ln::free_task(id);
    ln::free_task(id);
    println!("emit-after-free={} [{}]", ln::emit_js(id), result());
}
