//! C16 — the emitted server schema string re-parses to the schema that was checked; parse ∘ print = id.
//!
//! K (model = code):
//!   js        real `JsStringWriter::write(s)` vs Lean `jsStringBody s`, byte for byte
//!   string    real `print_string` (through `StringValue::print_graphql`) vs Lean `printString`
//!   print     real `print_graphql` into a `JustWriter` vs the text of the Lean printer model, for type-system
//!             documents (with and without extensions) and executable documents (with `#import`)
//!   strip     real `remove_builtins` + the fold over the configured plugin list (every ordered list of the native plugins) vs the Lean model, as documents
//!   module    the `serverGraphqlOutput` module text (library composition as in generate.rs, and the real CLI) vs the model
//! O (the property, on the implementation; specifications are evaluated by the Lean driver):
//!   js-cook           cook(real body) = s  and the real body cannot end the literal / start a substitution
//!   string            decodeStringLiteral(real literal) = s
//!   server            parse(cook(template of the real module)) = strip-spec(checked merged document), modulo positions and order
//!   print-parse       parse(print(A)) = A modulo positions for every parsed document A
//! "parse" = the real parser applied to the text in which every block string `"""…"""` has been replaced by the
//! quoted literal of its GraphQL-spec value (`Spec/GqlString.lean` through the driver): the pinned parser returns block
//! strings raw (a C07 matter), while C16 is about what the text DENOTES.
use nitrogql_ast::{value::StringValue, TypeSystemDocument};
use nitrogql_error::PositionedError;
use nitrogql_parser::{parse_operation_document, parse_type_system_document};
use nitrogql_plugin::{GraphQLScalarsPlugin, ModelPlugin, Plugin};
use nitrogql_printer::GraphQLPrinter;
use nvh::gen::*;
use nvh::gm::*;
use nvh::real::*;
use nvh::render::*;
use nvh::*;
use serde_json::{json, Value};
use sourcemap_writer::{JsStringWriter, JustWriter, SourceMapWriter};

/// the REAL `crates/cli/src/builtins.rs` (the cli crate has no library target), compiled into this binary
#[allow(dead_code)]
#[path = "/repo/crates/cli/src/builtins.rs"]
mod cli_builtins;

const MODEL_PLUGIN_SDL: &str = "\ndirective @model(\n  # TypeScript type of this object. Only applicable for whole objects.\n  type: String\n) on OBJECT | FIELD_DEFINITION\n";

// ------------------------------------------------------------------------------------------------
// hostile strings

const SPECIAL: [&str; 24] = [
    "\\", "`", "$", "{", "}", "\"", "\n", "\r", "\t", " ", "a", "é", "😀", "*/", "'", "\u{0}", "\u{1}", "\u{8}", "\u{b}", "\u{c}", "\u{1f}", "\u{7f}", "\u{85}", "\u{2028}",
];

/// strings that have broken the pinned code or sit on a decision boundary of the printers
const STRING_CORPUS: [&str; 40] = [
    "", "plain", "say \"hi\" \\ there", "ends with quote\"", "trailing backslash\\", "back`tick ${x}", "$", "${", "$${", "$\\{", "\\`", "\\${",
    "multi\nline", "multi\nline ends with quote\"", "multi\nline ends with backslash\\", "multi\nline with \"\"\" inside", "multi\n\"\"\"\"", "\"\"\"", "a\\\"\"\"b\nc",
    "cr\rlf", "cr\r\nlf", "a\nb\rc", "tab\there", "é 😀 astral", "\\u0041 literal", "*/ closes a comment", "' single", "\u{0}\u{1}\u{1f}\u{7f}\u{9f}",
    "\nleading newline", "trailing newline\n", "a\n  indented\n  lines", "  first line indented\nb", "a\n\nb", "a\n \nb", "a\n\tb", "\n", "\n\n", " \n ", "a\n",
    "line1\n  line2\nline3",
];

fn gen_string(rng: &mut Rng) -> String {
    if rng.chance(1, 6) {
        return STRING_CORPUS[rng.below(STRING_CORPUS.len())].to_string();
    }
    let n = rng.below(9);
    let mut s = String::new();
    for _ in 0..n {
        if rng.chance(1, 12) {
            // any ASCII control character or an arbitrary scalar value
            let c = if rng.coin() { char::from_u32(rng.below(0x20) as u32).unwrap() } else { char::from_u32([0x9f, 0xa0, 0x2029, 0xfeff, 0xffff, 0x10000, 0x10ffff, 0xd7ff, 0xe000][rng.below(9)]).unwrap() };
            s.push(c);
        } else {
            s.push_str(SPECIAL[rng.below(SPECIAL.len())]);
        }
    }
    s
}

fn string_features(s: &str) -> Vec<&'static str> {
    let mut f = vec![];
    if s.contains('\\') { f.push("backslash") }
    if s.contains('`') { f.push("backtick") }
    if s.contains("${") { f.push("dollar-brace") }
    if s.contains('"') { f.push("quote") }
    if s.contains("\"\"\"") { f.push("triple-quote") }
    if s.contains('\n') { f.push("lf") }
    if s.contains('\r') { f.push("cr") }
    if s.chars().any(|c| c.is_control() && c != '\n' && c != '\r' && c != '\t') { f.push("control") }
    if s.chars().any(|c| (c as u32) > 0xffff) { f.push("astral") }
    if f.is_empty() { f.push("plain") }
    f
}

// ------------------------------------------------------------------------------------------------
// real code entry points

fn real_js_body(s: &str) -> Result<String, String> {
    let s = s.to_string();
    catch(move || {
        let mut buf = String::new();
        {
            let mut w = JsStringWriter::new(&mut buf);
            w.write(&s);
        }
        buf
    })
    .and_then(|b| b.strip_prefix("`\n").and_then(|b| b.strip_suffix('`')).map(|b| b.to_string()).ok_or_else(|| "no back-tick frame".to_string()))
}

fn real_print_string(s: &str) -> Result<String, String> {
    let s = s.to_string();
    catch(move || {
        let mut buf = String::new();
        let v = StringValue { position: Default::default(), value: s };
        v.print_graphql(&mut JustWriter::new(&mut buf));
        buf
    })
}

/// did the real printer choose the block form `"""…"""` for `s` (only strings with a line feed can get it)
fn printed_as_block(s: &str) -> bool {
    // the decision of `print_string` (the harness only uses it to CLASSIFY failures; K compares the printed texts themselves)
    s.contains('\n') && !s.ends_with('"') && !s.ends_with('\\') && s.chars().all(|c| c == '\n' || c == '\t' || !c.is_control())
}

fn print_just(x: &impl GraphQLPrinter) -> Result<String, String> {
    catch(std::panic::AssertUnwindSafe(|| {
        let mut buf = String::new();
        x.print_graphql(&mut JustWriter::new(&mut buf));
        buf
    }))
}

/// generate.rs: remove_builtins, plugins' transform, print into a JsStringWriter, wrap
// ------------------------------------------------------------------------------------------------
// plugin lists: the `plugins:` entry of a project config, as short names in the configured ORDER ("model" =
// nitrogql:model-plugin, "scalars" = nitrogql:graphql-scalars-plugin — the two plugins load_plugins.rs knows natively).

fn plugin_config_name(short: &str) -> &'static str {
    if short == "model" { "nitrogql:model-plugin" } else { "nitrogql:graphql-scalars-plugin" }
}
fn has_model(plugins: &[String]) -> bool {
    plugins.iter().any(|p| p == "model")
}
fn plugins_sexp(plugins: &[String]) -> Sexp {
    Sexp::list(plugins.iter().map(|p| Sexp::str(p.as_str())).collect())
}
/// main.rs extend_loaded_schema: every plugin's `schema_addition`, in order (the graphql-scalars plugin has none for
/// schemas given as .graphql files: its additions come from the `extensions` of a JavaScript schema)
fn plugin_additions(plugins: &[String]) -> Vec<String> {
    plugins.iter().filter(|p| *p == "model").map(|_| MODEL_PLUGIN_SDL.to_string()).collect()
}
/// load_plugins.rs
fn real_plugins(plugins: &[String]) -> Vec<Plugin<'static>> {
    plugins.iter().map(|p| if p == "model" { Plugin::new(Box::new(ModelPlugin {})) } else { Plugin::new(Box::<GraphQLScalarsPlugin>::default()) }).collect()
}
/// plugin list of a replay case: `plugins` (ordered short names), or the older `model_plugin` flag
fn plugins_of_case(c: &Value) -> Vec<String> {
    match c["plugins"].as_array() {
        Some(a) => a.iter().filter_map(|x| x.as_str().map(|s| s.to_string())).collect(),
        None => if c["model_plugin"].as_bool().unwrap_or(false) { vec!["model".to_string()] } else { vec![] },
    }
}
/// every ordered list over {model, scalars} of length ≤ 3 with the model plugin at most once (a second model plugin
/// defines `@model` twice; the checker rejects that project) — all subsets, both orders, duplicates
fn all_plugin_lists() -> Vec<Vec<String>> {
    let mut out: Vec<Vec<String>> = vec![vec![]];
    let mut layer: Vec<Vec<String>> = vec![vec![]];
    for _ in 0..3 {
        let mut next = vec![];
        for l in &layer {
            for p in ["model", "scalars"] {
                if p == "model" && has_model(l) {
                    continue;
                }
                let mut n = l.clone();
                n.push(p.to_string());
                next.push(n);
            }
        }
        out.extend(next.iter().cloned());
        layer = next;
    }
    out
}
fn gen_plugin_list(rng: &mut Rng, model: bool) -> Vec<String> {
    let mut l: Vec<String> = (0..rng.below(3)).map(|_| "scalars".to_string()).collect();
    if model {
        let at = rng.below(l.len() + 1);
        l.insert(at, "model".to_string());
    }
    l
}

fn real_server_module(resolved: &TypeSystemDocument, plugins: &[String]) -> (String, TsDoc) {
    let plugins: Vec<Plugin> = real_plugins(plugins);
    let mut buffer = String::new();
    buffer.push_str("// generated by nitrogql\n");
    buffer.push_str("export const schema = ");
    let mut writer = JsStringWriter::new(&mut buffer);
    let schema = plugins.iter().fold(cli_builtins::remove_builtins(resolved), |schema, plugin| match plugin.transform_document_for_runtime_server(&schema) {
        Some(next) => next,
        None => schema,
    });
    schema.print_graphql(&mut writer);
    drop(writer);
    buffer.push_str(";\n");
    (buffer, from_real_tsdoc(&schema))
}

fn template_body(module: &str) -> Option<&str> {
    let start = module.find('`')?;
    let end = module.rfind('`')?;
    if end <= start {
        return None;
    }
    Some(&module[start + 1..end])
}

// ------------------------------------------------------------------------------------------------
// string tokens of a GraphQL text (for re-quoting block strings)

/// byte ranges of the block-string tokens of `text`
fn block_literals(text: &str) -> Vec<(usize, usize)> {
    let b = text.as_bytes();
    let mut out = vec![];
    let mut i = 0;
    while i < b.len() {
        match b[i] {
            b'#' => {
                while i < b.len() && b[i] != b'\n' {
                    i += 1;
                }
            }
            b'"' => {
                if b[i..].starts_with(b"\"\"\"") {
                    let start = i;
                    i += 3;
                    loop {
                        if i >= b.len() {
                            out.push((start, b.len()));
                            break;
                        }
                        if b[i..].starts_with(b"\\\"\"\"") {
                            i += 4;
                        } else if b[i..].starts_with(b"\"\"\"") {
                            i += 3;
                            out.push((start, i));
                            break;
                        } else {
                            i += 1;
                        }
                    }
                } else {
                    i += 1;
                    while i < b.len() {
                        if b[i] == b'\\' {
                            i += 2;
                        } else if b[i] == b'"' || b[i] == b'\n' {
                            i += 1;
                            break;
                        } else {
                            i += 1;
                        }
                    }
                }
            }
            _ => i += 1,
        }
    }
    out
}

// ------------------------------------------------------------------------------------------------
// differences and signatures

fn head_of(s: &Sexp) -> String {
    match s {
        Sexp::List(_) => s.head().unwrap_or("list").to_string(),
        Sexp::Str(_) => "str".into(),
        Sexp::Atom(a) => a.clone(),
    }
}

/// path of heads to the first difference, the two differing leaves (if strings)
fn diff_path(a: &Sexp, b: &Sexp, path: &mut Vec<String>) -> Option<(String, Option<(String, String)>)> {
    if a == b {
        return None;
    }
    match (a, b) {
        (Sexp::List(x), Sexp::List(y)) if head_of(a) == head_of(b) => {
            path.push(head_of(a));
            if x.len() != y.len() {
                return Some((format!("{}:arity", path.join("/")), None));
            }
            for (p, q) in x.iter().zip(y.iter()) {
                if let Some(d) = diff_path(p, q, path) {
                    return Some(d);
                }
            }
            None
        }
        (Sexp::Str(x), Sexp::Str(y)) => Some((format!("{}:str", path.join("/")), Some((x.clone(), y.clone())))),
        _ => Some((format!("{}:{}!={}", path.join("/"), head_of(a), head_of(b)), None)),
    }
}

/// directives only nitrogql understands, given the configured plugins: their definitions and applications must be gone
fn nitrogql_only(plugins: &[String]) -> Vec<String> {
    let mut v = vec!["nitrogql_ts_type".to_string()];
    if has_model(plugins) {
        v.push("model".to_string());
    }
    v
}

/// "definition" / "application" if the document defines / applies a directive of that name
fn directive_occurrence(doc: &Sexp, name: &str) -> Option<&'static str> {
    let Sexp::List(v) = doc else { return None };
    match doc.head() {
        Some("dirdef") if v.get(2).and_then(|x| x.as_str()) == Some(name) => return Some("definition"),
        Some("dir") if v.get(1).and_then(|x| x.as_str()) == Some(name) => return Some("application"),
        _ => {}
    }
    v.iter().find_map(|x| directive_occurrence(x, name))
}

fn is_dir_list(s: &Sexp) -> bool {
    matches!(s, Sexp::List(v) if v.iter().all(|x| x.head() == Some("dir")))
}

/// class of the first difference that concerns a LIST of directive applications as such (same applications in another
/// order / an application lost or added), with the kind of node that carries the list; None when the lists hold the same
/// directive names in the same order (the difference is then inside an argument value, or elsewhere)
fn dir_list_diff(a: &Sexp, b: &Sexp, owner: &mut Vec<String>) -> Option<(String, String)> {
    if a == b {
        return None;
    }
    let (Sexp::List(x), Sexp::List(y)) = (a, b) else { return None };
    if is_dir_list(a) && is_dir_list(b) {
        let names = |v: &[Sexp]| -> Vec<String> { v.iter().map(|d| d.args().first().and_then(|n| n.as_str()).unwrap_or("").to_string()).collect() };
        let sorted = |v: &[Sexp]| -> Vec<String> {
            let mut l: Vec<String> = v.iter().map(|d| d.to_line()).collect();
            l.sort();
            l
        };
        let o = owner.last().cloned().unwrap_or_else(|| "document".into());
        if sorted(x) == sorted(y) {
            // the same applications (also: repeated applications of ONE directive that changed places)
            return Some((format!("directive-applications-reordered:{o}"), format!("expected @{} got @{}", names(x).join(" @"), names(y).join(" @"))));
        }
        if names(x) != names(y) {
            return Some((format!("directive-applications-differ:{o}"), format!("expected @{} got @{}", names(x).join(" @"), names(y).join(" @"))));
        }
        // same names in the same order: an argument differs (judged below / by the string classes)
    }
    if head_of(a) != head_of(b) || x.len() != y.len() {
        return None;
    }
    let h = head_of(a);
    let pushed = match h.as_str() {
        "typedef" | "typeext" => {
            owner.push(x.get(1).and_then(|k| k.as_atom()).unwrap_or("type").to_string());
            true
        }
        "fdef" | "ivdef" | "evdef" | "schemadef" | "schemaext" | "dirdef" => {
            owner.push(h.clone());
            true
        }
        _ => false,
    };
    let mut r = None;
    for (p, q) in x.iter().zip(y.iter()) {
        r = dir_list_diff(p, q, owner);
        if r.is_some() {
            break;
        }
    }
    if pushed {
        owner.pop();
    }
    r
}

fn str_leaves<'a>(s: &'a Sexp, out: &mut Vec<&'a str>) {
    match s {
        Sexp::Str(x) => out.push(x),
        Sexp::List(v) => v.iter().for_each(|x| str_leaves(x, out)),
        _ => {}
    }
}

/// does the document hold a string that the printer writes in the quoted form with a raw double quote inside
/// (the open finding "double quote not escaped")? Such a text denotes an unrelated token sequence.
fn has_unescaped_quote(doc: &Sexp) -> bool {
    let mut leaves = vec![];
    str_leaves(doc, &mut leaves);
    leaves.iter().any(|l| l.contains('"') && !printed_as_block(l))
}

fn sort_items(doc: &Sexp) -> Sexp {
    match doc {
        Sexp::List(v) if !v.is_empty() => {
            let mut items: Vec<Sexp> = v[1..].to_vec();
            items.sort_by_key(|i| {
                let l = i.as_list().unwrap_or(&[]);
                let name = l.iter().skip(1).find_map(|x| x.as_str()).unwrap_or("").to_string();
                (head_of(i), name, i.to_line())
            });
            let mut out = vec![v[0].clone()];
            out.extend(items);
            Sexp::List(out)
        }
        x => x.clone(),
    }
}

#[derive(Clone, Copy, PartialEq)]
enum DocKind {
    Ts,
    Op,
}

/// one "does this printed text denote that document" obligation
struct Job {
    stream_sig: &'static str,
    kind: DocKind,
    /// GraphQL text to re-parse
    text: String,
    /// expected document (wire format, positions stripped, sorted when `sort`)
    expected: Sexp,
    sort: bool,
    /// names of directives that must not occur in the re-parsed document at all (nitrogql-only directives)
    forbidden: Vec<String>,
    case: Value,
    what: String,
}

struct Ctx<'a> {
    rep: &'a mut Report,
    drv: &'a mut Driver,
    args: &'a Args,
}

fn ok_str(a: &Sexp) -> Option<String> {
    if a.head() == Some("ok") {
        a.args().first().and_then(|x| x.as_str()).map(|s| s.to_string())
    } else {
        None
    }
}

fn show(s: &str) -> String {
    let e = format!("{s:?}");
    if e.chars().count() > 160 { format!("{}…", e.chars().take(160).collect::<String>()) } else { e }
}

impl<'a> Ctx<'a> {
    // ---------------------------------------------------------------- js
    fn check_js(&mut self, strings: &[String]) {
        let mut reqs = vec![];
        let mut reals = vec![];
        for s in strings {
            let real = real_js_body(s);
            reqs.push(Sexp::call("js.body", vec![Sexp::str(s.as_str())]));
            let body = real.clone().unwrap_or_default();
            reqs.push(Sexp::call("js.cook", vec![Sexp::str(body.as_str())]));
            reqs.push(Sexp::call("js.unbroken", vec![Sexp::str(body.as_str())]));
            reals.push(real);
        }
        let ans = self.drv.batch(&reqs);
        for (i, s) in strings.iter().enumerate() {
            self.rep.evaluations += 1;
            self.rep.k_cases += 1;
            self.rep.o_cases += 1;
            for f in string_features(s) {
                self.rep.count(&format!("js:feature:{f}"));
            }
            let case = json!({"kind": "js", "s": s});
            let real = match &reals[i] {
                Ok(b) => b.clone(),
                Err(p) => {
                    self.rep.fail("O", "js:panic", &format!("JsStringWriter::write({}) panics: {p}", show(s)), case);
                    continue;
                }
            };
            let model = ok_str(&ans[3 * i]).unwrap_or_else(|| "<bad answer>".into());
            if model != real {
                self.rep.fail("K", "js-body", &format!("JsStringWriter::write({}): code {} model {}", show(s), show(&real), show(&model)), case.clone());
            }
            if s.chars().any(|c| "\\`$".contains(c)) {
                self.rep.nontrivial(&format!("js|{s}"));
            }
            // O: the body is one unbroken literal and its cooked value is the text
            let unbroken = ans[3 * i + 2].args().first().and_then(|x| x.as_atom()) == Some("true");
            if !unbroken {
                self.rep.fail("O", "js:literal-broken", &format!("text {} is written as {} which ends the template literal or starts a substitution", show(s), show(&real)), case.clone());
                continue;
            }
            let cooked = ok_str(&ans[3 * i + 1]);
            if s.contains('\r') {
                // a raw CR is normalised to LF by template cooking; the writer does not escape it. The GraphQL printer never
                // hands a CR to the writer (theorem `printQuoted_no_cr` + the `canBlock` guard; the `server` stream checks descriptions with CR end to end)
                self.rep.count("js:outside-O-domain(text contains CR)");
                if cooked.as_deref() == Some(s.as_str()) {
                    self.rep.notes.push(format!("unexpected: text with CR {} cooked back unchanged", show(s)));
                }
            } else if cooked.as_deref() != Some(s.as_str()) {
                self.rep.fail("O", "js:cooked-differs", &format!("text {} is written as {}; its cooked value is {:?}", show(s), show(&real), cooked), case.clone());
            }
        }
    }

    // ---------------------------------------------------------------- string literals
    /// does `s` still fail the same way: printed in the same form (block / quoted) and not denoting `s`
    fn string_fails_like(&mut self, s: &str, block: bool, not_a_token: bool) -> bool {
        let Ok(lit) = real_print_string(s) else { return false };
        if printed_as_block(s) != block {
            return false;
        }
        let a = ok_str(&self.drv.one(&Sexp::call("gql.decode-string", vec![Sexp::str(lit.as_str())])));
        a.is_none() == not_a_token && a.as_deref() != Some(s)
    }

    fn minimise_string(&mut self, s: &str) -> String {
        let lit = real_print_string(s).unwrap_or_default();
        let block = printed_as_block(s);
        let not_a_token = ok_str(&self.drv.one(&Sexp::call("gql.decode-string", vec![Sexp::str(lit.as_str())]))).is_none();
        let mut cur: Vec<char> = s.chars().collect();
        let mut progress = true;
        while progress {
            progress = false;
            let mut i = 0;
            while i < cur.len() {
                let mut t = cur.clone();
                t.remove(i);
                let ts: String = t.iter().collect();
                if self.string_fails_like(&ts, block, not_a_token) {
                    cur = t;
                    progress = true;
                } else {
                    i += 1;
                }
            }
        }
        // normalise letters
        cur.iter().map(|c| if c.is_alphanumeric() { 'a' } else { *c }).collect()
    }

    /// class of a string that did not come back: by the form the real printer chose for it
    fn string_class(&mut self, expected: &str, got: Option<&str>) -> String {
        let quoted = !printed_as_block(expected);
        if quoted {
            return if expected.contains('"') { "double-quote-not-escaped".into() } else { "quoted-string-altered".into() };
        }
        if let Some(g) = got {
            let bv = ok_str(&self.drv.one(&Sexp::call("gql.block-value", vec![Sexp::str(expected)])));
            if bv.as_deref() == Some(g) {
                return "multi-line-string-reinterpreted-as-block-string".into();
            }
        }
        "block-string-altered".into()
    }

    fn check_strings(&mut self, strings: &[String]) {
        let mut reqs = vec![];
        let mut reals = vec![];
        for s in strings {
            let real = real_print_string(s);
            reqs.push(Sexp::call("gql.print-string", vec![Sexp::str(s.as_str())]));
            reqs.push(Sexp::call("gql.decode-string", vec![Sexp::str(real.clone().unwrap_or_default().as_str())]));
            reals.push(real);
        }
        let ans = self.drv.batch(&reqs);
        for (i, s) in strings.iter().enumerate() {
            self.rep.evaluations += 1;
            self.rep.k_cases += 1;
            self.rep.o_cases += 1;
            for f in string_features(s) {
                self.rep.count(&format!("string:feature:{f}"));
            }
            let case = json!({"kind": "string", "s": s});
            let real = match &reals[i] {
                Ok(b) => b.clone(),
                Err(p) => {
                    self.rep.fail("O", "string:panic", &format!("print_string({}) panics: {p}", show(s)), case);
                    continue;
                }
            };
            self.rep.count(if printed_as_block(s) { "string:form:block" } else { "string:form:quoted" });
            let model = ok_str(&ans[2 * i]).unwrap_or_else(|| "<bad answer>".into());
            if model != real {
                self.rep.fail("K", "print-string", &format!("print_string({}): code {} model {}", show(s), show(&real), show(&model)), case.clone());
            }
            if s.chars().any(|c| "\\\"\n\r".contains(c) || c.is_control()) {
                self.rep.nontrivial(&format!("str|{s}"));
            }
            let decoded = ok_str(&ans[2 * i + 1]);
            if decoded.as_deref() != Some(s.as_str()) {
                let min = self.minimise_string(s);
                let min_lit = real_print_string(&min).unwrap_or_default();
                let min_dec = ok_str(&self.drv.one(&Sexp::call("gql.decode-string", vec![Sexp::str(min_lit.as_str())])));
                let class = self.string_class(&min, min_dec.as_deref());
                self.rep.fail(
                    "O",
                    &format!("string:{class}"),
                    &format!("print_string({}) = {} which denotes {:?} (minimised: {} -> {} -> {:?})", show(s), show(&real), decoded, show(&min), show(&min_lit), min_dec),
                    json!({"kind": "string", "s": s, "minimal": min}),
                );
            }
        }
    }

    // ---------------------------------------------------------------- re-parse jobs
    fn run_jobs(&mut self, jobs: Vec<Job>) {
        // 1. value of every block string literal, by the Lean spec
        let mut reqs = vec![];
        let mut spans = vec![];
        for j in &jobs {
            let lits = block_literals(&j.text);
            for (a, b) in &lits {
                reqs.push(Sexp::call("gql.decode-string", vec![Sexp::str(&j.text[*a..*b])]));
            }
            spans.push(lits);
        }
        let ans = self.drv.batch(&reqs);
        let mut k = 0;
        for (j, lits) in jobs.into_iter().zip(spans.into_iter()) {
            let mut text = String::new();
            let mut at = 0;
            for (a, b) in lits {
                text.push_str(&j.text[at..a]);
                match ok_str(&ans[k]) {
                    Some(v) => text.push_str(&escape_string(&v)),
                    None => text.push_str(&j.text[a..b]),
                }
                k += 1;
                at = b;
            }
            text.push_str(&j.text[at..]);
            self.rep.o_cases += 1;
            // 2. the real parser
            let parsed: Result<Sexp, (String, usize)> = match j.kind {
                DocKind::Ts => match catch(std::panic::AssertUnwindSafe(|| parse_type_system_document(&text).map(|d| from_real_tsdoc_ext(&d).to_sexp()))) {
                    Ok(Ok(d)) => Ok(d),
                    Ok(Err(e)) => {
                        let pe: PositionedError = e.into();
                        let line = pe.position().map_or(0, |p| p.line);
                        Err((format!("{}", pe.into_inner()), line))
                    }
                    Err(p) => Err((format!("parser panic: {p}"), usize::MAX)),
                },
                DocKind::Op => match catch(std::panic::AssertUnwindSafe(|| parse_operation_document(&text).map(|d| from_real_doc_ext(&d).to_sexp()))) {
                    Ok(Ok(d)) => Ok(d),
                    Ok(Err(e)) => {
                        let pe: PositionedError = e.into();
                        let line = pe.position().map_or(0, |p| p.line);
                        Err((format!("{}", pe.into_inner()), line))
                    }
                    Err(p) => Err((format!("parser panic: {p}"), usize::MAX)),
                },
            };
            let poisoned = has_unescaped_quote(&j.expected);
            match parsed {
                Err((msg, line)) if poisoned => {
                    self.rep.fail("O", &format!("{}:double-quote-not-escaped", j.stream_sig),
                        &format!("{}: a string with a double quote is printed without escaping it; the text does not parse ({}) at line {}: {}", j.what, msg.lines().next().unwrap_or(""), line, show(text.lines().nth(line).unwrap_or(""))), j.case);
                }
                Err((msg, line)) => {
                    // the last non-blank line at or before the reported position
                    let all_lines: Vec<&str> = text.lines().collect();
                    let mut li = line.min(all_lines.len().saturating_sub(1));
                    while li > 0 && all_lines.get(li).map_or(true, |l| l.trim().is_empty()) {
                        li -= 1;
                    }
                    let l = all_lines.get(li).copied().unwrap_or("");
                    const KW: [&str; 16] = ["extend", "schema", "union", "type", "interface", "enum", "input", "scalar", "directive", "query", "mutation", "subscription", "fragment", "import", "implements", "on"];
                    let words: Vec<&str> = l.split(|c: char| !c.is_ascii_alphabetic()).filter(|w| KW.contains(w)).take(2).collect();
                    let ctx = if l.contains('"') { "near-string-literal".to_string() } else if words.is_empty() { "other".into() } else { words.join("-") };
                    let ctx = if line == usize::MAX { "panic".to_string() } else { ctx };
                    self.rep.fail(
                        "O",
                        &format!("{}:does-not-reparse:{}", j.stream_sig, ctx),
                        &format!("{}: the printed text does not parse ({}) at line {}: {}", j.what, msg.lines().next().unwrap_or(""), line, show(l)),
                        j.case,
                    );
                }
                Ok(got) => {
                    let mut got = strip_pos(&got);
                    if j.sort {
                        got = sort_items(&got);
                    }
                    let mut path = vec![];
                    let left = if poisoned { None } else { j.forbidden.iter().find_map(|n| directive_occurrence(&got, n).map(|w| (n.clone(), w))) };
                    if let Some((n, w)) = left {
                        self.rep.fail("O", &format!("{}:nitrogql-only-directive-left:{n}:{w}", j.stream_sig), &format!("{}: the text still holds the {w} of the nitrogql-only directive @{n}", j.what), j.case);
                    } else if let Some((p, leaves)) = diff_path(&j.expected, &got, &mut path) {
                        let dir_class = if poisoned { None } else { dir_list_diff(&j.expected, &got, &mut vec![]) };
                        let (sig, detail) = match leaves {
                            _ if poisoned => (format!("{}:double-quote-not-escaped", j.stream_sig), format!("a string with a double quote is printed without escaping it; the text parses to a different document (first difference at {p})")),
                            _ if dir_class.is_some() => {
                                let (c, d) = dir_class.unwrap();
                                (format!("{}:{c}", j.stream_sig), format!("the list of directive applications of a definition is not preserved in order ({c}: {d}; first difference at {p})"))
                            }
                            Some((e, g)) => {
                                let class = self.string_class(&e, Some(&g));
                                (format!("{}:{}", j.stream_sig, class), format!("string {} came back as {} at {p}", show(&e), show(&g)))
                            }
                            None => (format!("{}:{}", j.stream_sig, p), format!("documents differ at {p}")),
                        };
                        self.rep.fail("O", &sig, &format!("{}: {detail}", j.what), j.case);
                    }
                }
            }
        }
    }

    // ---------------------------------------------------------------- parse(print(A)) = A, and K of the printer
    fn check_print_parse(&mut self, kind: DocKind, texts: &[(String, Value)]) {
        let mut reqs = vec![];
        let mut keep = vec![];
        for (t, origin) in texts {
            let r: Result<(Sexp, Result<String, String>), String> = match kind {
                DocKind::Ts => catch(std::panic::AssertUnwindSafe(|| parse_type_system_document(t).map(|d| (from_real_tsdoc_ext(&d).to_sexp(), print_just(&d))).map_err(|e| format!("{e:?}")))).and_then(|x| x),
                DocKind::Op => catch(std::panic::AssertUnwindSafe(|| parse_operation_document(t).map(|d| (from_real_doc_ext(&d).to_sexp(), print_just(&d))).map_err(|e| format!("{e:?}")))).and_then(|x| x),
            };
            match r {
                Err(_) => self.rep.count("print-parse:input-not-parsed(skipped)"),
                Ok((model, printed)) => {
                    reqs.push(Sexp::call(if kind == DocKind::Ts { "gql.print.tsext" } else { "gql.print.op" }, vec![model.clone()]));
                    keep.push((t.clone(), origin.clone(), model, printed));
                }
            }
        }
        let ans = self.drv.batch(&reqs);
        let mut jobs = vec![];
        for (i, (t, origin, model, printed)) in keep.into_iter().enumerate() {
            self.rep.evaluations += 1;
            self.rep.k_cases += 1;
            let kname = if kind == DocKind::Ts { "ts" } else { "op" };
            let case = json!({"kind": "print-parse", "doc": kname, "text": t, "origin": origin});
            let printed = match printed {
                Ok(p) => p,
                Err(p) => {
                    self.rep.fail("O", &format!("print-parse:{kname}:print-panics"), &format!("print_graphql panics: {p}"), case);
                    continue;
                }
            };
            let m = ok_str(&ans[i]).unwrap_or_else(|| format!("<bad answer {}>", ans[i]));
            if m != printed {
                let at = m.chars().zip(printed.chars()).take_while(|(a, b)| a == b).count();
                let ctx: String = printed.chars().skip(at.saturating_sub(30)).take(60).collect();
                let ctxm: String = m.chars().skip(at.saturating_sub(30)).take(60).collect();
                self.rep.fail("K", &format!("print-{kname}"), &format!("print_graphql text differs from the model at char {at}: code …{}… model …{}…", show(&ctx), show(&ctxm)), case.clone());
            }
            self.rep.nontrivial(&format!("{kname}|{t}"));
            jobs.push(Job {
                stream_sig: if kind == DocKind::Ts { "print-parse:ts" } else { "print-parse:op" },
                kind,
                text: printed,
                expected: strip_pos(&model),
                sort: false,
                forbidden: vec![],
                case,
                what: format!("parse(print(A)) for a parsed {kname} document"),
            });
        }
        self.run_jobs(jobs);
    }

    // ---------------------------------------------------------------- serverGraphqlOutput, library path
    fn check_server(&mut self, cases: &[(Vec<String>, Vec<String>, Value)]) {
        struct S {
            case: Value,
            module: String,
            resolved: Sexp,
            stripped: Sexp,
            plugins: Vec<String>,
        }
        let mut ss = vec![];
        for (texts, plugins, origin) in cases {
            let mut all = texts.clone();
            all.extend(plugin_additions(plugins));
            let case = json!({"kind": "server", "texts": texts, "plugins": plugins, "model_plugin": has_model(plugins), "origin": origin});
            self.rep.count(&format!("server:plugins:[{}]", plugins.join(",")));
            let r = with_schema(&all, |resolved, _| {
                let (module, stripped) = real_server_module(resolved, plugins);
                (module, from_real_tsdoc(resolved).to_sexp(), stripped.to_sexp())
            });
            match r {
                Ok((module, resolved, stripped)) => ss.push(S { case, module, resolved, stripped, plugins: plugins.clone() }),
                Err(Stage::Panic(stage, p)) if stage == "after-schema" => {
                    self.rep.fail("O", "server:generate-panics", &format!("composing serverGraphqlOutput panics: {p}"), case);
                }
                Err(e) => {
                    self.rep.count("server:schema-rejected(skipped)");
                    if self.args.replay.is_some() {
                        self.rep.notes.push(format!("schema rejected: {e:?}"));
                    }
                }
            }
        }
        let mut reqs = vec![];
        for s in &ss {
            // K: the model composes the configured plugins in order, as generate.rs does; O: the specification strips every
            // nitrogql-only directive of the configured plugins, whatever their order
            let ps = plugins_sexp(&s.plugins);
            reqs.push(Sexp::call("gql.strip-plugins", vec![s.resolved.clone(), ps.clone()]));
            reqs.push(Sexp::call("gql.strip-spec", vec![s.resolved.clone(), Sexp::bool(has_model(&s.plugins))]));
            reqs.push(Sexp::call("gql.server-module-plugins", vec![s.resolved.clone(), ps]));
            reqs.push(Sexp::call("js.cook", vec![Sexp::str(template_body(&s.module).unwrap_or(""))]));
        }
        let ans = self.drv.batch(&reqs);
        let mut jobs = vec![];
        for (i, s) in ss.into_iter().enumerate() {
            self.rep.evaluations += 1;
            self.rep.k_cases += 2;
            let a = &ans[4 * i..4 * i + 4];
            // K: strip
            let model_stripped = a[0].args().first().cloned().unwrap_or(Sexp::atom("bad"));
            if strip_pos(&model_stripped) != strip_pos(&s.stripped) {
                let mut p = vec![];
                let d = diff_path(&strip_pos(&s.stripped), &strip_pos(&model_stripped), &mut p).map(|x| x.0).unwrap_or_default();
                // (model, code): "expected" = the model's ordered list
                let dl = dir_list_diff(&strip_pos(&model_stripped), &strip_pos(&s.stripped), &mut vec![]).map(|(c, x)| format!(" ({c}: {x})")).unwrap_or_default();
                self.rep.fail("K", "strip", &format!("remove_builtins / plugin transform differs from the model at {d}{dl}"), s.case.clone());
            }
            // K: module text
            let model_module = ok_str(&a[2]).unwrap_or_default();
            if model_module != s.module {
                let at = model_module.chars().zip(s.module.chars()).take_while(|(a, b)| a == b).count();
                let ctx: String = s.module.chars().skip(at.saturating_sub(30)).take(60).collect();
                let ctxm: String = model_module.chars().skip(at.saturating_sub(30)).take(60).collect();
                self.rep.fail("K", "server-module", &format!("serverGraphqlOutput text differs from the model at char {at}: code …{}… model …{}…", show(&ctx), show(&ctxm)), s.case.clone());
            }
            // O
            let expected = sort_items(&strip_pos(&a[1].args().first().cloned().unwrap_or(Sexp::atom("bad"))));
            match ok_str(&a[3]) {
                None => {
                    self.rep.o_cases += 1;
                    self.rep.fail("O", "server:template-broken", "the module's template literal is ended early, starts a substitution, or holds an invalid escape", s.case);
                }
                Some(sdl) => {
                    self.rep.nontrivial(&format!("server|{}", s.module));
                    jobs.push(Job { stream_sig: "server", kind: DocKind::Ts, text: sdl, expected, sort: true, forbidden: nitrogql_only(&s.plugins), case: s.case, what: "parse(cook(serverGraphqlOutput))".into() });
                }
            }
        }
        self.run_jobs(jobs);
    }

    // ---------------------------------------------------------------- serverGraphqlOutput, real CLI
    fn check_cli(&mut self, idx: usize, texts: &[String], plugins: &[String], origin: Value) {
        let cli = self.args.extra.get("cli").cloned().unwrap_or_default();
        if cli.is_empty() || !std::path::Path::new(&cli).exists() {
            self.rep.count("cli:binary-missing(skipped)");
            return;
        }
        let root = std::path::Path::new(&self.args.scratch).join(format!("c16-proj-{idx}"));
        let _ = std::fs::remove_dir_all(&root);
        std::fs::create_dir_all(root.join("schema")).expect("scratch project");
        for (i, t) in texts.iter().enumerate() {
            std::fs::write(root.join("schema").join(format!("s{i:02}.graphql")), t).expect("write schema");
        }
        let mut yaml = String::from("schema: \"schema/*.graphql\"\nextensions:\n  nitrogql:\n");
        if !plugins.is_empty() {
            yaml.push_str("    plugins:\n");
            for p in plugins {
                yaml.push_str(&format!("      - \"{}\"\n", plugin_config_name(p)));
            }
        }
        self.rep.count(&format!("cli:plugins:[{}]", plugins.join(",")));
        yaml.push_str("    generate:\n      schemaOutput: \"out/schema.d.ts\"\n      serverGraphqlOutput: \"out/server.ts\"\n      type:\n        scalarTypes:\n          Date: string\n          JSON: unknown\n");
        std::fs::write(root.join("graphql.config.yaml"), yaml).expect("write config");
        let case = json!({"kind": "cli", "texts": texts, "plugins": plugins, "model_plugin": has_model(plugins), "origin": origin.clone()});
        let out = std::process::Command::new(&cli).arg("generate").current_dir(&root).output();
        let module = std::fs::read_to_string(root.join("out/server.ts"));
        let _ = std::fs::remove_dir_all(&root);
        let (out, module) = match (out, module) {
            (Ok(out), Ok(module)) => (out, module),
            (out, _) => {
                self.rep.count("cli:no-output(skipped)");
                let msg = out.map(|o| format!("{} {}", String::from_utf8_lossy(&o.stdout), String::from_utf8_lossy(&o.stderr))).unwrap_or_else(|e| e.to_string());
                self.rep.notes.push(format!("cli produced no server module for {origin}: {}", msg.chars().take(400).collect::<String>()));
                return;
            }
        };
        if !out.status.success() {
            self.rep.count("cli:nonzero-exit(skipped)");
            return;
        }
        self.rep.count("cli:projects");
        // the library composition on the same texts
        let mut all = texts.to_vec();
        all.extend(plugin_additions(plugins));
        let Ok((lib_module, resolved)) = with_schema(&all, |resolved, _| (real_server_module(resolved, plugins).0, from_real_tsdoc(resolved).to_sexp())) else {
            self.rep.fail("O", "cli:accepts-what-library-rejects", "the CLI generated a server module for a schema the library pipeline rejects", case);
            return;
        };
        self.rep.evaluations += 1;
        self.rep.k_cases += 1;
        let ans = self.drv.batch(&[
            Sexp::call("gql.server-module-plugins", vec![resolved.clone(), plugins_sexp(plugins)]),
            Sexp::call("gql.strip-spec", vec![resolved, Sexp::bool(has_model(plugins))]),
            Sexp::call("js.cook", vec![Sexp::str(template_body(&module).unwrap_or(""))]),
        ]);
        let model_module = ok_str(&ans[0]).unwrap_or_default();
        if model_module != module {
            let at = model_module.chars().zip(module.chars()).take_while(|(a, b)| a == b).count();
            let ctx: String = module.chars().skip(at.saturating_sub(30)).take(60).collect();
            let lib = if lib_module == module { "library composition agrees with the CLI" } else { "library composition ALSO differs from the CLI" };
            self.rep.fail("K", "cli-server-module", &format!("CLI serverGraphqlOutput differs from the model at char {at}: …{}… ({lib})", show(&ctx)), case.clone());
        }
        let expected = sort_items(&strip_pos(&ans[1].args().first().cloned().unwrap_or(Sexp::atom("bad"))));
        match ok_str(&ans[2]) {
            None => {
                self.rep.o_cases += 1;
                self.rep.fail("O", "server:template-broken", "the CLI module's template literal is ended early, starts a substitution, or holds an invalid escape", case);
            }
            Some(sdl) => self.run_jobs(vec![Job { stream_sig: "server", kind: DocKind::Ts, text: sdl, expected, sort: true, forbidden: nitrogql_only(plugins), case, what: "parse(cook(serverGraphqlOutput of the CLI))".into() }]),
        }
    }
}

// ------------------------------------------------------------------------------------------------
// generated documents

const DESCS: [&str; 16] = [
    "say \"hi\" \\ there", "ends with quote\"", "back`tick ${x} $\\{y}", "multi\nline", "multi\nline ends with quote\"", "multi\nline\\", "with \"\"\" inside\nline",
    "cr\r\nlf", "\u{1}\u{7f} controls", "é 😀 astral", "\\u0041 \\n literal", "*/ */", "tab\there\nand\tthere", "a\n\nb", "$", "`",
];
/// strings whose block-string reading differs from the string (the open finding)
const DESCS_BLOCK_UNFAITHFUL: [&str; 5] = ["\nleading newline", "trailing newline\n", "a\n  indented\n  lines", "a\n b", "  first\nsecond  \n"];

fn hostile_text(rng: &mut Rng, unfaithful: bool) -> String {
    if unfaithful && rng.chance(1, 5) {
        DESCS_BLOCK_UNFAITHFUL[rng.below(DESCS_BLOCK_UNFAITHFUL.len())].to_string()
    } else if rng.chance(1, 3) {
        gen_string(rng)
    } else {
        DESCS[rng.below(DESCS.len())].to_string()
    }
}

/// sprinkle extra hostile descriptions / default strings / nitrogql-only directive applications over a generated schema
fn decorate(rng: &mut Rng, schema: &mut SchemaModel, plugin: bool, unfaithful: bool, feats: &mut Vec<String>) {
    for item in schema.doc.items.iter_mut() {
        match item {
            TsItem::TypeDef(t) => {
                if rng.chance(1, 4) {
                    t.desc = Some(hostile_text(rng, unfaithful));
                    feats.push("hostile-type-desc".into());
                }
                if t.kind == TypeKind::Scalar && rng.chance(2, 3) {
                    let args = ["resolverInput", "resolverOutput", "operationInput", "operationOutput"]
                        .iter()
                        .map(|a| Arg::new(a, Val::Str(if rng.coin() { "string".into() } else { hostile_text(rng, false) }, P::default())))
                        .collect();
                    t.dirs.push(Dir::new("nitrogql_ts_type", args));
                    feats.push("nitrogql_ts_type-on-scalar".into());
                }
                if plugin && t.kind == TypeKind::Object && t.name != schema.query {
                    if rng.chance(1, 4) {
                        t.dirs.push(Dir::new("model", vec![Arg::new("type", Val::Str(hostile_text(rng, false), P::default()))]));
                        feats.push("model-on-object".into());
                    } else {
                        for f in t.fields.iter_mut() {
                            if rng.chance(1, 4) {
                                f.dirs.push(Dir::new("model", vec![]));
                                feats.push("model-on-field".into());
                            }
                        }
                    }
                }
                for f in t.fields.iter_mut() {
                    if rng.chance(1, 6) {
                        f.desc = Some(hostile_text(rng, unfaithful));
                        feats.push("hostile-field-desc".into());
                    }
                    for a in f.args.iter_mut() {
                        if rng.chance(1, 8) {
                            a.desc = Some(hostile_text(rng, unfaithful));
                            feats.push("hostile-arg-desc".into());
                        }
                        if a.default.is_none() && a.ty.text() == "String" && rng.coin() {
                            a.default = Some(Val::Str(hostile_text(rng, unfaithful), P::default()));
                            feats.push("hostile-arg-default".into());
                        }
                    }
                }
                for f in t.inputs.iter_mut() {
                    if f.default.is_none() && f.ty.text() == "String" && rng.coin() {
                        f.default = Some(Val::Str(hostile_text(rng, unfaithful), P::default()));
                        feats.push("hostile-input-default".into());
                    }
                }
                for v in t.values.iter_mut() {
                    if rng.chance(1, 8) {
                        v.desc = Some(hostile_text(rng, unfaithful));
                        feats.push("hostile-enum-value-desc".into());
                    }
                }
            }
            TsItem::DirectiveDef(d) => {
                if rng.chance(1, 3) {
                    d.desc = Some(hostile_text(rng, unfaithful));
                    feats.push("hostile-directive-desc".into());
                }
            }
            TsItem::SchemaDef(s) => {
                if rng.chance(1, 2) {
                    s.desc = Some(hostile_text(rng, unfaithful));
                    feats.push("hostile-schema-desc".into());
                }
            }
            _ => {}
        }
    }
}

// ------------------------------------------------------------------------------------------------
// the "several directive applications" family: every place of a type-system document where directives can stand
// gets a LIST of applications (repeatable custom directives applied several times with different arguments, a
// non-repeatable custom directive, `@specifiedBy` on scalars, `@deprecated` where it is legal) in a random order, with
// the directive that the server module must lose (`@nitrogql_ts_type` on scalars, `@model` on objects / fields) at the
// first / a middle / the last position; the lists of definitions are then cut between the definition and one or two
// `extend …` items, which may live in a file of their own. Order of directive applications is significant (GraphQL
// §3.13: "directives may be provided in a specific syntactic order which may have semantic significance").

const DIRFAM_STEPS: [&str; 6] = ["trim", "parse", "lower", "a", "b", "c"];

fn dirfam_defs(rng: &mut Rng, unfaithful: bool) -> Vec<TsItem> {
    let ivd = |name: &str, ty: Ty| InputValueDef { desc: None, name: name.to_string(), pos: P::default(), ty, default: None, dirs: vec![] };
    let mut locs = |rng: &mut Rng| {
        let mut l: Vec<String> = TS_LOCATIONS.iter().map(|s| s.to_string()).collect();
        if rng.coin() {
            rng.shuffle(&mut l);
        }
        l
    };
    let mut defs = vec![
        DirectiveDef { desc: None, name: "fmt".into(), name_pos: P::default(), args: vec![ivd("step", Ty::named("String")), ivd("n", Ty::named("Int"))], repeatable: true, locations: locs(rng), pos: P::default() },
        DirectiveDef { desc: None, name: "key".into(), name_pos: P::default(), args: vec![ivd("fields", Ty::list(Ty::non_null(Ty::named("String"))))], repeatable: true, locations: locs(rng), pos: P::default() },
        DirectiveDef { desc: None, name: "mark".into(), name_pos: P::default(), args: vec![ivd("label", Ty::named("String"))], repeatable: false, locations: locs(rng), pos: P::default() },
    ];
    for d in defs.iter_mut() {
        if rng.chance(1, 4) {
            d.desc = Some(hostile_text(rng, unfaithful));
        }
    }
    defs.into_iter().map(TsItem::DirectiveDef).collect()
}

/// one more application that is legal at `loc` next to the applications named in `have`
fn dirfam_app(rng: &mut Rng, loc: &str, have: &mut Vec<String>) -> Dir {
    let s = |t: &str| Val::Str(t.to_string(), P::default());
    loop {
        match rng.below(6) {
            0 | 1 => {
                let mut args = vec![];
                if !rng.chance(1, 6) {
                    let step = if rng.chance(1, 8) { hostile_text(rng, false) } else { DIRFAM_STEPS[rng.below(DIRFAM_STEPS.len())].to_string() };
                    args.push(Arg::new("step", s(&step)));
                }
                if rng.chance(1, 3) {
                    args.push(Arg::new("n", Val::Int(rng.below(10).to_string(), P::default())));
                }
                if rng.chance(1, 6) {
                    args.reverse();
                }
                return Dir::new("fmt", args);
            }
            2 => {
                let n = rng.below(3);
                let fields = (0..n).map(|i| s(["id", "a b", "x { y }"][i])).collect();
                return Dir::new("key", if rng.chance(1, 5) { vec![] } else { vec![Arg::new("fields", Val::List(fields, P::default()))] });
            }
            3 if !have.iter().any(|h| h == "mark") => {
                have.push("mark".into());
                return Dir::new("mark", if rng.coin() { vec![Arg::new("label", s("m"))] } else { vec![] });
            }
            4 if loc == "SCALAR" && !have.iter().any(|h| h == "specifiedBy") => {
                have.push("specifiedBy".into());
                return Dir::new("specifiedBy", vec![Arg::new("url", s("https://example.com/spec"))]);
            }
            5 if ["FIELD_DEFINITION", "ARGUMENT_DEFINITION", "INPUT_FIELD_DEFINITION", "ENUM_VALUE"].contains(&loc) && !have.iter().any(|h| h == "deprecated") => {
                have.push("deprecated".into());
                return Dir::new("deprecated", if rng.coin() { vec![Arg::new("reason", s("use the other one"))] } else { vec![] });
            }
            _ => {}
        }
    }
}

/// turn `dirs` into a longer list in a random order; the applications named in `special` (the ones the server module
/// must lose) go to the first / a middle / the last position
fn dirfam_mix(rng: &mut Rng, dirs: &mut Vec<Dir>, loc: &str, special: &[&str], feats: &mut Vec<String>) {
    let mut have: Vec<String> = dirs.iter().map(|d| d.name.clone()).collect();
    let (sp, mut rest): (Vec<Dir>, Vec<Dir>) = std::mem::take(dirs).into_iter().partition(|d| special.contains(&d.name.as_str()));
    let extra = if sp.is_empty() { rng.below(4) } else { 1 + rng.below(4) };
    for _ in 0..extra {
        rest.push(dirfam_app(rng, loc, &mut have));
    }
    rng.shuffle(&mut rest);
    for d in sp {
        let (at, place) = match rng.below(3) {
            0 => (0, "first"),
            1 => (rest.len() / 2, "middle"),
            _ => (rest.len(), "last"),
        };
        feats.push(format!("dirlist:{}-position:{place}", d.name));
        if rest.len() - at >= 2 {
            feats.push(format!("dirlist:{}-followed-by-2-or-more", d.name));
        }
        rest.insert(at, d);
    }
    if rest.len() >= 3 {
        feats.push(format!("dirlist:3-or-more-applications-on:{loc}"));
    }
    *dirs = rest;
}

fn dirfam_loc(k: TypeKind) -> &'static str {
    match k {
        TypeKind::Scalar => "SCALAR",
        TypeKind::Object => "OBJECT",
        TypeKind::Interface => "INTERFACE",
        TypeKind::Union => "UNION",
        TypeKind::Enum => "ENUM",
        TypeKind::Input => "INPUT_OBJECT",
    }
}

fn dirfam_decorate(rng: &mut Rng, schema: &mut SchemaModel, unfaithful: bool, feats: &mut Vec<String>) {
    // names of the family's directives must be free (the shared generator uses `tag` and `auth`)
    if schema.doc.items.iter().any(|i| matches!(i, TsItem::DirectiveDef(d) if ["fmt", "key", "mark"].contains(&d.name.as_str()))) {
        return;
    }
    feats.push("dirlist:family".into());
    const SPECIAL: [&str; 2] = ["nitrogql_ts_type", "model"];
    for item in schema.doc.items.iter_mut() {
        match item {
            TsItem::TypeDef(t) => {
                if t.kind == TypeKind::Scalar || rng.chance(1, 2) {
                    dirfam_mix(rng, &mut t.dirs, dirfam_loc(t.kind), &SPECIAL, feats);
                }
                for f in t.fields.iter_mut() {
                    if rng.chance(1, 4) || f.dirs.iter().any(|d| d.name == "model") {
                        dirfam_mix(rng, &mut f.dirs, "FIELD_DEFINITION", &SPECIAL, feats);
                    }
                    for a in f.args.iter_mut() {
                        if rng.chance(1, 6) {
                            dirfam_mix(rng, &mut a.dirs, "ARGUMENT_DEFINITION", &SPECIAL, feats);
                        }
                    }
                }
                for v in t.values.iter_mut() {
                    if rng.chance(1, 4) {
                        dirfam_mix(rng, &mut v.dirs, "ENUM_VALUE", &SPECIAL, feats);
                    }
                }
                for f in t.inputs.iter_mut() {
                    if rng.chance(1, 4) {
                        dirfam_mix(rng, &mut f.dirs, "INPUT_FIELD_DEFINITION", &SPECIAL, feats);
                    }
                }
            }
            TsItem::SchemaDef(s) => {
                if rng.coin() {
                    dirfam_mix(rng, &mut s.dirs, "SCHEMA", &SPECIAL, feats);
                }
            }
            _ => {}
        }
    }
    for d in dirfam_defs(rng, unfaithful) {
        let at = rng.below(schema.doc.items.len() + 1);
        schema.doc.items.insert(at, d);
    }
}

/// cut directive lists of definitions between the definition and one or two `extend …` items (returned; the caller
/// decides where they go). The merged list is the same.
fn dirfam_split(rng: &mut Rng, doc: &mut TsDoc, feats: &mut Vec<String>) -> Vec<TsItem> {
    let mut exts = vec![];
    for item in doc.items.iter_mut() {
        match item {
            TsItem::TypeDef(t) if !t.dirs.is_empty() && rng.coin() => {
                let mut ext = TypeDef::new(t.kind, &t.name);
                if t.kind == TypeKind::Union {
                    // `extend union U @d` without members is printed with a dangling `=` (open finding): keep clear of it
                    if t.members.len() < 2 {
                        continue;
                    }
                    ext.members = vec![t.members.pop().unwrap()];
                }
                let k = rng.below(t.dirs.len());
                ext.dirs = t.dirs.split_off(k);
                feats.push(format!("dirlist:split-definition/extension:{}", t.kind.as_str()));
                if ext.dirs.len() >= 2 && t.kind != TypeKind::Union && rng.chance(1, 3) {
                    let mut ext2 = TypeDef::new(t.kind, &t.name);
                    let j = 1 + rng.below(ext.dirs.len() - 1);
                    ext2.dirs = ext.dirs.split_off(j);
                    exts.push(TsItem::TypeExt(ext));
                    exts.push(TsItem::TypeExt(ext2));
                    feats.push("dirlist:two-extensions-of-one-type".into());
                } else {
                    exts.push(TsItem::TypeExt(ext));
                }
            }
            TsItem::SchemaDef(s) if !s.dirs.is_empty() && rng.coin() => {
                let k = rng.below(s.dirs.len());
                let ext = SchemaDef { desc: None, dirs: s.dirs.split_off(k), roots: vec![], pos: P::default() };
                feats.push("dirlist:split-definition/extension:schema".into());
                exts.push(TsItem::SchemaExt(ext));
            }
            _ => {}
        }
    }
    exts
}

fn unquote(s: &mut String) {
    if s.contains('"') {
        *s = s.replace('"', "'");
    }
}
fn unquote_val(v: &mut Val) {
    match v {
        Val::Str(s, _) => unquote(s),
        Val::List(vs, _) => vs.iter_mut().for_each(unquote_val),
        Val::Obj(fs, _) => fs.iter_mut().for_each(|a| unquote_val(&mut a.value)),
        _ => {}
    }
}
fn unquote_dirs(ds: &mut [Dir]) {
    for d in ds {
        d.args.iter_mut().for_each(|a| unquote_val(&mut a.value));
    }
}
fn unquote_iv(v: &mut InputValueDef) {
    v.desc.iter_mut().for_each(unquote);
    v.default.iter_mut().for_each(unquote_val);
    unquote_dirs(&mut v.dirs);
}
/// replace every double quote inside the strings of a schema model by a single quote (keeps the document clear of the
/// open finding "double quote not escaped", so that everything else in it is compared)
fn unquote_tsdoc(d: &mut TsDoc) {
    for item in d.items.iter_mut() {
        match item {
            TsItem::TypeDef(t) | TsItem::TypeExt(t) => {
                t.desc.iter_mut().for_each(unquote);
                unquote_dirs(&mut t.dirs);
                for f in t.fields.iter_mut() {
                    f.desc.iter_mut().for_each(unquote);
                    unquote_dirs(&mut f.dirs);
                    f.args.iter_mut().for_each(unquote_iv);
                }
                for v in t.values.iter_mut() {
                    v.desc.iter_mut().for_each(unquote);
                    unquote_dirs(&mut v.dirs);
                }
                t.inputs.iter_mut().for_each(unquote_iv);
            }
            TsItem::DirectiveDef(d) => {
                d.desc.iter_mut().for_each(unquote);
                d.args.iter_mut().for_each(unquote_iv);
            }
            TsItem::SchemaDef(s) | TsItem::SchemaExt(s) => {
                s.desc.iter_mut().for_each(unquote);
                unquote_dirs(&mut s.dirs);
            }
        }
    }
}
fn unquote_sels(ss: &mut [Sel]) {
    for s in ss {
        match s {
            Sel::Field { args, dirs, sel, .. } => {
                args.iter_mut().for_each(|a| unquote_val(&mut a.value));
                unquote_dirs(dirs);
                if let Some(sel) = sel {
                    unquote_sels(sel);
                }
            }
            Sel::Spread { dirs, .. } => unquote_dirs(dirs),
            Sel::Inline { dirs, sel, .. } => {
                unquote_dirs(dirs);
                unquote_sels(sel);
            }
        }
    }
}
fn unquote_doc(d: &mut Doc) {
    for def in d.defs.iter_mut() {
        match def {
            ExecDef::Op(o) => {
                for v in o.vars.iter_mut() {
                    v.default.iter_mut().for_each(unquote_val);
                    unquote_dirs(&mut v.dirs);
                }
                unquote_dirs(&mut o.dirs);
                unquote_sels(&mut o.sel);
            }
            ExecDef::Frag(f) => {
                unquote_dirs(&mut f.dirs);
                unquote_sels(&mut f.sel);
            }
            ExecDef::Import(i) => unquote(&mut i.path),
        }
    }
}

fn gen_cfg(rng: &mut Rng) -> GenCfg {
    let mut cfg = GenCfg::default();
    cfg.hostile_text = true;
    cfg.descriptions = true;
    cfg.directives = true;
    cfg.explicit_schema = rng.coin();
    cfg
}

/// schema files of one project: (texts, origin)
fn gen_schema_texts(rng: &mut Rng, plugin: bool, unfaithful: bool) -> (Vec<String>, SchemaModel, Vec<String>) {
    let cfg = gen_cfg(rng);
    let mut schema = gen_schema(rng, &cfg);
    let mut feats = vec![];
    decorate(rng, &mut schema, plugin, unfaithful, &mut feats);
    let dirfam = rng.coin();
    if dirfam {
        dirfam_decorate(rng, &mut schema, unfaithful, &mut feats);
    }
    if !rng.chance(1, 5) {
        unquote_tsdoc(&mut schema.doc);
    } else {
        feats.push("strings-may-hold-double-quotes".into());
    }
    let mut doc = if rng.coin() {
        feats.push("split-into-extensions".into());
        split_into_extensions(rng, &schema)
    } else {
        schema.doc.clone()
    };
    // directive lists cut between definitions and extensions; the extensions go anywhere in the document, or into a
    // file of their own that is read before / after the others
    let mut own_file: Option<(bool, String)> = None;
    if dirfam {
        // the shared splitter moves the whole directive list of a one-member union into `extend union U @d…` without
        // members, which the printer writes with a dangling `=` (open finding, kept in TS_CORPUS): give such an extension
        // a member, or fold it back
        let mut i = 0;
        while i < doc.items.len() {
            let memberless = matches!(&doc.items[i], TsItem::TypeExt(e) if e.kind == TypeKind::Union && e.members.is_empty());
            if memberless {
                let TsItem::TypeExt(mut ext) = doc.items.remove(i) else { unreachable!() };
                let def = doc.items.iter_mut().find_map(|x| match x {
                    TsItem::TypeDef(t) if t.name == ext.name => Some(t),
                    _ => None,
                });
                match def {
                    Some(t) if t.members.len() >= 2 => {
                        ext.members.push(t.members.pop().unwrap());
                        doc.items.insert(i, TsItem::TypeExt(ext));
                        i += 1;
                    }
                    Some(t) => t.dirs.append(&mut ext.dirs),
                    None => {}
                }
            } else {
                i += 1;
            }
        }
        let exts = dirfam_split(rng, &mut doc, &mut feats);
        if !exts.is_empty() && rng.coin() {
            feats.push("dirlist:extensions-in-own-file".into());
            let mut d = TsDoc { items: exts };
            own_file = Some((rng.coin(), render_tsdoc(&mut d, Style::canonical(), rng.fork()).0));
        } else {
            for e in exts {
                let at = rng.below(doc.items.len() + 1);
                doc.items.insert(at, e);
            }
        }
    }
    let mut texts = if rng.chance(1, 3) && doc.items.len() >= 2 {
        feats.push("two-schema-files".into());
        let k = 1 + rng.below(doc.items.len() - 1);
        let mut b = TsDoc { items: doc.items.split_off(k) };
        let style = if rng.coin() { Style::noisy() } else { Style::canonical() };
        vec![render_tsdoc(&mut doc, Style::canonical(), rng.fork()).0, render_tsdoc(&mut b, style, rng.fork()).0]
    } else {
        let style = if rng.chance(1, 3) { Style::noisy() } else { Style::canonical() };
        vec![render_tsdoc(&mut doc, style, rng.fork()).0]
    };
    match own_file {
        Some((true, t)) => texts.insert(0, t),
        Some((false, t)) => texts.push(t),
        None => {}
    }
    (texts, schema, feats)
}

const TS_CORPUS: [&str; 14] = [
    "extend schema @d\n",
    "extend schema @a @b(x: 1)\n",
    "extend schema @d { mutation: M }\n",
    "schema @a @b(x: [1, 2]) { query: Q }\n",
    "extend union U @d\n",
    "extend union U @d = A | B\n",
    "union U @d = | A\n",
    "union U =\n",
    "type T implements A & B @d { \"say \\\"hi\\\" \\\\ there\" f(\"ad\" a: String = \"q\\\"\\\\\", b: In = {x: 1, y: [\"s\", E, null, true, 1.5e3]} @d(a: 1, b: 2)): [Int!]! @deprecated(reason: \"multi\\nline ends with quote\\\"\") }\n",
    "interface I implements J\nenum E @e\ninput In @i\nscalar S @s(a: \"`${x}`\")\n",
    "\"\"\"\n  block\n    indented\n  \"\"\"\ndirective @d(\"arg desc\" a: Int = 1 @x) repeatable on FIELD_DEFINITION | OBJECT\n",
    "extend type T implements I\nextend interface I implements J @d\nextend enum E { C }\nextend input In @e { c: Int }\nextend scalar D @e\n",
    "type T { f(a: String = \"\\u0001\\u007f\\b\\f\\t\\/\"): Int }\n",
    "\"ends with backslash\\\\\"\ntype T { \"a\\nb\\\\\" f: Int, \"a\\nb\\\"\" g: Int, \"\\n lead\" h: Int }\n",
];
/// projects (schema files, model plugin) for the server-module streams: lists of several directive applications on every
/// kind of definition, the directive the module must lose at the first / a middle / the last place, lists cut between a
/// definition and its extensions (same file before / after, other file)
const DIRS_SDL: &str = "directive @fmt(step: String, n: Int) repeatable on SCHEMA | SCALAR | OBJECT | FIELD_DEFINITION | ARGUMENT_DEFINITION | INTERFACE | UNION | ENUM | ENUM_VALUE | INPUT_OBJECT | INPUT_FIELD_DEFINITION\ndirective @mark(label: String) on SCHEMA | SCALAR | OBJECT | FIELD_DEFINITION | ARGUMENT_DEFINITION | INTERFACE | UNION | ENUM | ENUM_VALUE | INPUT_OBJECT | INPUT_FIELD_DEFINITION\n";
const TS4: &str = "@nitrogql_ts_type(resolverInput: \"string\", resolverOutput: \"Date\", operationInput: \"string\", operationOutput: \"string\")";
fn server_corpus() -> Vec<(Vec<String>, bool)> {
    let q = "type Query { d: Date, j: JSON }\n";
    vec![
        // first / middle / last, one definition
        (vec![format!("{DIRS_SDL}scalar Date {TS4} @specifiedBy(url: \"https://example.com/d\") @fmt(step: \"trim\") @fmt(step: \"parse\")\nscalar JSON @fmt(step: \"a\") @mark {TS4} @fmt(step: \"b\") @fmt(step: \"c\", n: 2)\n{q}")], false),
        (vec![format!("{DIRS_SDL}scalar Date @fmt(step: \"a\") @fmt(step: \"b\") @mark(label: \"m\") {TS4}\nscalar JSON {TS4} @fmt(step: \"a\") @fmt(step: \"b\") @fmt(step: \"c\") @fmt(step: \"d\") @fmt(step: \"e\")\n{q}")], false),
        // definition in one file, the rest of the list in extensions of another file (read after / before)
        (vec![format!("{DIRS_SDL}scalar Date {TS4}\nscalar JSON @fmt(step: \"a\")\n{q}"), format!("extend scalar Date @fmt(step: \"a\") @fmt(step: \"b\")\nextend scalar JSON {TS4} @mark\nextend scalar JSON @fmt(step: \"b\") @fmt(step: \"c\")\n")], false),
        (vec![format!("extend scalar Date @mark {TS4} @fmt(n: 1)\nextend scalar Date @fmt(n: 2) @specifiedBy(url: \"u\") @fmt(n: 3)\n"), format!("{DIRS_SDL}scalar Date @fmt(n: 0)\nscalar JSON\n{q}")], false),
        // every other kind of definition, fields, arguments, enum values, input fields, the schema definition
        (vec![format!("{DIRS_SDL}schema @fmt(step: \"a\") @mark @fmt(step: \"b\") {{ query: Query }}\nextend schema @fmt(step: \"c\") @fmt(step: \"d\")\nscalar Date\nscalar JSON\ninterface I @fmt(step: \"a\") @fmt(step: \"b\") @mark {{ d: Date }}\ntype Query implements I @fmt(step: \"x\") @mark @fmt(step: \"y\") @fmt(step: \"z\") {{ d: Date @deprecated @fmt(step: \"a\") @fmt(step: \"b\"), j(a: Int @fmt(n: 1) @deprecated(reason: \"r\") @fmt(n: 2) @mark): JSON @fmt(n: 1) @mark @fmt(n: 2) }}\nextend type Query @fmt(step: \"w\") @fmt(step: \"v\")\nunion U @fmt(n: 3) @fmt(n: 1) @fmt(n: 2) = Query\nenum E @mark @fmt(n: 1) @fmt(n: 2) {{ A @fmt(n: 2) @deprecated @fmt(n: 1), B }}\ninput In @fmt(n: 2) @fmt(n: 1) @mark {{ a: Int @fmt(n: 9) @mark @fmt(n: 8) }}\n")], false),
        // the model plugin's directive on objects and fields, at every place
        (vec![format!("{DIRS_SDL}scalar Date {TS4} @fmt(step: \"a\") @fmt(step: \"b\")\nscalar JSON\ntype Query {{ d: Date, j: JSON, u: User }}\ntype User @fmt(step: \"a\") @fmt(step: \"b\") @mark {{ id: ID @model @fmt(n: 1) @fmt(n: 2) @deprecated, name: String @fmt(n: 1) @model @fmt(n: 2) @fmt(n: 3), age: Int @fmt(n: 1) @fmt(n: 2) @model }}\ntype Post @fmt(step: \"a\") @model(type: \"M\") @mark @fmt(step: \"b\") @fmt(step: \"c\") {{ id: ID }}\ntype Head @model(type: \"H\") @fmt(n: 1) @fmt(n: 2) @mark {{ id: ID }}\n"), "extend type User @fmt(step: \"c\") @fmt(step: \"d\")\n".to_string()], true),
    ]
}

const OP_CORPUS: [&str; 10] = [
    "query Q($a: Int = 1, $b: [String!] = [\"x\"] @d, $c: In = {k: \"v\"}) { f(a: $a) }\n",
    "query Q($a: Int @d(x: 1) @e) @live { f }\n",
    "query ($only: Boolean! = true) { f @skip(if: $only) }\n",
    "mutation M { a: f(x: \"say \\\"hi\\\" \\\\ there\", y: \"multi\\nline\\\"\") { ... on T @d { g } ... @e { h } ...F @x } }\nfragment F on T @fd(a: [1, [2]], b: {}) { g }\n",
    "#import F, G from \"./frag \\\"q\\\".graphql\"\n#import * from \"../x.graphql\"\nquery Q { ...F }\n",
    "subscription S { s(o: {a: 1, b: {c: [E, null, -1.5]}}, l: [], e: {}) }\n",
    "query Q { f(s: \"`${x}` $\\\\{\") }\n",
    "query Q { f(s: \"\"\"block \\\"\"\" string\"\"\") g(s: \"\") }\n",
    "query Q($v: String = \"a\\n  b\") { f(s: \"\\n x\") }\n",
    "query Q { ... on T { a } ... { b } }\n",
];

fn main() {
    let args = Args::parse();
    if std::env::var("NV_LOUD").is_err() {
        quiet_panics();
    }
    let mut rep = Report::new(
        "C16",
        "strings over {backslash, back-tick, $, {, }, quote, LF, CR, TAB, controls, astral} (distinct texts containing a character the writers treat specially); \
         generated schemas / operation documents with hostile descriptions and default strings (distinct source texts); server modules (distinct module texts)",
    );
    let mut drv = Driver::spawn(&args.driver);
    let mut ctx = Ctx { rep: &mut rep, drv: &mut drv, args: &args };

    if let Some(path) = &args.replay {
        let v: Value = serde_json::from_str(&std::fs::read_to_string(path).expect("replay file")).expect("replay json");
        let c = &v["case"];
        let texts = |c: &Value| -> Vec<String> { c["texts"].as_array().map(|a| a.iter().map(|t| t.as_str().unwrap_or("").to_string()).collect()).unwrap_or_default() };
        match c["kind"].as_str().unwrap_or("") {
            "js" => ctx.check_js(&[c["s"].as_str().unwrap_or("").to_string()]),
            "string" => {
                ctx.check_strings(&[c["s"].as_str().unwrap_or("").to_string()]);
                if let Some(m) = c["minimal"].as_str() {
                    ctx.check_strings(&[m.to_string()]);
                }
            }
            "print-parse" => {
                let kind = if c["doc"].as_str() == Some("op") { DocKind::Op } else { DocKind::Ts };
                ctx.check_print_parse(kind, &[(c["text"].as_str().unwrap_or("").to_string(), json!("replay"))]);
            }
            "server" => ctx.check_server(&[(texts(c), plugins_of_case(c), json!("replay"))]),
            "cli" => {
                ctx.check_cli(0, &texts(c), &plugins_of_case(c), json!("replay"));
                ctx.check_server(&[(texts(c), plugins_of_case(c), json!("replay"))]);
            }
            k => ctx.rep.notes.push(format!("unknown replay kind {k:?}")),
        }
        rep.write(&args);
        return;
    }

    let mut rng = Rng::new(args.seed);

    // ---- strings: corpus, exhaustive short strings over the special alphabet, random
    let mut strings: Vec<String> = STRING_CORPUS.iter().map(|s| s.to_string()).collect();
    strings.extend(DESCS.iter().map(|s| s.to_string()));
    strings.extend(DESCS_BLOCK_UNFAITHFUL.iter().map(|s| s.to_string()));
    for c in 0u32..=0xa0 {
        let ch = char::from_u32(c).unwrap();
        strings.push(ch.to_string());
        strings.push(format!("a{ch}b"));
        strings.push(format!("x\n{ch}"));
    }
    let alpha = ["\\", "`", "$", "{", "\"", "\n", "\r", "a", " "];
    let depth = args.budget(4, 5);
    let mut layer = vec![String::new()];
    for _ in 0..depth {
        let mut next = vec![];
        for p in &layer {
            for a in alpha {
                next.push(format!("{p}{a}"));
            }
        }
        strings.extend(next.iter().cloned());
        layer = next;
    }
    ctx.rep.extra.insert("exhaustive_string_depth".into(), json!(depth));
    for _ in 0..args.budget(3000, 60000) {
        strings.push(gen_string(&mut rng));
    }
    for chunk in strings.chunks(5000) {
        ctx.check_js(chunk);
        ctx.check_strings(chunk);
    }
    ctx.rep.sample(json!({"kind": "string", "s": "say \"hi\" \\ there `${x}`\nline\""}));

    // ---- documents: corpus
    ctx.check_print_parse(DocKind::Ts, &TS_CORPUS.iter().map(|t| (t.to_string(), json!("corpus"))).collect::<Vec<_>>());
    ctx.check_print_parse(DocKind::Op, &OP_CORPUS.iter().map(|t| (t.to_string(), json!("corpus"))).collect::<Vec<_>>());

    // ---- server modules: corpus of projects with lists of directive applications
    let corpus = server_corpus();
    let mut cli_cases = vec![];
    {
        // every project under every ordered plugin list (all subsets of the natively available plugins, both orders,
        // duplicates); a project that uses @model needs the model plugin somewhere in the list
        let mut cases: Vec<(Vec<String>, Vec<String>, Value)> = vec![];
        let mut cli_picks = vec![];
        for (i, (t, uses_model)) in corpus.iter().enumerate() {
            for l in all_plugin_lists() {
                if *uses_model && !has_model(&l) {
                    continue;
                }
                if i == 2 || i == 5 {
                    cli_picks.push(cases.len());
                }
                cases.push((t.clone(), l.clone(), json!({"corpus": format!("directive-lists-{i}"), "plugins": l})));
            }
        }
        let before = ctx.rep.evaluations;
        ctx.check_server(&cases);
        if ctx.rep.evaluations - before != cases.len() as u64 {
            ctx.rep.notes.push("a project of the directive-list corpus was rejected by the real checker".into());
            ctx.rep.count("server:corpus-project-rejected");
        }
        for (i, (t, _)) in corpus.iter().enumerate() {
            for f in t {
                ctx.check_print_parse(DocKind::Ts, &[(f.clone(), json!({"corpus": format!("directive-lists-{i}")}))]);
            }
        }
        // two of the projects through the real CLI too, under every plugin list
        for k in cli_picks {
            cli_cases.push(cases[k].clone());
        }
    }

    // ---- generated schemas: print-parse on the files, server module on the project
    let n_schemas = args.budget(150, 2500);
    let mut server_cases = vec![];
    let mut ts_texts = vec![];
    let mut op_texts = vec![];
    let n_cli = args.budget(6, 40);
    let mut n_generated_cli = 0;
    for i in 0..n_schemas {
        let plugin = rng.chance(1, 3);
        let unfaithful = rng.chance(1, 4);
        let (texts, schema, feats) = gen_schema_texts(&mut rng, plugin, unfaithful);
        // the project's `plugins:` list: the model plugin (always when the schema uses @model, sometimes unused) among 0–2
        // entries of the graphql-scalars plugin, at any place
        let with_model = plugin || rng.chance(1, 5);
        let plugins = gen_plugin_list(&mut rng, with_model);
        for f in &feats {
            ctx.rep.count(&format!("schema:feature:{f}"));
        }
        let origin = json!({"generated": i, "seed": args.seed});
        if i < 2 {
            ctx.rep.sample(json!({"kind": "server", "texts": texts, "plugins": plugins, "model_plugin": plugin}));
        }
        for t in &texts {
            ts_texts.push((t.clone(), origin.clone()));
        }
        if n_generated_cli < n_cli && i % 7 == 0 {
            n_generated_cli += 1;
            cli_cases.push((texts.clone(), plugins.clone(), origin.clone()));
        }
        server_cases.push((texts, plugins, origin.clone()));
        // operation documents against this schema
        let cfg = {
            let mut c = GenCfg::default();
            c.hostile_text = true;
            c
        };
        for _ in 0..2 {
            let (mut doc, feats) = gen_doc(&mut rng, &schema, &cfg);
            for f in feats {
                ctx.rep.count(&format!("op:feature:{f}"));
            }
            if rng.chance(1, 5) {
                doc.defs.insert(0, ExecDef::Import(ImportDef { targets: vec![Some(("F".into(), P::default())), None], path: hostile_text(&mut rng, false).replace('\n', " "), pos: P::default() }));
                ctx.rep.count("op:feature:import");
            }
            if !rng.chance(1, 5) {
                unquote_doc(&mut doc);
            } else {
                ctx.rep.count("op:feature:strings-may-hold-double-quotes");
            }
            let style = if rng.chance(1, 3) { Style::noisy() } else { Style::canonical() };
            let (text, _) = render_doc(&mut doc, style, rng.fork());
            op_texts.push((text, origin.clone()));
        }
    }
    for chunk in ts_texts.chunks(200) {
        ctx.check_print_parse(DocKind::Ts, chunk);
    }
    for chunk in op_texts.chunks(200) {
        ctx.check_print_parse(DocKind::Op, chunk);
    }
    for chunk in server_cases.chunks(100) {
        ctx.check_server(chunk);
    }
    // a fixed project with every hostile description, through library and CLI
    let fixed = {
        let mut s = String::from("scalar Date @nitrogql_ts_type(resolverInput: \"string\", resolverOutput: \"Date | `${x}`\", operationInput: \"string\", operationOutput: \"say \\\"hi\\\" \\\\\")\n");
        s.push_str("type Query {\n");
        for (i, d) in DESCS.iter().enumerate() {
            s.push_str(&format!("  {} f{i}(a: String = {}): Date\n", escape_string(d), escape_string(d)));
        }
        s.push_str("}\n");
        s
    };
    ctx.check_server(&[(vec![fixed.clone()], vec![], json!("fixed-hostile-project"))]);
    cli_cases.insert(0, (vec![fixed], vec![], json!("fixed-hostile-project")));
    for (i, (texts, plugins, origin)) in cli_cases.into_iter().enumerate() {
        ctx.check_cli(i, &texts, &plugins, origin);
    }
    rep.write(&args);
}
