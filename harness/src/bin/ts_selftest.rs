//! Self-test of the TS-subset parser: every file the real printers emit for generated inputs must parse.
use nvh::gen::*;
use nvh::real::*;
use nvh::render::*;
use nvh::*;
use std::collections::BTreeMap;

fn main() {
    quiet_panics();
    let n: u64 = std::env::args().nth(1).and_then(|s| s.parse().ok()).unwrap_or(200);
    let mut hist: BTreeMap<String, usize> = BTreeMap::new();
    let mut shown = 0;
    for seed in 0..n {
        let mut rng = Rng::new(seed);
        let cfg = GenCfg { hostile_text: seed % 2 == 1, ..GenCfg::default() };
        let schema = gen_schema(&mut rng, &cfg);
        let sdl = schema.sdl();
        let (doc, _) = gen_doc(&mut rng, &schema, &cfg);
        let text = doc_text(&doc);
        let pc = gen_project_cfg(&mut rng, &schema, seed % 3 == 0);
        let yaml = pc.yaml("s.graphql", "*.graphql", &[]);
        let config = parse_config_text(&yaml).unwrap().unwrap_or_else(|| panic!("config rejected:\n{yaml}"));
        let r = with_schema(&[sdl.clone()], |resolved, s| {
            let mut outs = vec![];
            outs.push(("schema", print_schema_types(resolved, &config)));
            outs.push(("resolvers", print_resolver_types(resolved, &config)));
            let o = with_operation(s, &text, 1, |d, diags| {
                assert!(diags.is_empty(), "{diags:?}");
                print_operation_types(s, d, &config)
            });
            match o {
                Ok(x) => outs.push(("operation", x)),
                Err(e) => outs.push(("operation", Err(format!("{e:?}")))),
            }
            outs
        });
        match r {
            Err(e) => {
                *hist.entry(format!("schema-stage:{e:?}").chars().take(60).collect()).or_insert(0) += 1;
            }
            Ok(outs) => {
                for (what, out) in outs {
                    match out {
                        Err(e) => {
                            let key: String = format!("{what}:print-failed:{e}").chars().take(90).collect();
                            *hist.entry(key.clone()).or_insert(0) += 1;
                            if shown < 4 { shown += 1; println!("=== seed {seed} {key}\n--- schema\n{sdl}\n--- doc\n{text}"); }
                        }
                        Ok(t) => match tsparse::parse_file(&t) {
                            Ok(_) => *hist.entry(format!("{what}:ok")).or_insert(0) += 1,
                            Err(e) => {
                                let key = format!("{what}:ts-parse-error:{}", e.msg);
                                *hist.entry(key.clone()).or_insert(0) += 1;
                                if shown < 4 {
                                    shown += 1;
                                    let lines: Vec<&str> = t.lines().collect();
                                    let lo = e.line.saturating_sub(3);
                                    println!("=== seed {seed} {key} at line {}\n{}", e.line, lines[lo..(e.line + 3).min(lines.len())].join("\n"));
                                }
                            }
                        },
                    }
                }
            }
        }
    }
    println!("{hist:#?}");
}
