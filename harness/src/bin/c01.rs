//! C01 — generated result types admit every spec-conformant response.
//! K: model `toTs (implTree …)` vs the `type` statements of the REAL operation declaration file (tree against tree).
//! O: every enumerated `Exec` response must be a member of the REAL emitted type read with the REAL schema
//!    declaration file; a panic of the real printer on an accepted, spec-valid document is an O failure too.
#[path = "c01/common.rs"]
mod common;

fn main() {
    common::main_for("C01", "oracle.c01");
}
