//! C20 — relative and resolved paths are mutually inverse.
//! K: real `normalize_path` / `relative_path` / `resolve_relative_path` vs the Lean model (string for string).
//! O: the property's equations evaluated on the real functions.
use nitrogql_utils::{normalize_path, relative_path, resolve_relative_path};
use nvh::*;
use serde_json::json;
use std::path::Path;

fn enumerate_paths(max_depth: usize, segs: &[&str]) -> Vec<String> {
    let mut out = vec!["/".to_string()];
    let mut layer = vec![String::new()];
    for _ in 0..max_depth {
        let mut next = vec![];
        for p in &layer {
            for s in segs {
                next.push(format!("{p}/{s}"));
            }
        }
        out.extend(next.iter().cloned());
        layer = next;
    }
    out
}

fn random_path(rng: &mut Rng, abs: bool) -> String {
    let n = rng.below(9);
    let segs = ["a", "b", "c", "dir", "f.graphql", ".", "..", "..", "x y", "é", "", "...", ".a", "A", "Dir", "DIR", "F.GraphQL", "a ", "di"];
    let mut s = String::new();
    if abs {
        s.push('/');
    }
    for i in 0..n {
        if i > 0 {
            s.push('/');
        }
        s.push_str(segs[rng.below(segs.len())]);
    }
    if rng.chance(1, 10) {
        s.push('/');
    }
    s
}

/// does processing the path pop at the root (climb above it)? — evaluated on the text, independently of the code
fn climbs(p: &str) -> bool {
    let mut depth: i64 = 0;
    for seg in p.split('/') {
        match seg {
            "" | "." => {}
            ".." => {
                depth -= 1;
                if depth < 0 {
                    return true;
                }
            }
            _ => depth += 1,
        }
    }
    false
}

fn real_rel(a: &str, b: &str) -> Sexp {
    let (a, b) = (a.to_string(), b.to_string());
    match catch(move || relative_path(Path::new(&a), Path::new(&b))) {
        Ok(p) => Sexp::call("ok", vec![Sexp::str(p.to_string_lossy())]),
        Err(_) => Sexp::call("panic", vec![]),
    }
}
fn real_res(a: &str, r: &str) -> Sexp {
    Sexp::call("ok", vec![Sexp::str(resolve_relative_path(Path::new(a), Path::new(r)).to_string_lossy())])
}
fn real_norm(a: &str) -> Sexp {
    Sexp::call("ok", vec![Sexp::str(normalize_path(Path::new(a)).to_string_lossy())])
}

fn feature(a: &str, b: &str) -> String {
    let mut f = vec![];
    let last = a.trim_end_matches('/').rsplit('/').next().unwrap_or("");
    if last == ".." {
        f.push("from-ends-with-dotdot");
    }
    if normalize_path(Path::new(a)).parent().map(|p| p.to_path_buf()) == Some(normalize_path(Path::new(b))) {
        f.push("to-is-dir-of-from");
    }
    if f.is_empty() {
        f.push("general");
    }
    f.join("+")
}

struct Ctx<'a> {
    rep: &'a mut Report,
    drv: &'a mut Driver,
}

impl<'a> Ctx<'a> {
    /// K and O on a batch of (a, b) pairs
    fn pairs(&mut self, pairs: &[(String, String)]) {
        let mut reqs = vec![];
        for (a, b) in pairs {
            reqs.push(Sexp::call("rel", vec![Sexp::str(a.as_str()), Sexp::str(b.as_str())]));
            reqs.push(Sexp::call("norm", vec![Sexp::str(b.as_str())]));
        }
        let ans = self.drv.batch(&reqs);
        // second round: resolve(a, real relative)
        let mut reqs2 = vec![];
        let mut rels = vec![];
        for (a, b) in pairs {
            let r = real_rel(a, b);
            let rs = r.args().first().and_then(|x| x.as_str()).unwrap_or("").to_string();
            reqs2.push(Sexp::call("res", vec![Sexp::str(a.as_str()), Sexp::str(rs.as_str())]));
            rels.push((r, rs));
        }
        let ans2 = self.drv.batch(&reqs2);
        for (i, (a, b)) in pairs.iter().enumerate() {
            self.rep.evaluations += 1;
            self.rep.k_cases += 3;
            let (real_r, rs) = &rels[i];
            let real_n = real_norm(b);
            let real_rs = real_res(a, rs);
            let case = json!({"from": a, "to": b});
            if *real_r != ans[2 * i] {
                self.rep.fail("K", "relative", &format!("relative_path({a:?},{b:?}): code {} model {}", real_r, ans[2 * i]), case.clone());
            }
            if real_n != ans[2 * i + 1] {
                self.rep.fail("K", "normalize", &format!("normalize_path({b:?}): code {} model {}", real_n, ans[2 * i + 1]), case.clone());
            }
            if real_rs != ans2[i] {
                self.rep.fail("K", "resolve", &format!("resolve_relative_path({a:?},{rs:?}): code {} model {}", real_rs, ans2[i]), case.clone());
            }
            // O: the property, on absolute non-climbing paths
            let abs = a.starts_with('/') && b.starts_with('/');
            if abs && !climbs(a) && !climbs(b) {
                self.rep.o_cases += 1;
                let nb = real_n.args()[0].as_str().unwrap().to_string();
                let got = real_rs.args()[0].as_str().unwrap().to_string();
                if real_r.head() == Some("panic") {
                    self.rep.fail("O", "relative-panics", &format!("relative_path({a:?},{b:?}) panics"), case.clone());
                    continue;
                }
                if got != nb {
                    self.rep.fail("O", &format!("inverse:{}", feature(a, b)),
                        &format!("resolve({a:?}, relative({a:?},{b:?})={rs:?}) = {got:?} but normalize({b:?}) = {nb:?}"), case.clone());
                }
                if !(rs == "." || rs == ".." || rs.starts_with("./") || rs.starts_with("../")) {
                    self.rep.fail("O", &format!("head:{}", feature(a, b)),
                        &format!("relative_path({a:?},{b:?}) = {rs:?} does not start with ./ or ../"), case.clone());
                }
                let nn = normalize_path(Path::new(&nb)).to_string_lossy().to_string();
                if nn != nb {
                    self.rep.fail("O", "normalize-idempotent", &format!("normalize(normalize({b:?})) = {nn:?} ≠ {nb:?}"), case.clone());
                }
                if nb.split('/').any(|s| s == "." || s == "..") {
                    self.rep.fail("O", "normalize-clean", &format!("normalize({b:?}) = {nb:?} keeps a dot segment"), case.clone());
                }
                if a.contains("..") || b.contains("..") || a.contains("/.") {
                    self.rep.nontrivial(&format!("{a}|{b}"));
                }
                self.rep.count(&format!("rel-shape:{}", if rs.starts_with("../") || rs == ".." { "up" } else { "down" }));
            } else {
                self.rep.count("outside-O-domain(relative or climbing)");
            }
        }
    }
}

// ---------------------------------------------------------------------------------------------
// consumers: project layouts through the real CLI (schema import specifier, source-map `sources`)

fn ts_candidates(spec_path: &std::path::Path) -> Vec<std::path::PathBuf> {
    let s = spec_path.to_string_lossy().to_string();
    let mut out = vec![];
    let maps: [(&str, &[&str]); 3] = [(".js", &[".ts", ".tsx", ".d.ts"]), (".mjs", &[".mts", ".d.mts"]), (".cjs", &[".cts", ".d.cts"])];
    for (js, tss) in maps.iter() {
        if let Some(stem) = s.strip_suffix(js) {
            for t in tss.iter() {
                out.push(std::path::PathBuf::from(format!("{stem}{t}")));
            }
        }
    }
    for t in [".ts", ".tsx", ".d.ts"] {
        out.push(std::path::PathBuf::from(format!("{s}{t}")));
        out.push(std::path::PathBuf::from(format!("{s}/index{t}")));
    }
    out
}

fn layouts(args: &Args, rep: &mut Report, rng: &mut Rng) {
    let cli = args.extra.get("cli").cloned().unwrap_or_default();
    if cli.is_empty() || !std::path::Path::new(&cli).exists() {
        rep.notes.push("layout stream skipped: CLI binary not available".into());
        return;
    }
    let schema_outs = [
        "generated/schema.d.ts", "schema.d.ts", "src/generated/deep/schema.d.ts", "src/ops/schema.d.ts", ".generated/schema.d.ts", "src/.hidden/types/schema.d.ts",
        "out/schema.ts", "out/schema.mts", "out/schema.d.cts", "src/ops/nested/.gen/schema.d.mts", "src/..meta/schema.d.ts",
        // confusable with the input directories (schema/, schema/sub/, src/ops, …): case only, or a shared component name after the paths diverge
        "Schema/schema.d.ts", "gen/sub/schema.d.ts", "SRC/ops/schema.d.ts", "generated/Ops/schema.d.ts", "src/graphql/schema.d.ts",
        // an output directory whose NAME is a textual prefix of an input directory's name at the same place (sche ⊏ schema,
        // schema/su ⊏ schema/sub, src/op ⊏ src/ops), and the converse (schema ⊏ schema-gen): component-wise they are siblings
        "sche/schema.d.ts", "schema/su/schema.d.ts", "src/op/schema.d.ts", "s/schema.d.ts", "schema-gen/schema.d.ts", "schema/sub-gen/schema.d.ts", "src/ops-gen/schema.d.ts",
        // configured paths that are not normalised: parent-directory and current-directory segments
        "src/../generated/x.d.ts", "./src/./gen/../gen2/schema.d.ts", "src/ops/../../schema.d.ts", "a/b/../../c/../schema.d.ts",
        "out/api.schema.d.ts", "out/schema.generated.ts", "out/graphql.v2.d.mts", "out/a.b.c.d.cts", "out/.schema.d.ts", "out/schema.d.d.ts", "gen.d/ts.d.ts",
    ];
    let op_dir_sets: [&[&str]; 8] = [&["src/ops"], &["src/ops", "src/ops/nested"], &["src/ops", "other/dir/deep"], &[".", "src/a/b/c"], &["src/ops", "src/.hidden"],
        // directories that differ from an output directory only by case / share a component name at the same depth after diverging
        &["Generated/ops", "src/Generated"], &["SRC/ops", "src/OPS"], &["gen/graphql", "src/graphql"]];
    let n = args.budget(schema_outs.len(), schema_outs.len() + 60);
    for i in 0..n {
        let so = if i < schema_outs.len() { schema_outs[i] } else { schema_outs[rng.below(schema_outs.len())] };
        let ods = if i < op_dir_sets.len() { op_dir_sets[i] } else { op_dir_sets[rng.below(op_dir_sets.len())] };
        let mode = nvh::gen::MODES[rng.below(3)];
        let dir = nvh::cli::fresh_dir(&args.scratch, &format!("layout{i}"));
        let mut pr = nvh::cli::Project::default();
        pr.add("schema/a.graphql", "type Query { me: User! }\n");
        pr.add("schema/sub/b.graphql", "type User { id: ID! name: String }\n");
        let mut docs_globs = vec![];
        for (k, od) in ods.iter().enumerate() {
            let prefix = if *od == "." { String::new() } else { format!("{od}/") };
            pr.add(&format!("{prefix}q{k}.graphql"), &format!("query Q{k} {{ me {{ id ...F{k} }} }}\nfragment F{k} on User {{ name }}\n"));
            docs_globs.push(format!("{prefix}q{k}.graphql"));
        }
        let docs_yaml: String = docs_globs.iter().map(|g| format!("  - \"{g}\"\n")).collect();
        let cfg = format!(
            "schema: \"schema/**/*.graphql\"\ndocuments:\n{docs_yaml}extensions:\n  nitrogql:\n    generate:\n      mode: {mode}\n      schemaOutput: \"{so}\"\n"
        );
        pr.add("graphql.config.yaml", &cfg);
        pr.write(&dir);
        let run = nvh::cli::run_cli(&cli, &dir, &["generate"], &[], std::time::Duration::from_secs(30));
        rep.evaluations += 1;
        rep.o_cases += 1;
        let case = json!({"layout": {"schemaOutput": so, "opDirs": ods, "mode": mode}});
        if run.code != Some(0) {
            rep.fail("O", "layout:cli-failed", &format!("generate exits {:?} on a valid project: {}", run.code, run.stderr.chars().take(300).collect::<String>()), case);
            continue;
        }
        rep.nontrivial(&format!("layout|{so}|{ods:?}|{mode}"));
        rep.count(&format!("layout-mode:{mode}"));
        let files = nvh::cli::snapshot(&dir);
        let schema_abs = nvh::cli::lexical_normalize(&dir.join(so));
        let inputs: Vec<std::path::PathBuf> = files.keys().filter(|k| k.ends_with(".graphql")).map(|k| nvh::cli::lexical_normalize(&dir.join(k))).collect();
        for (rel, bytes) in &files {
            let abs = dir.join(rel);
            let base = abs.parent().unwrap().to_path_buf();
            let text = String::from_utf8_lossy(bytes).to_string();
            if (rel.ends_with(".graphql.ts") || rel.ends_with(".graphql.d.ts")) && !rel.ends_with(".map") {
                // schema import specifier
                match nvh::tsparse::parse_file(&text) {
                    Err(e) => rep.fail("O", "layout:decl-unparsable", &format!("{rel}: {}", e.msg), case.clone()),
                    Ok(tree) => {
                        let mut found = false;
                        for st in tree.args() {
                            if st.head() == Some("import") && st.args().get(2).and_then(|w| w.head()) == Some("star") {
                                found = true;
                                let spec = st.args()[0].as_str().unwrap_or("").to_string();
                                if !(spec.starts_with("./") || spec.starts_with("../")) {
                                    rep.fail("O", "specifier:not-relative", &format!("{rel}: schema import specifier {spec:?} does not start with ./ or ../ (it would be resolved as a package)"), case.clone());
                                }
                                let target = nvh::cli::lexical_normalize(&base.join(&spec));
                                let cands = ts_candidates(&target);
                                if !cands.iter().any(|c| *c == schema_abs) {
                                    rep.fail("O", "specifier:wrong-file", &format!("{rel}: schema import specifier {spec:?} resolves to {target:?}[.ts|.d.ts…], not to the schema declaration {schema_abs:?}"), case.clone());
                                }
                            }
                        }
                        if !found {
                            rep.fail("O", "layout:no-schema-import", &format!("{rel}: no `import type * as Schema`"), case.clone());
                        }
                    }
                }
            }
            if rel.ends_with(".map") {
                match serde_json::from_str::<serde_json::Value>(&text) {
                    Err(e) => rep.fail("O", "layout:map-not-json", &format!("{rel}: {e}"), case.clone()),
                    Ok(v) => {
                        for src in v["sources"].as_array().cloned().unwrap_or_default() {
                            let s = src.as_str().unwrap_or("").to_string();
                            let target = nvh::cli::lexical_normalize(&base.join(&s));
                            if !inputs.contains(&target) {
                                rep.fail("O", "sources:wrong-file", &format!("{rel}: sources entry {s:?} resolves to {target:?}, which is not an input GraphQL file"), case.clone());
                            }
                        }
                    }
                }
            }
        }
        let _ = std::fs::remove_dir_all(&dir);
    }
}

fn main() {
    let args = Args::parse();
    quiet_panics();
    let mut rep = Report::new("C20", "pairs (from,to) of paths; exhaustive over absolute paths of bounded depth with segments {a,b,.,..} plus random deeper/odd paths; non-trivial = absolute, non-climbing pair containing a '.' or '..' segment (distinct by text)");
    let mut drv = Driver::spawn(&args.driver);
    let mut ctx = Ctx { rep: &mut rep, drv: &mut drv };

    if let Some(path) = &args.replay {
        let v: serde_json::Value = serde_json::from_str(&std::fs::read_to_string(path).expect("replay file")).expect("replay json");
        let c = &v["case"];
        if c.get("layout").is_some() {
            let mut rng = Rng::new(args.seed);
            drop(ctx);
            layouts(&args, &mut rep, &mut rng);
            rep.write(&args);
            return;
        }
        ctx.pairs(&[(c["from"].as_str().unwrap().to_string(), c["to"].as_str().unwrap().to_string())]);
        rep.write(&args);
        return;
    }

    // corpus first (minimised past failures)
    let corpus = [("/x/f", "/x"), ("/x/y/..", "/x/z"), ("/x/..", "/z"), ("/", "/a"), ("/a", "/"), ("/a/b", "/a/b"),
        ("/path/to/main.graphql", "/path/to/sub/../../frag1.graphql"), ("a/b", "/c"), ("/c", "a/b"), ("../a", "b"), ("./a/./b", "./c")];
    ctx.pairs(&corpus.iter().map(|(a, b)| (a.to_string(), b.to_string())).collect::<Vec<_>>());

    // exhaustive families: the property's alphabet {a, b, ., ..}, and one with dot-prefixed ordinary names
    // third family: CONFUSABLE names — equal up to ASCII case, prefixes of one another, trailing dot / blank, composed vs
    // decomposed accents: any "normalising" comparison of components (case-insensitive, trimmed, prefix-based) shows up here
    let families: [(&[&str], usize); 3] = [(&["a", "b", ".", ".."], args.budget(3, 5)), (&["a", ".h", "..m", ".", ".."], args.budget(3, 4)),
        (&["ab", "AB", "Ab", "a", "ab.", "ab ", "\u{e9}", "e\u{301}", ".", ".."], args.budget(3, 3))];
    for (segs, depth) in families.iter() {
        let paths = enumerate_paths(*depth, segs);
        let mut batch = vec![];
        for a in &paths {
            for b in &paths {
                batch.push((a.clone(), b.clone()));
                if batch.len() >= 20000 {
                    ctx.pairs(&batch);
                    batch.clear();
                }
            }
        }
        ctx.pairs(&batch);
        ctx.rep.count_n("exhaustive-paths", paths.len() as u64);
        ctx.rep.extra.insert(format!("exhaustive_depth_{}", segs.len()), json!(depth));
    }

    let mut rng = Rng::new(args.seed);
    let nrand = args.budget(20000, 200000);
    let mut batch = vec![];
    for i in 0..nrand {
        let abs = !rng.chance(1, 8);
        let a = random_path(&mut rng, abs);
        let babs = abs || rng.coin();
        let b = random_path(&mut rng, babs);
        if i < 3 {
            ctx.rep.sample(json!({"from": a, "to": b}));
        }
        batch.push((a, b));
    }
    ctx.pairs(&batch);
    rep.sample(json!({"from": "/a/../b", "to": "/a/b/./.."}));
    layouts(&args, &mut rep, &mut rng);
    rep.exhaustive = true;
    rep.write(&args);
}
