//! C05 — schema `check` verdict is exact on the implemented type-system rules.
//!
//! Every case is a list of SDL file texts. The REAL pipeline (parse → merge → built-ins →
//! `resolve_schema_extensions` → `check_type_system_document`, the composition of `nvh::real::with_schema`,
//! re-done here because the resolved document is needed also when the check reports errors) is compared with
//!   K  the Lean model `checkSchema` on the resolved document converted from the real AST (multiset of
//!      (kind, line, column, file)); the model `dupOriginal?` of the resolver's duplicate-definition test
//!      on the merged, unresolved document;
//!   O  valid-by-construction schemas (confirmed by `ts.valid`) must get no diagnostic; single-fault
//!      mutations labelled by rule (confirmed by `ts.rules`) must get ≥ 1 diagnostic of a kind that
//!      belongs to the rule (DESIGN.md Appendix C); since fix 8cdbacf also the name-uniqueness rules
//!      (`unique-type-names`: cross-kind duplicates, user types named like built-in scalars;
//!      `unique-directive-names`: a user directive defined twice — also across files), and
//!      "valid-redeclare": a spec-valid schema plus VERBATIM re-declarations of built-in directives (the
//!      specification's only complaint is `unique-directive-names`) must get no diagnostic — re-declaring a
//!      built-in directive is allowed.
#[path = "c05/genx.rs"]
mod genx;
#[path = "c05/graphx.rs"]
mod graphx;
#[path = "c05/implx.rs"]
mod implx;

use genx::*;
use nitrogql_ast::{
    base::Pos,
    directive::Directive as RDirective,
    set_current_file_of_pos,
    type_system as rts,
    TypeSystemDocument, TypeSystemOrExtensionDocument,
};
use nitrogql_checker::check_type_system_document;
use nitrogql_parser::parse_type_system_document;
use nitrogql_semantics::resolve_schema_extensions;
use nvh::gen::*;
use nvh::gm::*;
use nvh::real::{diag_of_check, diag_of_positioned, Diag, NITROGQL_BUILTINS_SDL};
use nvh::render::{render_tsdoc, Style};
use nvh::*;
use serde_json::{json, Value};
use std::collections::{BTreeSet, HashMap};

type Key = (usize, usize, usize, bool);

fn key_of(p: &Pos) -> Key {
    if p.builtin {
        (0, 0, 0, true)
    } else {
        (p.line, p.column, p.file, false)
    }
}

/// result of the real pipeline
struct Real {
    /// "parse" | "resolve" | "check" | "panic"
    stage: &'static str,
    diags: Vec<Diag>,
    /// merged document before extension resolution (built-ins included)
    merged: Option<TsDoc>,
    /// resolved document (present iff stage == "check")
    resolved: Option<TsDoc>,
    /// `DuplicateOriginal` of the resolver: (name_of_elem, name)
    dup: Option<(String, String)>,
    panic: Option<String>,
    /// set when the check answers differently after every field WITHOUT an argument list got an EMPTY one
    /// (`arguments: None` → `Some(ArgumentsDefinition { input_values: [] })`; the parser never builds that, the model
    /// has one representation for both): (diagnostics before, after)
    empty_args_diff: Option<(Vec<String>, Vec<String>)>,
}

/// every object / interface field without an argument list gets an empty one
fn with_empty_argument_lists<'a>(doc: &TypeSystemDocument<'a>) -> TypeSystemDocument<'a> {
    let mut d = doc.clone();
    let fix = |fs: &mut Vec<rts::FieldDefinition<'a>>| {
        for f in fs.iter_mut() {
            if f.arguments.is_none() {
                f.arguments = Some(rts::ArgumentsDefinition { input_values: vec![] });
            }
        }
    };
    for def in d.definitions.iter_mut() {
        if let rts::TypeSystemDefinition::TypeDefinition(t) = def {
            match t {
                rts::TypeDefinition::Object(t) => fix(&mut t.fields),
                rts::TypeDefinition::Interface(t) => fix(&mut t.fields),
                _ => {}
            }
        }
    }
    d
}

fn walk_dirs(ds: &[RDirective], map: &mut HashMap<Key, Key>) {
    for d in ds {
        if let Some(a) = &d.arguments {
            map.insert(key_of(&a.position), key_of(&d.position));
        }
    }
}
fn walk_ivs(vs: &[rts::InputValueDefinition], map: &mut HashMap<Key, Key>) {
    for v in vs {
        walk_dirs(&v.directives, map);
    }
}
fn walk_fields(fs: &[rts::FieldDefinition], map: &mut HashMap<Key, Key>) {
    for f in fs {
        walk_dirs(&f.directives, map);
        if let Some(a) = &f.arguments {
            walk_ivs(&a.input_values, map);
        }
    }
}
/// side table: position of the "(" of a directive application's arguments → position of the directive
fn paren_table(doc: &TypeSystemDocument) -> HashMap<Key, Key> {
    let mut m = HashMap::new();
    for d in &doc.definitions {
        match d {
            rts::TypeSystemDefinition::SchemaDefinition(s) => walk_dirs(&s.directives, &mut m),
            rts::TypeSystemDefinition::DirectiveDefinition(d) => {
                if let Some(a) = &d.arguments {
                    walk_ivs(&a.input_values, &mut m);
                }
            }
            rts::TypeSystemDefinition::TypeDefinition(t) => match t {
                rts::TypeDefinition::Scalar(t) => walk_dirs(&t.directives, &mut m),
                rts::TypeDefinition::Object(t) => {
                    walk_dirs(&t.directives, &mut m);
                    walk_fields(&t.fields, &mut m);
                }
                rts::TypeDefinition::Interface(t) => {
                    walk_dirs(&t.directives, &mut m);
                    walk_fields(&t.fields, &mut m);
                }
                rts::TypeDefinition::Union(t) => walk_dirs(&t.directives, &mut m),
                rts::TypeDefinition::Enum(t) => {
                    walk_dirs(&t.directives, &mut m);
                    for v in &t.values {
                        walk_dirs(&v.directives, &mut m);
                    }
                }
                rts::TypeDefinition::InputObject(t) => {
                    walk_dirs(&t.directives, &mut m);
                    walk_ivs(&t.fields, &mut m);
                }
            },
        }
    }
    m
}

fn run_real(texts: &[String]) -> Real {
    let texts: Vec<String> = texts.to_vec();
    let nb_text = NITROGQL_BUILTINS_SDL.to_string();
    let r = catch(std::panic::AssertUnwindSafe(|| {
        let mut docs: Vec<TypeSystemOrExtensionDocument> = vec![];
        for (i, t) in texts.iter().enumerate() {
            set_current_file_of_pos(i);
            match parse_type_system_document(t) {
                Ok(d) => docs.push(d),
                Err(e) => {
                    return Real { stage: "parse", diags: vec![diag_of_positioned("parse-schema", "ParseError", e.into())], merged: None, resolved: None, dup: None, panic: None, empty_args_diff: None }
                }
            }
        }
        let mut merged = TypeSystemOrExtensionDocument::merge(docs);
        merged.extend(graphql_builtins::generate_builtins());
        let nb = parse_type_system_document(&nb_text).expect("builtin sdl");
        merged.extend(nb.definitions);
        let merged_model = from_real_tsdoc_ext(&merged);
        let resolved = match resolve_schema_extensions(merged) {
            Ok(r) => r,
            Err(e) => {
                let dbg = format!("{:?}", e.message);
                let kind = dbg.split(|c: char| !(c.is_alphanumeric() || c == '_')).next().unwrap_or("").to_string();
                let field = |name: &str| -> String {
                    dbg.split(&format!("{name}: \"")).nth(1).and_then(|r| r.split('"').next()).unwrap_or("").to_string()
                };
                let dup = if kind == "DuplicateOriginal" { Some((field("name_of_elem"), field("name"))) } else { None };
                return Real { stage: "resolve", diags: vec![diag_of_positioned("resolve-schema", &kind, e.into())], merged: Some(merged_model), resolved: None, dup, panic: None, empty_args_diff: None };
            }
        };
        let table = paren_table(&resolved);
        let errs = check_type_system_document(&resolved);
        let mut diags: Vec<Diag> = vec![];
        for e in &errs {
            let mut d = diag_of_check("check-schema", e);
            if d.kind == "ArgumentsNotNeeded" || d.kind == "RequiredArgumentNotSpecified" {
                // canonicalisation: the "(" of the application's arguments → the application itself
                if let Some(k) = table.get(&key_of(&e.position)) {
                    d.line = k.0;
                    d.col = k.1;
                    d.file = k.2;
                    d.builtin = k.3;
                }
            }
            diags.push(d);
        }
        let resolved_model = from_real_tsdoc(&resolved);
        let key = |es: &[nitrogql_checker::CheckError]| -> Vec<String> {
            let mut v: Vec<String> = es.iter().map(|e| { let d = diag_of_check("check-schema", e); format!("{} {} {} {} {}", d.kind, d.line, d.col, d.file, d.builtin) }).collect();
            v.sort();
            v
        };
        let errs2 = check_type_system_document(&with_empty_argument_lists(&resolved));
        let (k1, k2) = (key(&errs), key(&errs2));
        let empty_args_diff = if k1 != k2 { Some((k1, k2)) } else { None };
        Real { stage: "check", diags, merged: Some(merged_model), resolved: Some(resolved_model), dup: None, panic: None, empty_args_diff }
    }));
    match r {
        Ok(x) => x,
        Err(p) => Real { stage: "panic", diags: vec![], merged: None, resolved: None, dup: None, panic: Some(p), empty_args_diff: None },
    }
}

fn real_keys(diags: &[Diag]) -> Vec<String> {
    let mut v: Vec<String> = diags.iter().map(|d| if d.builtin { format!("{} b", d.kind) } else { format!("{} {} {} {}", d.kind, d.line, d.col, d.file) }).collect();
    v.sort();
    v
}
fn model_keys(errs: &Sexp) -> Vec<String> {
    let mut v: Vec<String> = errs.args().iter().map(|e| e.as_list().unwrap_or(&[]).iter().map(|x| x.as_atom().unwrap_or("?").to_string()).collect::<Vec<_>>().join(" ")).collect();
    v.sort();
    v
}

#[derive(Clone, Debug)]
struct Case {
    files: Vec<String>,
    /// "valid" | "valid-redeclare" | "mutation" | "junk" | "pair"
    mode: String,
    rule: Option<String>,
    class: Option<String>,
    features: Vec<String>,
}

impl Case {
    fn to_json(&self) -> Value {
        json!({"files": self.files, "mode": self.mode, "rule": self.rule, "class": self.class, "features": self.features})
    }
    fn from_json(v: &Value) -> Case {
        Case {
            files: v["files"].as_array().map(|a| a.iter().map(|x| x.as_str().unwrap_or("").to_string()).collect()).unwrap_or_default(),
            mode: v["mode"].as_str().unwrap_or("junk").to_string(),
            rule: v["rule"].as_str().map(|s| s.to_string()),
            class: v["class"].as_str().map(|s| s.to_string()),
            features: v["features"].as_array().map(|a| a.iter().map(|x| x.as_str().unwrap_or("").to_string()).collect()).unwrap_or_default(),
        }
    }
}

#[derive(Clone, Debug)]
struct Fail {
    stream: &'static str,
    signature: String,
    what: String,
}

/// syntactic class of the node at a diagnostic's position (for signatures of completeness failures)
fn class_at(doc: &TsDoc, line: usize, col: usize, file: usize) -> String {
    let hit = |p: &P| p.known && !p.builtin && p.line == line && p.col == col && p.file == file;
    fn ty_hit(t: &Ty, hit: &dyn Fn(&P) -> bool) -> bool {
        match t {
            Ty::Named(_, p) => hit(p),
            Ty::List(i, p) => hit(p) || ty_hit(i, hit),
            Ty::NonNull(i) => ty_hit(i, hit),
        }
    }
    fn val_hit(v: &Val, hit: &dyn Fn(&P) -> bool) -> bool {
        match v {
            Val::Var(_, p) | Val::Int(_, p) | Val::Float(_, p) | Val::Str(_, p) | Val::Bool(_, p) | Val::Null(p) | Val::Enum(_, p) => hit(p),
            Val::List(vs, p) => hit(p) || vs.iter().any(|v| val_hit(v, hit)),
            Val::Obj(fs, p) => hit(p) || fs.iter().any(|a| hit(&a.pos) || val_hit(&a.value, hit)),
        }
    }
    let dirs_hit = |ds: &[Dir]| -> Option<&'static str> {
        for d in ds {
            if hit(&d.pos) || hit(&d.name_pos) {
                return Some("directive");
            }
            for a in &d.args {
                if hit(&a.pos) {
                    return Some("directive-argument-name");
                }
                if val_hit(&a.value, &hit) {
                    return Some("directive-argument-value");
                }
            }
        }
        None
    };
    let iv_hit = |v: &InputValueDef, what: &str| -> Option<String> {
        if hit(&v.pos) {
            return Some(format!("{what}-name"));
        }
        if ty_hit(&v.ty, &hit) {
            return Some(format!("{what}-type"));
        }
        dirs_hit(&v.dirs).map(|d| format!("{what}-{d}"))
    };
    for it in &doc.items {
        match it {
            TsItem::SchemaDef(s) | TsItem::SchemaExt(s) => {
                if let Some(d) = dirs_hit(&s.dirs) {
                    return format!("schema-{d}");
                }
                if s.roots.iter().any(|r| hit(&r.2)) {
                    return "root-operation-type".into();
                }
            }
            TsItem::DirectiveDef(d) => {
                if hit(&d.pos) || hit(&d.name_pos) {
                    return "directive-definition".into();
                }
                for a in &d.args {
                    if let Some(c) = iv_hit(a, "directive-definition-argument") {
                        return c;
                    }
                }
            }
            TsItem::TypeDef(t) | TsItem::TypeExt(t) => {
                let k = t.kind.as_str();
                if hit(&t.name_pos) || hit(&t.pos) {
                    return format!("{k}-name");
                }
                if let Some(d) = dirs_hit(&t.dirs) {
                    return format!("{k}-{d}");
                }
                if t.implements.iter().any(|i| hit(&i.1)) {
                    return format!("{k}-implements");
                }
                if t.members.iter().any(|i| hit(&i.1)) {
                    return "union-member".into();
                }
                for f in &t.fields {
                    if hit(&f.pos) {
                        return format!("{k}-field-name");
                    }
                    if ty_hit(&f.ty, &hit) {
                        return format!("{k}-field-type");
                    }
                    if let Some(d) = dirs_hit(&f.dirs) {
                        return format!("{k}-field-{d}");
                    }
                    for a in &f.args {
                        if let Some(c) = iv_hit(a, &format!("{k}-field-argument")) {
                            return c;
                        }
                    }
                }
                for v in &t.values {
                    if hit(&v.pos) {
                        return "enum-value-name".into();
                    }
                    if let Some(d) = dirs_hit(&v.dirs) {
                        return format!("enum-value-{d}");
                    }
                }
                for f in &t.inputs {
                    if let Some(c) = iv_hit(f, "input-field") {
                        return c;
                    }
                }
            }
        }
    }
    "elsewhere".into()
}

struct Ctx<'a> {
    rep: &'a mut Report,
    drv: &'a mut Driver,
    /// one entry per (stream, signature): the SMALLEST failing case seen so far (shrunk and reported by `flush`)
    pending: Vec<(Fail, Case)>,
}

impl<'a> Ctx<'a> {
    /// run the comparisons on a batch of cases; `record` = count into the report (false while shrinking)
    fn eval(&mut self, cases: &[Case], record: bool) -> Vec<Vec<Fail>> {
        let reals: Vec<Real> = cases.iter().map(|c| run_real(&c.files)).collect();
        let mut reqs = vec![];
        let mut slots: Vec<(Option<usize>, Option<usize>, Option<usize>)> = vec![];
        for r in &reals {
            let mut slot = (None, None, None);
            if let Some(m) = &r.merged {
                slot.0 = Some(reqs.len());
                reqs.push(Sexp::call("ts.dup", vec![m.to_sexp()]));
            }
            if let Some(d) = &r.resolved {
                slot.1 = Some(reqs.len());
                reqs.push(Sexp::call("ts.all", vec![d.to_sexp()]));
            } else if let Some(m) = &r.merged {
                // the resolver refused: the spec rules are evaluated on the definitions of the merged document
                slot.2 = Some(reqs.len());
                reqs.push(Sexp::call("ts.rules", vec![m.to_sexp()]));
            }
            slots.push(slot);
        }
        let ans = self.drv.batch(&reqs);
        let mut out = vec![];
        for (ci, case) in cases.iter().enumerate() {
            let real = &reals[ci];
            let mut fails: Vec<Fail> = vec![];
            let slot = slots[ci];
            if record {
                self.rep.evaluations += 1;
                self.rep.count(&format!("real-stage:{}", real.stage));
                for d in &real.diags {
                    self.rep.count(&format!("real-kind:{}", d.kind));
                }
            }
            if real.stage == "panic" {
                fails.push(Fail { stream: "O", signature: "panic".into(), what: format!("the schema pipeline panicked: {}", real.panic.clone().unwrap_or_default()) });
                out.push(fails);
                continue;
            }
            if real.stage == "parse" {
                if record {
                    self.rep.count("generator-bug:unparsable");
                    self.rep.notes.push(format!("unparsable generated text: {} :: {}", real.diags[0].message, case.files.join("\n---\n").chars().take(400).collect::<String>()));
                }
                out.push(fails);
                continue;
            }
            // ---- K: duplicate-definition test of the resolver -----------------------------------------
            if let Some(k) = slot.0 {
                if record {
                    self.rep.k_cases += 1;
                }
                let a = &ans[k];
                let model_dup: Option<(String, String)> = match a.head() {
                    Some("dup") => {
                        let args = a.args();
                        if args.len() == 1 {
                            Some(("schema".into(), String::new()))
                        } else {
                            let kind = match args[0].as_atom().unwrap_or("") {
                                "object" => "type",
                                "input" => "input object",
                                k => k,
                            };
                            Some((kind.to_string(), args[1].as_str().unwrap_or("").to_string()))
                        }
                    }
                    _ => None,
                };
                if a.head() == Some("bad-request") {
                    fails.push(Fail { stream: "K", signature: "codec".into(), what: "the driver could not decode the merged document".into() });
                } else if model_dup != real.dup {
                    fails.push(Fail { stream: "K", signature: "dup-original".into(), what: format!("resolver DuplicateOriginal: code {:?} model {:?}", real.dup, model_dup) });
                }
            }
            if let Some((a, b)) = &real.empty_args_diff {
                let only_a: Vec<&String> = a.iter().filter(|x| !b.contains(x)).collect();
                let only_b: Vec<&String> = b.iter().filter(|x| !a.contains(x)).collect();
                fails.push(Fail {
                    stream: "K",
                    signature: "check:empty-argument-list-equivalence".into(),
                    what: format!("check_type_system_document distinguishes a field without an argument list from a field with an EMPTY one (the model has one representation): only without {:?}, only with empty lists {:?}", only_a, only_b),
                });
            }
            // ---- K: check_type_system_document -----------------------------------------------------------
            let mut valid = None;
            let mut rules: Vec<String> = vec![];
            if let Some(k) = slot.1 {
                if record {
                    self.rep.k_cases += 1;
                }
                let a = &ans[k];
                if a.head() != Some("all") {
                    fails.push(Fail { stream: "K", signature: "codec".into(), what: format!("the driver could not decode the resolved document: {}", a.to_line()) });
                } else {
                    let parts = a.args();
                    let mk = model_keys(&parts[0]);
                    let rk = real_keys(&real.diags);
                    if mk != rk {
                        let only_real: Vec<&String> = rk.iter().filter(|x| !mk.contains(x)).collect();
                        let only_model: Vec<&String> = mk.iter().filter(|x| !rk.contains(x)).collect();
                        let kind = only_real.first().or(only_model.first()).map(|s| s.split(' ').next().unwrap_or("").to_string()).unwrap_or_else(|| "multiplicity".into());
                        fails.push(Fail {
                            stream: "K",
                            signature: format!("check:{kind}"),
                            what: format!("check_type_system_document: only code {:?}, only model {:?} (code {} diagnostics, model {})", only_real, only_model, rk.len(), mk.len()),
                        });
                    }
                    valid = parts[1].args().first().and_then(|x| x.as_atom()).map(|x| x == "true");
                    rules = parts[2].args().iter().filter_map(|x| x.as_atom().map(|s| s.to_string())).collect();
                }
            }
            if let Some(k) = slot.2 {
                rules = ans[k].args().iter().filter_map(|x| x.as_atom().map(|s| s.to_string())).collect();
                valid = Some(false);
            }
            // ---- O ---------------------------------------------------------------------------------------
            match case.mode.as_str() {
                "valid" => {
                    if valid == Some(true) {
                        if record {
                            self.rep.o_cases += 1;
                            self.rep.count("O:valid-confirmed");
                            let mut fs = case.features.clone();
                            fs.sort();
                            self.rep.nontrivial(&fs.join(","));
                        }
                        if !real.diags.is_empty() {
                            let d = &real.diags[0];
                            let class = real.resolved.as_ref().map(|doc| class_at(doc, d.line, d.col, d.file)).unwrap_or_default();
                            // generic class: the site prefix is dropped (a finding must have ONE signature)
                            let generic = ["directive-argument-value", "directive-argument-name", "directive", "field-argument-name", "field-argument-type", "field-name", "field-type", "argument-name", "argument-type"]
                                .iter()
                                .find(|g| class.ends_with(*g))
                                .map(|g| g.to_string())
                                .unwrap_or(class.clone());
                            let detail = if d.kind == "TypeMismatch" {
                                // expected type from the message, with names kept: "…expected type 'Float'"
                                let ty = d.message.split('\'').nth(1).unwrap_or("").replace('[', "list-of-").replace(']', "").replace('!', "-nn");
                                format!(":expected-{ty}")
                            } else {
                                String::new()
                            };
                            fails.push(Fail {
                                stream: "O",
                                signature: format!("complete:{}@{}{}", d.kind, generic, detail),
                                what: format!("rejected-valid: a schema that is valid under every rule of Spec/ValidTs gets {} diagnostic(s); first: {} at {}:{} (file {}): {}", real.diags.len(), d.kind, d.line, d.col, d.file, d.message),
                            });
                        }
                    } else if record {
                        self.rep.count(&format!("generator-bug:valid-model-rejected-by-spec:{}", rules.join("+")));
                        if self.rep.notes.len() < 5 {
                            self.rep.notes.push(format!("valid-by-construction model rejected by the spec ({}): {}", rules.join("+"), case.files.join("\n---\n").chars().take(600).collect::<String>()));
                        }
                    }
                }
                "valid-redeclare" => {
                    // valid apart from verbatim re-declarations of built-in directives: the specification (which
                    // demands ALL directive names distinct) objects to exactly that; the code allows it
                    if slot.1.is_some() && rules == vec!["unique-directive-names".to_string()] {
                        if record {
                            self.rep.o_cases += 1;
                            self.rep.count("O:valid-redeclare-confirmed");
                            let mut fs = case.features.clone();
                            fs.sort();
                            self.rep.nontrivial(&format!("redeclare:{}", fs.join(",")));
                        }
                        if !real.diags.is_empty() {
                            let d = &real.diags[0];
                            let class = real.resolved.as_ref().map(|doc| class_at(doc, d.line, d.col, d.file)).unwrap_or_default();
                            fails.push(Fail {
                                stream: "O",
                                signature: format!("complete-redeclare:{}@{}", d.kind, class),
                                what: format!("a valid schema that re-declares built-in directives verbatim gets {} diagnostic(s); first: {} at {}:{} (file {}): {}", real.diags.len(), d.kind, d.line, d.col, d.file, d.message),
                            });
                        }
                    } else if record {
                        self.rep.count(&format!("valid-redeclare-not-confirmed-by-spec:{}", rules.join("+")));
                    }
                }
                "mutation" => {
                    let rule = case.rule.clone().unwrap_or_default();
                    let class = case.class.clone().unwrap_or_default();
                    if rules.contains(&rule) {
                        if record {
                            self.rep.o_cases += 1;
                            self.rep.count(&format!("O:mutation-confirmed:{rule}"));
                            self.rep.nontrivial(&format!("{rule}@{class}"));
                        }
                        let wanted = kinds_of_rule(&rule);
                        if !real.diags.iter().any(|d| wanted.contains(&d.kind.as_str())) {
                            fails.push(Fail {
                                stream: "O",
                                signature: format!("sound:{rule}@{class}"),
                                what: format!(
                                    "accepted-invalid: the schema breaks rule '{rule}' (position class {class}; confirmed by the spec) but the real check reports {}",
                                    if real.diags.is_empty() { "nothing".to_string() } else { format!("only {:?}", real.diags.iter().map(|d| d.kind.clone()).collect::<BTreeSet<_>>()) }
                                ),
                            });
                        }
                    } else if record {
                        self.rep.count(&format!("mutation-not-confirmed-by-spec:{rule}@{class}"));
                    }
                }
                "pair" => {
                    // covariance of interface field types: real FieldTypeMisMatchWithInterface ⟺ spec says not covariant
                    if slot.1.is_some() && !rules.contains(&"unknown-types".to_string()) {
                        let spec_bad = rules.contains(&"iface-field-type".to_string());
                        let real_bad = real.diags.iter().any(|d| d.kind == "FieldTypeMisMatchWithInterface");
                        if record {
                            self.rep.o_cases += 1;
                            self.rep.count(&format!("O:pair:{}", if spec_bad { "not-covariant" } else { "covariant" }));
                            self.rep.nontrivial(&case.files[0]);
                        }
                        if spec_bad != real_bad {
                            fails.push(Fail {
                                stream: "O",
                                signature: format!("covariance:{}", if spec_bad { "non-covariant-accepted" } else { "covariant-rejected" }),
                                what: format!("interface field type pair: spec covariance says {}, the real check {}", if spec_bad { "invalid" } else { "valid" }, if real_bad { "reports FieldTypeMisMatchWithInterface" } else { "reports no FieldTypeMisMatchWithInterface" }),
                            });
                        }
                    }
                }
                _ => {}
            }
            out.push(fails);
        }
        out
    }

    /// greedy removal of top-level definitions (by blank-line separated chunks of the canonical text)
    fn shrink(&mut self, case: &Case, fail: &Fail) -> Case {
        let mut cur = case.clone();
        let mut budget = 120;
        loop {
            let mut progressed = false;
            for fi in 0..cur.files.len() {
                let chunks: Vec<String> = cur.files[fi].split("\n\n").filter(|c| !c.trim().is_empty()).map(|c| c.to_string()).collect();
                let mut k = 0;
                let mut chunks = chunks;
                while k < chunks.len() && budget > 0 {
                    let mut trial = chunks.clone();
                    trial.remove(k);
                    let mut t = cur.clone();
                    t.files[fi] = trial.join("\n\n") + "\n";
                    budget -= 1;
                    let fs = self.eval(std::slice::from_ref(&t), false).pop().unwrap_or_default();
                    if fs.iter().any(|f| f.stream == fail.stream && f.signature == fail.signature) {
                        chunks = trial;
                        cur = t;
                        progressed = true;
                    } else {
                        k += 1;
                    }
                }
            }
            if !progressed || budget == 0 {
                break;
            }
        }
        // second phase: single lines inside the remaining definitions (the canonical rendering puts one field / enum
        // value / input field per line), so that the reported schema is the minimal one
        let mut budget = 80;
        for fi in 0..cur.files.len() {
            let mut lines: Vec<String> = cur.files[fi].split('\n').map(|l| l.to_string()).collect();
            let mut k = 0;
            while k < lines.len() && budget > 0 {
                let l = lines[k].trim();
                if l.is_empty() || l == "}" || l.ends_with('{') {
                    k += 1;
                    continue;
                }
                let mut trial = lines.clone();
                trial.remove(k);
                let mut t = cur.clone();
                t.files[fi] = trial.join("\n");
                budget -= 1;
                let fs = self.eval(std::slice::from_ref(&t), false).pop().unwrap_or_default();
                if fs.iter().any(|f| f.stream == fail.stream && f.signature == fail.signature) {
                    lines = trial;
                    cur = t;
                } else {
                    k += 1;
                }
            }
        }
        cur.files.retain(|f| !f.trim().is_empty());
        if cur.files.is_empty() {
            cur.files.push(String::new());
        }
        // dropping a file renumbers the others; keep the shrunk case only if it still fails the same way
        let fs = self.eval(std::slice::from_ref(&cur), false).pop().unwrap_or_default();
        if fs.iter().any(|f| f.stream == fail.stream && f.signature == fail.signature) {
            cur
        } else {
            case.clone()
        }
    }

    fn run(&mut self, cases: &[Case]) {
        let results = self.eval(cases, true);
        for (case, fails) in cases.iter().zip(results) {
            for f in fails {
                let size = |c: &Case| c.files.iter().map(|t| t.len()).sum::<usize>();
                match self.pending.iter_mut().find(|(x, _)| x.stream == f.stream && x.signature == f.signature) {
                    Some(slot) => {
                        self.rep.count(&format!("fail:{}:{}", f.stream, f.signature));
                        if size(case) < size(&slot.1) {
                            *slot = (f, case.clone());
                        }
                    }
                    None => self.pending.push((f, case.clone())),
                }
            }
        }
    }

    /// of the failing inputs of one signature the smallest is shrunk and reported
    fn flush(&mut self) {
        let pending = std::mem::take(&mut self.pending);
        for (f, case) in pending {
            let shown = self.shrink(&case, &f);
            self.rep.fail(f.stream, &f.signature, &f.what, shown.to_json());
        }
    }
}

fn render_files(rng: &mut Rng, doc: &TsDoc, features: &mut BTreeSet<String>) -> Vec<String> {
    let nfiles = 1 + rng.below(3);
    let mut files: Vec<TsDoc> = (0..nfiles).map(|_| TsDoc::default()).collect();
    for it in &doc.items {
        let k = rng.below(nfiles);
        files[k].items.push(it.clone());
    }
    // the parser rejects an empty document: a file that received no definition is dropped
    files.retain(|f| !f.items.is_empty());
    let nfiles = files.len();
    features.insert(format!("files:{nfiles}"));
    let noisy = rng.chance(1, 4);
    if noisy {
        features.insert("render:trivia".into());
    }
    files
        .iter_mut()
        .map(|d| {
            let style = if noisy { Style::noisy() } else { Style::canonical() };
            render_tsdoc(d, style, rng.fork()).0
        })
        .collect()
}

/// like `render_files`, but with 2-3 files and every `extend` item in a file OTHER than the one that holds
/// the definition it extends (a fault that exists only after the extensions of another file are merged)
fn render_files_ext_elsewhere(rng: &mut Rng, doc: &TsDoc, features: &mut BTreeSet<String>) -> Vec<String> {
    let nfiles = 2 + rng.below(2);
    let mut files: Vec<TsDoc> = (0..nfiles).map(|_| TsDoc::default()).collect();
    let mut home: HashMap<String, usize> = HashMap::new();
    for it in &doc.items {
        if let TsItem::TypeDef(t) = it {
            let k = rng.below(nfiles);
            home.insert(t.name.clone(), k);
            files[k].items.push(it.clone());
        }
    }
    for it in &doc.items {
        match it {
            TsItem::TypeDef(_) => {}
            TsItem::TypeExt(t) => {
                let k = match home.get(&t.name) {
                    Some(h) => (h + 1 + rng.below(nfiles - 1)) % nfiles,
                    None => rng.below(nfiles),
                };
                files[k].items.push(it.clone());
            }
            _ => {
                let k = rng.below(nfiles);
                let at = rng.below(files[k].items.len() + 1);
                files[k].items.insert(at, it.clone());
            }
        }
    }
    files.retain(|f| !f.items.is_empty());
    features.insert(format!("files:{}", files.len()));
    features.insert("files:extensions-elsewhere".into());
    files.iter_mut().map(|d| render_tsdoc(d, Style::canonical(), rng.fork()).0).collect()
}

/// insert the items of a graph gadget at random places of the document and put its directive applications
/// at some site outside the gadget (never on an argument of a directive definition: that would add edges
/// to the directive reference graph)
fn place_gadget(rng: &mut Rng, items: &mut Vec<TsItem>, g: &graphx::Gadget) {
    for it in &g.items {
        let at = rng.below(items.len() + 1);
        items.insert(at, it.clone());
    }
    for d in &g.apply {
        let ss: Vec<(Site, &'static str, bool)> = sites(items)
            .into_iter()
            .filter(|(site, _, _)| match site {
                Site::DirArg(..) => false,
                Site::Schema(_) => true,
                Site::Type(k) | Site::Field(k, _) | Site::FieldArg(k, _, _) | Site::EnumValue(k, _) | Site::InputField(k, _) => !items[*k].name().unwrap_or("").starts_with("Zg"),
            })
            .collect();
        if ss.is_empty() {
            continue;
        }
        let (site, _, _) = ss[rng.below(ss.len())].clone();
        dirs_at(items, &site).push(d.clone());
    }
}

fn gen_valid(rng: &mut Rng, tagged: bool) -> (TsDoc, BTreeSet<String>) {
    let cfg = GenCfg { hostile_text: rng.chance(1, 5), ..GenCfg::default() };
    let mut features = BTreeSet::new();
    let mut m = gen_schema(rng, &cfg);
    enrich(rng, &mut m, &mut features, tagged);
    let mut doc = if rng.chance(2, 3) { split_into_extensions(rng, &m) } else { m.doc.clone() };
    more_extensions(rng, &mut doc, &mut features);
    (doc, features)
}

/// hand-written regression corpus (minimised past failures and the rows of DESIGN.md §9), run first
fn corpus() -> Vec<Case> {
    let v = |text: &str| Case { files: vec![text.to_string()], mode: "valid".into(), rule: None, class: None, features: vec!["corpus".into()] };
    let m = |text: &str, rule: &str, class: &str| Case { files: vec![text.to_string()], mode: "mutation".into(), rule: Some(rule.into()), class: Some(class.into()), features: vec!["corpus".into()] };
    vec![
        // §9-p (fixed): a FIELD_DEFINITION directive on an interface field
        v("interface I { f: Int @deprecated }\ntype Query implements I { f: Int }\n"),
        // §9-r (fixed): a directive referenced twice from one directive definition
        v("directive @b on ARGUMENT_DEFINITION\ndirective @a(x: Int @b, y: Int @b) on OBJECT\ntype Query @a { f: Int }\n"),
        v("enum Role { ADMIN @deprecated USER @deprecated }\ndirective @auth(role: Role!) on OBJECT\ntype Query @auth(role: ADMIN) { f: Int }\n"),
        // §9-q: unknown type of an interface field
        m("interface I { f: Nope }\ntype Query { a: Int }\n", "unknown-types", "interface-field"),
        m("interface I { a: Int }\nextend interface I { f: [Nope!]! }\ntype Query { a: Int }\n", "unknown-types", "interface-field-in-extension"),
        m("type Query { a: Nope }\n", "unknown-types", "object-field"),
        m("enum E { __A }\ntype Query { a: E }\n", "reserved-names", "enum-value"),
        m("schema { query: Query subscription: Nope }\ntype Query { a: Int }\n", "unknown-types", "root-operation-type"),
        m("directive @r(x: In) on INPUT_FIELD_DEFINITION\ninput In { n: In2 }\ninput In2 { a: Int @r }\ntype Query { a: Int }\n", "directive-recursion", "through-nested-input-field"),
        m("directive @r(x: Int @r) on ARGUMENT_DEFINITION\ntype Query { a: Int }\n", "directive-recursion", "self"),
        // fix 2e4a65e: `directives_in_type` follows the types of input-object fields transitively, one `seen_types` set per
        // argument (two arguments of one type: reported twice; a type reached twice within one argument: once)
        m("directive @r(x: In, y: [In!]) on INPUT_FIELD_DEFINITION\ninput In { n: In2 }\ninput In2 { a: Int @r }\ntype Query { a: Int }\n", "directive-recursion", "through-nested-input-field"),
        m("directive @r(x: In) on INPUT_FIELD_DEFINITION\ninput In { a: A b: B }\ninput A { d: D }\ninput B { d: D }\ninput D { v: Int @r }\ntype Query { a: Int }\n", "directive-recursion", "through-nested-input-field"),
        m("directive @r(x: In) on INPUT_OBJECT\ninput In { n: In2 }\ninput In2 @r { back: In v: Int }\ntype Query { a: Int }\n", "directive-recursion", "through-nested-input-type"),
        m("directive @r(x: In) on ENUM_VALUE\ninput In { n: [In2!] }\ninput In2 { e: E self: In2 }\nenum E { A @r }\ntype Query { a: Int }\n", "directive-recursion", "through-nested-enum-value"),
        m("directive @p(x: PIn) on INPUT_FIELD_DEFINITION | ARGUMENT_DEFINITION\ndirective @q(y: Int @p) on INPUT_FIELD_DEFINITION | ARGUMENT_DEFINITION\ninput PIn { n: PIn2 }\ninput PIn2 { n: PIn3 }\ninput PIn3 { v: Int @q }\ntype Query { a: Int }\n", "directive-recursion", "cycle:only-through-nested-input-object"),
        v("directive @l on INPUT_FIELD_DEFINITION\ndirective @r(x: In, y: In) on OBJECT\ninput In { a: A b: A self: In }\ninput A { v: Int @l }\ntype Query @r { a: Int }\n"),
        Case { files: vec!["directive @r(x: Obj) on ARGUMENT_DEFINITION\ntype Obj { f(a: Int @r): Int }\ntype Query { a: Int }\n".into()], mode: "junk".into(), rule: None, class: None, features: vec!["corpus".into()] },
        Case { files: vec!["directive @r(x: In) on FIELD_DEFINITION\ninput In { o: Obj }\ntype Obj { f: Int @r }\ntype Query { a: Int }\n".into()], mode: "junk".into(), rule: None, class: None, features: vec!["corpus".into()] },
        m("input In { k: String! v: Int }\ndirective @ar(i: In) on OBJECT\ntype Query @ar(i: {k: \"a\", zz: 1}) { a: Int }\n", "directive-args", "input-object-unknown-field(optional-field-omitted)"),
        m("directive @d(a: Int) on OBJECT\ntype Query @d(a: 1, a: \"x\") { f: Int }\n", "directive-args", "duplicate-argument-second-ill-typed"),
        // fix e3584a3: an Int argument of a directive application is a signed 32-bit value (spec 3.5.1)
        v("directive @d(n: Int!, l: [Int], fl: Float, id: ID) on OBJECT\ntype Query @d(n: -2147483648, l: [2147483647, -0], fl: 4294967296, id: 12345678901234567890) { f: Int }\n"),
        v("input In { v: Int w: Float }\ndirective @d(i: In, l: [[Int!]]) on FIELD_DEFINITION\ntype Query { f: Int @d(i: {v: 2147483647, w: -9223372036854775809}, l: -2147483648) }\n"),
        m("directive @d(n: Int) on OBJECT\ntype Query @d(n: 4294967296) { f: Int }\n", "directive-args", "int-beyond-32-bit"),
        m("directive @d(n: Int!) on FIELD_DEFINITION\ntype Query { f: Int @d(n: 2147483648) }\n", "directive-args", "int-beyond-32-bit"),
        m("directive @d(n: Int) on ARGUMENT_DEFINITION\ntype Query { f(a: Int @d(n: -2147483649)): Int }\n", "directive-args", "int-beyond-32-bit"),
        m("directive @d(l: [Int]) on OBJECT\ntype Query @d(l: [1, 3000000000]) { f: Int }\n", "directive-args", "list-item-int-beyond-32-bit"),
        m("directive @d(l: [[Int]]) on OBJECT\ntype Query @d(l: 12345678901234567890) { f: Int }\n", "directive-args", "single-value-for-list-int-beyond-32-bit"),
        m("input In { v: Int }\ndirective @d(i: In) on ENUM_VALUE\nenum E { A @d(i: {v: -9223372036854775809}) }\ntype Query { f: E }\n", "directive-args", "input-object-field-int-beyond-32-bit"),
        v("interface I { f: Int }\ntype Query implements I { f(x: Int! = 1): Int }\n"),
        v("directive @d(f: Float, i: ID, l: [Int]) on OBJECT\ntype Query @d(f: 1, i: 2, l: 3) { a: Int }\n"),
        v("interface A { a: A }\ninterface B implements A { a: B }\ntype Query implements B & A { a: Query }\n"),
        v("type Query { a: Int }\ntype T { t: Int }\nunion U = T\ninterface I { u: U us: [U] }\ntype O implements I { u: T us: [T!]! }\n"),
        m("type A { a: Int }\ntype A { b: Int }\ntype Query { a: Int }\n", "dup-type-defs", "kind:object"),
        // cycles in the interface hierarchy (no interface lists itself; every interface lists all the others):
        // the only broken requirement is "A must declare A because B implements A"
        m("interface CA implements CB { x: Int }\ninterface CB implements CA { x: Int }\ntype Query { a: Int }\n", "missing-transitive", "interface-cycle-in-definitions"),
        m("interface CA implements CB & CC { x: Int }\ninterface CB implements CC & CA { x: Int }\ninterface CC implements CA & CB { x: Int }\ntype Query implements CA & CB & CC { x: Int }\n", "missing-transitive", "interface-cycle-in-definitions"),
        Case {
            files: vec!["interface CA { x: Int }\ninterface CB implements CA { x: Int y: Int }\ntype Query { a: Int }\n".into(), "extend interface CA implements CB { y: Int }\n".into()],
            mode: "mutation".into(),
            rule: Some("missing-transitive".into()),
            class: Some("interface-cycle-closed-by-extension".into()),
            features: vec!["corpus".into()],
        },
        // diamond whose bottom omits the top; chain with a deep omission
        m("interface DT { t: Int }\ninterface DL implements DT { t: Int }\ninterface DR implements DT { t: Int }\ntype Query implements DL & DR { t: Int }\n", "missing-transitive", "dag-omission:object"),
        v("interface DT { t: Int }\ninterface DL implements DT { t: Int }\ninterface DR implements DT { t: Int }\ninterface DB implements DL & DR & DT { t: Int }\ntype Query implements DB & DL & DR & DT { t: Int }\n"),
        // directive reference cycles closed through types / extensions; a legal cycle of input objects
        m("directive @ca(x: CE) on ENUM_VALUE | ARGUMENT_DEFINITION\ndirective @cb(y: Int @ca) on ENUM_VALUE | ARGUMENT_DEFINITION\nenum CE { A }\nextend enum CE { B @cb }\ntype Query { a: Int }\n", "directive-recursion", "cycle:mixed-in-extension"),
        v("input NA { s: String! next: NB }\ninput NB { v: Int back: NA list: [NA!] }\ndirective @dn(i: NA) on OBJECT\ntype Query @dn(i: {s: \"a\", next: {back: {s: \"b\", next: {list: [{s: \"c\"}]}}}}) { a: Int }\n"),
        m("input NA { s: String! next: NB }\ninput NB { v: Int back: NA list: [NA!] }\ndirective @dn(i: NA) on OBJECT\ntype Query @dn(i: {s: \"a\", next: {back: {s: \"b\", next: {list: [{s: \"c\", v: \"x\"}]}}}}) { a: Int }\n", "directive-args", "nested-input-object:string-for-int"),
        // different kinds, same name: passes the resolver, reaches the checker with two definitions of A
        Case { files: vec!["type A { a: Int }\ninterface A { b: Int }\nunion U = A\ntype Query implements A { a: A b: Int }\n".into()], mode: "junk".into(), rule: None, class: None, features: vec!["corpus".into()] },
        Case { files: vec!["directive @d on OBJECT\ndirective @d(x: Int @d) on ARGUMENT_DEFINITION | OBJECT\ntype Query @d { a: Int }\n".into()], mode: "junk".into(), rule: None, class: None, features: vec!["corpus".into()] },
        // fix 8cdbacf: repeated names are reported (they were silently shadowed)
        m("type A { a: Int }\ninput A { b: Int }\ntype Query { a: Int }\n", "unique-type-names", "cross-kind:object+input"),
        m("scalar A\ntype A { f: B }\nscalar B\ninput I { x: A }\ntype Query { a: Int }\n", "unique-type-names", "cross-kind:scalar+object"),
        m("enum String { A }\ntype Query { a: Int }\n", "unique-type-names", "builtin-scalar-name:enum"),
        m("input Int { x: String }\ntype Query { a: String }\n", "unique-type-names", "builtin-scalar-name:input"),
        m("directive @d on SCALAR\ndirective @d on OBJECT\nscalar X @d\ntype Query { x: X }\n", "unique-directive-names", "changed-copy"),
        m("directive @d on OBJECT\ndirective @d on SCALAR\nscalar X @d\ntype Query { x: X }\n", "unique-directive-names", "changed-copy"),
        Case {
            files: vec!["directive @d on SCALAR\ntype Query { x: Int }\n".into(), "directive @d on SCALAR\nscalar X @d\n".into()],
            mode: "mutation".into(),
            rule: Some("unique-directive-names".into()),
            class: Some("verbatim-copy".into()),
            features: vec!["corpus".into(), "files:2".into()],
        },
        Case {
            files: vec!["type A { a: Int }\ntype Query { a: A }\n".into(), "union A = Query\n".into()],
            mode: "mutation".into(),
            rule: Some("unique-type-names".into()),
            class: Some("cross-kind:object+union".into()),
            features: vec!["corpus".into(), "files:2".into()],
        },
        // IsValidImplementation 2.c / 2.d over the shape of both sides: the interface field has no argument list / one /
        // several arguments; the implementing field adds, drops, renames or retypes (seed follow-up m7)
        m("interface Node { id: ID! }\ntype User implements Node { id(format: String!): ID! }\ntype Query { a: Int }\n", "iface-field-args", "object:no-arguments:extra-required-argument"),
        m("interface Node { id: ID! }\ninterface Entity implements Node { id(a: Int, format: [String]!, b: Int = 1): ID! }\ntype Query { a: Int }\n", "iface-field-args", "interface:no-arguments:extra-required-argument"),
        Case {
            files: vec!["interface Node { id: ID! }\ntype User { id(format: String!): ID! own: Int }\ntype Query { a: Int }\n".into(), "extend type User implements Node\n".into()],
            mode: "mutation".into(),
            rule: Some("iface-field-args".into()),
            class: Some("object:no-arguments:extra-required-argument-via-extension".into()),
            features: vec!["corpus".into(), "files:2".into()],
        },
        Case {
            files: vec!["interface Node { own: Int }\ninterface Entity implements Node { own: Int }\ntype Query { a: Int }\n".into(), "extend interface Node { id: ID! }\n".into(), "extend interface Entity { id(format: String!): ID! }\n".into()],
            mode: "mutation".into(),
            rule: Some("iface-field-args".into()),
            class: Some("interface:no-arguments:extra-required-argument-via-extension".into()),
            features: vec!["corpus".into(), "files:3".into()],
        },
        m("interface I { f(a: Int): Int }\ntype T implements I { f: Int }\ntype Query { a: Int }\n", "iface-field-args", "object:one-argument:argument-dropped-leaving-no-argument-list"),
        m("interface I { f(a: Int, b: [String!]): Int }\ntype T implements I { f(b: [String!], a: Int, c: ID!): Int }\ntype Query { a: Int }\n", "iface-field-args", "object:several-arguments:extra-required-argument"),
        m("interface I { f(a: Int, b: [String!]): Int }\ninterface J implements I { f(a: Int, b: [String]): Int }\ntype Query { a: Int }\n", "iface-field-args", "interface:several-arguments:argument-item-nullability-changed"),
        m("interface I { f(a: Int! = 1): Int }\ntype T implements I { f(a: Int = 1): Int }\ntype Query { a: Int }\n", "iface-field-args", "object:one-argument:argument-made-nullable"),
        v("interface I { f: Int g(a: Int! = 1): Int }\ntype T implements I { f(x: Int, y: [Int!]! = [1], z: String = null): Int g(a: Int!, o: Boolean): Int }\ntype Query { a: Int }\n"),
        v("interface I { f(a: Int, b: [String!]! = []): Int }\ninterface M implements I { f(b: [String!]!, a: Int = 2, m: Int! = 1): Int }\ntype T implements M & I { f(m: Int! = 3, a: Int, b: [String!]! = [\"x\"], t: ID): Int! }\ntype Query { a: Int }\n"),
        // … and re-declaring a built-in directive stays allowed
        Case {
            files: vec!["directive @deprecated(reason: String = \"No longer supported\") on FIELD_DEFINITION | ARGUMENT_DEFINITION | INPUT_FIELD_DEFINITION | ENUM_VALUE\ndirective @skip(if: Boolean!) on FIELD | FRAGMENT_SPREAD | INLINE_FRAGMENT\ntype Query { a: Int @deprecated }\n".into()],
            mode: "valid-redeclare".into(),
            rule: None,
            class: None,
            features: vec!["corpus".into()],
        },
    ]
}

/// interface-field type pairs over a small type universe: K for `is_subtype` through
/// `FieldTypeMisMatchWithInterface`, O against the spec's covariance
fn pair_cases(rng: &mut Rng, n: usize) -> Vec<Case> {
    let names = ["Int", "String", "Obj", "Obj2", "Ifc", "Ifc2", "Uni", "En", "Missing"];
    let mut out = vec![];
    for _ in 0..n {
        let mk = |rng: &mut Rng| -> String {
            let base = names[rng.below(names.len())].to_string();
            match rng.below(7) {
                0 | 1 => base,
                2 => format!("{base}!"),
                3 => format!("[{base}]"),
                4 => format!("[{base}!]"),
                5 => format!("[{base}]!"),
                _ => format!("[[{base}!]]!"),
            }
        };
        let a = mk(rng);
        let b = if rng.chance(1, 4) { a.clone() } else { mk(rng) };
        let text = format!(
            "type Query {{ q: Int }}\nenum En {{ A }}\ninterface Ifc {{ i: Int }}\ninterface Ifc2 implements Ifc {{ i: Int }}\ntype Obj implements Ifc2 & Ifc {{ i: Int }}\ntype Obj2 {{ i: Int }}\nunion Uni = Obj | Obj2\ninterface P {{ g: {b} }}\ntype C implements P {{ g: {a} }}\n"
        );
        let uses_missing = a.contains("Missing") || b.contains("Missing");
        out.push(Case { files: vec![text], mode: "pair".into(), rule: None, class: None, features: vec![format!("pair:{}", if uses_missing { "with-unknown" } else { "known" })] });
    }
    out
}

struct Budgets {
    n_valid: usize,
    n_redeclare: usize,
    n_mut: usize,
    n_junk: usize,
    n_pairs: usize,
    n_graph: usize,
    n_impl: usize,
}

/// one pass over all generated streams; `stop` is asked before every case (a `--search 1` run is cut by the clock)
fn streams(ctx: &mut Ctx, rng: &mut Rng, b: &Budgets, stop: &dyn Fn() -> bool) {
    let mut t_last = std::time::Instant::now();
    let mut lap = |ctx: &mut Ctx, name: &str| {
        ctx.rep.count_n(&format!("stream-ms:{name}"), t_last.elapsed().as_millis() as u64);
        t_last = std::time::Instant::now();
    };

    // ---- valid-by-construction ------------------------------------------------------------------
    let mut batch = vec![];
    for k in 0..b.n_valid {
        if stop() {
            break;
        }
        let (doc, mut features) = gen_valid(rng, true);
        let files = render_files(rng, &doc, &mut features);
        for f in &features {
            ctx.rep.count(&format!("feature:{f}"));
        }
        let case = Case { files, mode: "valid".into(), rule: None, class: None, features: features.into_iter().collect() };
        if k < 2 {
            ctx.rep.sample(json!({"mode": "valid", "files": case.files}));
        }
        batch.push(case);
        if batch.len() >= 100 {
            ctx.run(&batch);
            batch.clear();
        }
    }
    ctx.run(&batch);
    batch.clear();

    lap(ctx, "valid");
    // ---- valid + verbatim re-declarations of built-in directives (allowed) --------------------------------
    for k in 0..b.n_redeclare {
        if stop() {
            break;
        }
        let (doc, mut features) = gen_valid(rng, true);
        let mut items = doc.items.clone();
        let names = redeclare_builtin_directives(rng, &mut items);
        for n in &names {
            features.insert(format!("redeclared:@{n}"));
        }
        let files = render_files(rng, &TsDoc { items }, &mut features);
        ctx.rep.count("valid-redeclare");
        for n in &names {
            ctx.rep.count(&format!("feature:redeclared:@{n}"));
        }
        let case = Case { files, mode: "valid-redeclare".into(), rule: None, class: None, features: features.into_iter().collect() };
        if k < 1 {
            ctx.rep.sample(json!({"mode": "valid-redeclare", "files": case.files}));
        }
        batch.push(case);
        if batch.len() >= 100 {
            ctx.run(&batch);
            batch.clear();
        }
    }
    ctx.run(&batch);
    batch.clear();

    lap(ctx, "valid-redeclare");
    // ---- single-fault mutations -----------------------------------------------------------------
    for k in 0..b.n_mut {
        if stop() {
            break;
        }
        let (doc, mut features) = gen_valid(rng, false);
        let mut items = doc.items.clone();
        let rule = RULES[k % RULES.len()];
        let class = match mutate(rng, &mut items, rule) {
            Some(c) => c,
            None => {
                ctx.rep.count(&format!("mutation-no-place:{rule}"));
                continue;
            }
        };
        let files = render_files(rng, &TsDoc { items }, &mut features);
        ctx.rep.count(&format!("mutation:{rule}"));
        let case = Case { files, mode: "mutation".into(), rule: Some(rule.into()), class: Some(class), features: features.into_iter().collect() };
        if k < 2 {
            ctx.rep.sample(json!({"mode": "mutation", "rule": case.rule, "class": case.class, "files": case.files}));
        }
        batch.push(case);
        if batch.len() >= 100 {
            ctx.run(&batch);
            batch.clear();
        }
    }
    ctx.run(&batch);
    batch.clear();

    lap(ctx, "mutation");
    // ---- several faults at once (K only) --------------------------------------------------------
    for _ in 0..b.n_junk {
        if stop() {
            break;
        }
        let (doc, mut features) = gen_valid(rng, true);
        let mut items = doc.items.clone();
        let n = 2 + rng.below(4);
        for _ in 0..n {
            let rule = RULES[rng.below(RULES.len())];
            if rule == "dup-type-defs" && !rng.chance(1, 6) {
                continue;
            }
            let _ = mutate(rng, &mut items, rule);
        }
        let files = render_files(rng, &TsDoc { items }, &mut features);
        ctx.rep.count("junk:multi-fault");
        batch.push(Case { files, mode: "junk".into(), rule: None, class: None, features: features.into_iter().collect() });
        if batch.len() >= 100 {
            ctx.run(&batch);
            batch.clear();
        }
    }
    ctx.run(&batch);
    batch.clear();

    lap(ctx, "junk");
    // ---- covariance pairs -----------------------------------------------------------------------
    let pairs = pair_cases(rng, b.n_pairs);
    for c in &pairs {
        ctx.rep.count(&format!("feature:{}", c.features[0]));
    }
    for chunk in pairs.chunks(100) {
        if stop() {
            break;
        }
        ctx.run(chunk);
    }

    lap(ctx, "pairs");
    // ---- graph-shaped gadgets: implements graph, directive reference graph, input-object nesting --------
    // (chains / diamonds / DAGs = valid; cycles, lassos, deep omissions, deep literal faults = one fault)
    for k in 0..b.n_graph {
        if stop() {
            break;
        }
        let family = graphx::FAMILIES[k % graphx::FAMILIES.len()];
        let faulty = (k / graphx::FAMILIES.len()) % 3 != 0;
        let g = match graphx::gen_gadget(rng, family, faulty) {
            Some(g) => g,
            None => {
                ctx.rep.count(&format!("graph-no-place:{family}"));
                continue;
            }
        };
        // a small base (the gadget alone next to a root type) or a full generated schema
        let (mut items, mut features) = if rng.chance(1, 3) {
            (vec![obj("Query", &[], vec![fd("q", Ty::named("Int"))])], BTreeSet::new())
        } else {
            let (doc, f) = gen_valid(rng, !faulty);
            (doc.items, f)
        };
        place_gadget(rng, &mut items, &g);
        for f in &g.features {
            features.insert(f.clone());
        }
        let doc = TsDoc { items };
        let files = if rng.chance(1, 3) { render_files_ext_elsewhere(rng, &doc, &mut features) } else { render_files(rng, &doc, &mut features) };
        for f in &g.features {
            ctx.rep.count(&format!("feature:{f}"));
        }
        ctx.rep.count(&format!("graph:{family}:{}", if faulty { "fault" } else { "valid" }));
        let case = match g.rule {
            Some(rule) => Case { files, mode: "mutation".into(), rule: Some(rule.into()), class: Some(g.class.clone()), features: features.into_iter().collect() },
            None => Case { files, mode: "valid".into(), rule: None, class: None, features: features.into_iter().collect() },
        };
        if k < 6 {
            ctx.rep.sample(json!({"mode": case.mode, "rule": case.rule, "class": case.class, "files": case.files}));
        }
        batch.push(case);
        if batch.len() >= 100 {
            ctx.run(&batch);
            batch.clear();
        }
    }
    ctx.run(&batch);
    batch.clear();

    lap(ctx, "graph");
    // ---- interface implementations: IsValidImplementation 2.c / 2.d over the shape of both sides (c05/implx.rs) --------
    // half valid (must get no diagnostic), half one fault of rule `iface-field-args`; gadget next to a root type / inside a
    // full generated schema, or an operator applied to an implementing field the generated schema already has
    for k in 0..b.n_impl {
        if stop() {
            break;
        }
        let faulty = k % 2 == 1;
        let mut features: BTreeSet<String> = BTreeSet::new();
        let mut items: Vec<TsItem>;
        let class: String;
        let mode = rng.below(4);
        let mut done = None;
        if mode == 0 {
            let (doc, f) = gen_valid(rng, !faulty);
            let mut its = doc.items;
            if let Some((c, fs)) = implx::mutate_existing_pair(rng, &mut its, faulty) {
                features = f;
                features.extend(fs);
                done = Some((its, c));
            }
        }
        match done {
            Some((its, c)) => {
                items = its;
                class = c;
            }
            None => {
                let g = implx::impl_gadget(rng, faulty);
                if mode == 1 || mode == 2 {
                    items = vec![obj("Query", &[], vec![fd("q", Ty::named("Int"))])];
                } else {
                    let (doc, f) = gen_valid(rng, !faulty);
                    items = doc.items;
                    features = f;
                }
                place_gadget(rng, &mut items, &g);
                features.extend(g.features.iter().cloned());
                class = g.class;
            }
        }
        for f in features.iter().filter(|f| f.starts_with("impl:")) {
            ctx.rep.count(&format!("feature:{f}"));
        }
        {
            let get = |p: &str| features.iter().find(|f| f.starts_with(p)).map(|f| f[p.len()..].to_string()).unwrap_or_default();
            ctx.rep.count(&format!("implementation-case:{}:{}:{}", if features.contains("impl:object") { "object" } else { "interface" }, get("impl:shape:"), get("impl:op:")));
        }
        let doc = TsDoc { items };
        let files = if rng.chance(1, 3) { render_files_ext_elsewhere(rng, &doc, &mut features) } else { render_files(rng, &doc, &mut features) };
        ctx.rep.count(&format!("implementation:{}", if faulty { "fault" } else { "valid" }));
        let case = if faulty {
            Case { files, mode: "mutation".into(), rule: Some("iface-field-args".into()), class: Some(class), features: features.into_iter().collect() }
        } else {
            Case { files, mode: "valid".into(), rule: None, class: None, features: features.into_iter().collect() }
        };
        if k < 2 {
            ctx.rep.sample(json!({"mode": case.mode, "rule": case.rule, "class": case.class, "files": case.files}));
        }
        batch.push(case);
        if batch.len() >= 100 {
            ctx.run(&batch);
            batch.clear();
        }
    }
    ctx.run(&batch);
    batch.clear();
    lap(ctx, "implementation");
}

fn main() {
    let args = Args::parse();
    quiet_panics();
    let mut rep = Report::new(
        "C05",
        "type-system documents as 1-3 SDL files: valid-by-construction schemas (all seven kinds, extensions, interface chains/diamonds, directive definitions with arguments, applications at every location), single-fault mutations labelled by rule, graph-shaped gadgets, interface implementations over the shape of both argument lists (none / one / several x add / drop / rename / retype / re-null / re-default); non-trivial = spec-confirmed case, distinct by (rule, position class) for mutations and by feature set for valid schemas",
    );
    let mut drv = Driver::spawn(&args.driver);
    let mut ctx = Ctx { rep: &mut rep, drv: &mut drv, pending: vec![] };

    if let Some(path) = &args.replay {
        let v: Value = serde_json::from_str(&std::fs::read_to_string(path).expect("replay file")).expect("replay json");
        let case = Case::from_json(&v["case"]);
        let fails = ctx.eval(std::slice::from_ref(&case), true).pop().unwrap_or_default();
        for f in fails {
            ctx.rep.fail(f.stream, &f.signature, &f.what, case.to_json());
        }
        rep.write(&args);
        return;
    }

    ctx.run(&corpus());

    let mut rng = Rng::new(args.seed);
    // `--search 1` is the second run `./check` makes within the QUICK tier when P/K is broken and the first run found no
    // failing input (it passes `--tier thorough`). It must not take the thorough tier's minutes: it makes quick-sized
    // passes over all streams (fresh random cases each pass) until the clock says stop (`--search-seconds N`, default 30).
    let search = args.extra.get("search").map_or(false, |s| s == "1");
    if search {
        let cap = std::time::Duration::from_secs(args.extra.get("search-seconds").and_then(|s| s.parse().ok()).unwrap_or(30));
        let started = std::time::Instant::now();
        let stop = || started.elapsed() > cap;
        let b = Budgets { n_valid: 300, n_redeclare: 120, n_mut: 900, n_junk: 150, n_pairs: 300, n_graph: 480, n_impl: 360 };
        let mut passes = 0;
        while !stop() && passes < 40 {
            streams(&mut ctx, &mut rng, &b, &stop);
            passes += 1;
        }
        ctx.rep.count("search-cut-by-clock");
        ctx.rep.notes.push(format!("search run: {passes} pass(es) over the streams, stopped by the clock ({} s cap)", cap.as_secs()));
    } else {
        let b = Budgets {
            n_valid: args.budget(300, 4000),
            n_redeclare: args.budget(120, 1500),
            n_mut: args.budget(900, 12000),
            n_junk: args.budget(150, 2000),
            n_pairs: args.budget(300, 3000),
            n_graph: args.budget(480, 6000),
            n_impl: args.budget(360, 5000),
        };
        streams(&mut ctx, &mut rng, &b, &|| false);
    }

    ctx.flush();
    rep.write(&args);
}
