//! C04 — `check` raises no diagnostic on spec-valid operation documents (see opcheck/mod.rs).
#[path = "opcheck/mod.rs"]
mod opcheck;
fn main() {
    opcheck::run("C04");
}
