//! C11, CLI leg — the property's third mechanism: "files concatenated before resolution, built-ins appended"
//! (cli/src/main.rs resolve_loaded_schema / extend_loaded_schema, check.rs resolve_schema).
//!
//! A case is the same thing as in the library streams (≤ 3 SDL file texts + optionally a second layout of the same
//! items), but it is written to a scratch project and run through the REAL built `nitrogql-cli generate`:
//!   * exit 0  → the MERGED schema is read back from `serverGraphqlOutput` (template literal un-escaped, parsed with
//!               the real parser, converted with `gm::from_real_tsdoc_ext`);
//!   * exit ≠ 0 → the diagnostics are classified: `Duplicated declaration of <elem> '<name>'` (resolver, duplicate),
//!               `<elem> is extended, but there is no original declaration of <elem>` (resolver, orphan), anything else
//!               (a later stage: the schema check; resolution itself succeeded), crash.
//! Oracle (O, judged by the property's wording, not by the library's answer): the Lean reference merge `ext.ref` of
//! (user files in load order ++ the built-in definitions, written here as SDL independently of crates/builtins) —
//! the built-ins count as ordinary definitions:
//!   reference merges  ⇒ the CLI reports no resolver error, and (if the schema is observable) the emitted schema is
//!                        the reference merge as a multiset modulo positions (minus the nitrogql-only directive that
//!                        `remove_builtins` strips), no `extend` item in it;
//!   reference fails   ⇒ the CLI fails with the resolver error of a justified variant, located at an offending item
//!                        (a duplicated definition / an orphan extension);
//!   both layouts of the same items give the same outcome.
use super::*;
use nvh::cli::{fresh_dir, run_cli};
use nvh::gen::BUILTIN_SCALARS;
use std::time::Duration;

/// the definitions every SDL schema has besides its files (GraphQL spec §3.5 built-in scalars, §3.13 built-in
/// directives) and the nitrogql-only directive
pub const BUILTINS_SDL: &str = "scalar Int\nscalar Float\nscalar String\nscalar Boolean\nscalar ID\n\
directive @skip(if: Boolean!) on FIELD | FRAGMENT_SPREAD | INLINE_FRAGMENT\n\
directive @include(if: Boolean!) on FIELD | FRAGMENT_SPREAD | INLINE_FRAGMENT\n\
directive @deprecated(reason: String = \"No longer supported\") on FIELD_DEFINITION | ARGUMENT_DEFINITION | INPUT_FIELD_DEFINITION | ENUM_VALUE\n\
directive @specifiedBy(url: String!) on SCALAR\n\
directive @nitrogql_ts_type(resolverInput: String!, resolverOutput: String!, operationInput: String!, operationOutput: String!) on SCALAR\n";

const CONFIG_YAML: &str = "schema: \"schema/*.graphql\"\nextensions:\n  nitrogql:\n    generate:\n      schemaOutput: \"out/schema.d.ts\"\n      serverGraphqlOutput: \"out/server.js\"\n      type:\n        scalarTypes:\n          Date: string\n          JSON: unknown\n          MarkArg: number\n";

/// (file index, line, column) as the CLI prints them (1-based line / column)
type Loc = (usize, usize, usize);

#[derive(Clone, Debug)]
pub enum CliOut {
    /// exit 0: the emitted schema's items, positions stripped
    Ok(Vec<Sexp>),
    /// the check succeeded but no schema could be read back (generate failed for another reason)
    OkUnobserved(String),
    Dup { elem: String, name: String, loc: Option<Loc> },
    NoOrig { elem: String, loc: Option<Loc> },
    /// failed with diagnostics of a later stage only
    Other(String),
    Crash(String),
    /// exit 0 (resolution and check succeeded) but the emitted module cannot be read back: the merge is not observable.
    /// Not a C11 failure by itself — whether printed SDL parses back is C16's subject (known open findings there:
    /// a double quote / line feed inside a description or string)
    Unreadable(String),
}

impl CliOut {
    fn tag(&self) -> &'static str {
        match self {
            CliOut::Ok(_) => "ok",
            CliOut::OkUnobserved(_) => "ok-unobserved",
            CliOut::Dup { .. } => "DuplicateOriginal",
            CliOut::NoOrig { .. } => "NoOriginal",
            CliOut::Other(_) => "later-stage-error",
            CliOut::Crash(_) => "crash",
            CliOut::Unreadable(_) => "unreadable-output",
        }
    }
    fn resolver_err(&self) -> bool {
        matches!(self, CliOut::Dup { .. } | CliOut::NoOrig { .. })
    }
    fn show(&self) -> String {
        match self {
            CliOut::Ok(items) => format!("ok ({} definitions)", items.len()),
            CliOut::Dup { elem, name, loc } => format!("Duplicated declaration of {elem} '{name}' at {loc:?}"),
            CliOut::NoOrig { elem, loc } => format!("{elem} is extended, but there is no original declaration of {elem} at {loc:?}"),
            CliOut::OkUnobserved(m) | CliOut::Other(m) | CliOut::Crash(m) | CliOut::Unreadable(m) => format!("{}: {}", self.tag(), trunc(m, 300)),
        }
    }
}

/// value of a template literal body written by JsStringWriter (`\\`, `` \` ``, `\$`, `\{` escapes)
fn cook(body: &str) -> String {
    let mut out = String::with_capacity(body.len());
    let mut it = body.chars();
    while let Some(c) = it.next() {
        if c == '\\' {
            match it.next() {
                Some('n') => out.push('\n'),
                Some('t') => out.push('\t'),
                Some('r') => out.push('\r'),
                Some(x) => out.push(x),
                None => {}
            }
        } else {
            out.push(c);
        }
    }
    out
}

/// `…/sNN.graphql:L:C` → (NN, L, C)
fn parse_loc(line: &str) -> Option<Loc> {
    let line = line.trim();
    if !line.starts_with('/') {
        return None;
    }
    let at = line.rfind(".graphql:")?;
    let stem = &line[..at];
    let name = &stem[stem.rfind('/').map_or(0, |i| i + 1)..];
    let file: usize = name.strip_prefix('s')?.parse().ok()?;
    let mut nums = line[at + ".graphql:".len()..].split(':');
    let l: usize = nums.next()?.parse().ok()?;
    let c: usize = nums.next()?.parse().ok()?;
    Some((file, l, c))
}

fn classify_output(raw: Raw) -> CliOut {
    let Raw { code, timed_out, text, module } = raw;
    let text = text.as_str();
    if timed_out {
        return CliOut::Crash("timed out".into());
    }
    if code == Some(0) {
        let Some(module) = module else { return CliOut::Unreadable("exit 0 but no serverGraphqlOutput file".into()) };
        let (Some(a), Some(b)) = (module.find('`'), module.rfind('`')) else { return CliOut::Unreadable("no template literal".into()) };
        if b <= a {
            return CliOut::Unreadable("no template literal".into());
        }
        let sdl = cook(&module[a + 1..b]);
        let r = catch(AssertUnwindSafe(|| {
            set_current_file_of_pos(0);
            parse_type_system_document(&sdl).map(|d| gm::from_real_tsdoc_ext(&d)).map_err(|e| format!("{e:?}"))
        }));
        return match r {
            Ok(Ok(doc)) => CliOut::Ok(doc.items.iter().map(|i| gm::strip_pos(&i.to_sexp())).collect()),
            Ok(Err(e)) => CliOut::Unreadable(format!("emitted schema does not parse: {e}")),
            Err(p) => CliOut::Unreadable(format!("panic while reading the emitted schema: {p}")),
        };
    }
    let lines: Vec<&str> = text.lines().collect();
    // primary location: the first `path:line:col` line after the "Found N error(s) in schema" header (the related
    // locations follow it, indented)
    let loc = lines.iter().skip_while(|l| !l.starts_with("Found ")).skip(1).find_map(|l| parse_loc(l));
    // the message line is indented to the column of the position
    for l in lines.iter().map(|l| l.trim_start()) {
        if let Some(rest) = l.strip_prefix("Duplicated declaration of ") {
            if let Some(q) = rest.find(" '") {
                let name = rest[q + 2..].trim_end().trim_end_matches('\'').to_string();
                return CliOut::Dup { elem: rest[..q].to_string(), name, loc };
            }
        }
        if let Some(at) = l.find(" is extended, but there is no original declaration of ") {
            let elem = &l[..at];
            if l[at..].trim_end().ends_with(elem) && ["schema", "scalar", "type", "interface", "union", "enum", "input object"].contains(&elem) {
                return CliOut::NoOrig { elem: elem.to_string(), loc };
            }
        }
    }
    let brief: String = lines.iter().filter(|l| !l.trim().is_empty()).take(8).cloned().collect::<Vec<_>>().join(" | ");
    match code {
        Some(1) if text.contains("'check' finished") => CliOut::OkUnobserved(brief),
        Some(1) if text.contains("Found ") => CliOut::Other(brief),
        _ => CliOut::Crash(format!("exit {code:?}: {brief}")),
    }
}

/// what one CLI process left behind (collected on a worker thread, classified on the main thread)
pub struct Raw {
    code: Option<i32>,
    timed_out: bool,
    text: String,
    module: Option<String>,
}

pub fn run_raw(cli: &str, scratch: &str, n: u64, files: &[String]) -> Raw {
    let dir = fresh_dir(scratch, &format!("c11-cli-{n}"));
    std::fs::create_dir_all(dir.join("schema")).expect("mkdir schema");
    for (i, t) in files.iter().enumerate() {
        std::fs::write(dir.join("schema").join(format!("s{i:02}.graphql")), t).expect("write schema file");
    }
    std::fs::write(dir.join("graphql.config.yaml"), CONFIG_YAML).expect("write config");
    let run = run_cli(cli, &dir, &["generate"], &[], Duration::from_secs(30));
    let module = std::fs::read_to_string(dir.join("out/server.js")).ok();
    let _ = std::fs::remove_dir_all(&dir);
    Raw { code: run.code, timed_out: run.timed_out, text: format!("{}\n{}", run.stdout, run.stderr), module }
}

/// run the projects on a few worker threads (the CLI processes are independent); results in input order
pub fn run_many(cli: &str, scratch: &str, first_n: u64, projects: &[&Vec<String>]) -> Vec<Raw> {
    let next = std::sync::atomic::AtomicUsize::new(0);
    let slots: Vec<std::sync::Mutex<Option<Raw>>> = projects.iter().map(|_| std::sync::Mutex::new(None)).collect();
    let workers = projects.len().clamp(1, 4);
    std::thread::scope(|sc| {
        for _ in 0..workers {
            sc.spawn(|| loop {
                let i = next.fetch_add(1, std::sync::atomic::Ordering::SeqCst);
                if i >= projects.len() {
                    break;
                }
                let raw = run_raw(cli, scratch, first_n + i as u64, projects[i]);
                *slots[i].lock().unwrap() = Some(raw);
            });
        }
    });
    slots.into_iter().map(|m| m.into_inner().unwrap().expect("worker result")).collect()
}

/// what the resolver is given by the CLI, per the property: the files' items in load order, then the built-ins
pub fn reference_input(files: &[String]) -> Result<TsDoc, String> {
    let r = catch(AssertUnwindSafe(|| {
        let mut items = vec![];
        for (i, t) in files.iter().chain(std::iter::once(&BUILTINS_SDL.to_string())).enumerate() {
            set_current_file_of_pos(i);
            match parse_type_system_document(t) {
                Ok(d) => items.extend(gm::from_real_tsdoc_ext(&d).items),
                Err(e) => return Err(format!("file {i}: {e:?}")),
            }
        }
        Ok(TsDoc { items })
    }));
    set_current_file_of_pos(0);
    match r {
        Ok(x) => x,
        Err(p) => Err(format!("panic in the parser: {p}")),
    }
}

fn is_builtin_scalar(n: &str) -> bool {
    BUILTIN_SCALARS.contains(&n)
}

fn cli_features(input: &TsDoc, nfiles: usize) -> (BTreeSet<String>, bool) {
    let mut tags = BTreeSet::new();
    let mut nontrivial = false;
    for it in &input.items {
        match it {
            TsItem::TypeExt(t) => {
                nontrivial = true;
                if is_builtin_scalar(&t.name) {
                    tags.insert(if t.kind == TypeKind::Scalar { "cli:feature:extends-built-in-scalar" } else { "cli:feature:other-kind-extension-named-like-built-in" }.to_string());
                }
            }
            TsItem::SchemaExt(_) => nontrivial = true,
            TsItem::TypeDef(t) if t.pos.file < nfiles && is_builtin_scalar(&t.name) => {
                tags.insert(if t.kind == TypeKind::Scalar { "cli:feature:redefines-built-in-scalar" } else { "cli:feature:other-kind-definition-named-like-built-in" }.to_string());
            }
            TsItem::DirectiveDef(d) if d.pos.file < nfiles && ["skip", "include", "deprecated", "specifiedBy", "nitrogql_ts_type"].contains(&d.name.as_str()) => {
                tags.insert("cli:feature:redefines-built-in-directive".to_string());
            }
            _ => {}
        }
    }
    let f = features_of(input);
    for t in &f.tags {
        tags.insert(format!("cli:{t}"));
    }
    (tags, nontrivial || f.nontrivial)
}

fn printer_safe(s: &Sexp) -> bool {
    match s {
        Sexp::Str(t) => !t.contains(['"', '\\', '\n', '\r']),
        Sexp::List(v) => v.iter().all(printer_safe),
        Sexp::Atom(_) => true,
    }
}

/// judge one layout: the CLI's outcome against the reference answer for (files ++ built-ins)
fn judge_layout(files: &[String], input: &TsDoc, out: &CliOut, spec: &Sexp, with_alt: bool, fails: &mut Vec<Fail>) {
    let mut fail = |stream: &'static str, sig: String, what: String| fails.push(Fail { stream, sig, what, with_alt });
    let feats = features_of(input);
    let spec_items = ok_items(spec);
    let atoms: Vec<&str> = if spec.head() == Some("fail") { spec.args().iter().filter_map(|a| a.as_atom()).collect() } else { vec![] };
    if spec_items.is_none() && atoms.is_empty() {
        fail("K", "driver-bad-request".into(), format!("ext.ref answered {}", trunc(&spec.to_line(), 300)));
        return;
    }
    match out {
        CliOut::Crash(m) => {
            fail("O", "cli:crash".into(), format!("the CLI crashed or timed out on the project: {}", trunc(m, 400)));
            return;
        }
        _ => {}
    }
    if let Some(si) = spec_items {
        // ---- the reference merges the input (built-ins counted as definitions)
        match out {
            CliOut::Dup { .. } | CliOut::NoOrig { .. } => fail(
                "O",
                format!("cli:rejects-valid:{}", out.tag()),
                format!("no name is defined twice within a kind and every extension has a same-kind definition (the built-ins included), but the CLI answers: {}", out.show()),
            ),
            // a string with a double quote, backslash or line break is not printed faithfully (open C16 findings): the
            // emitted text then parses to other tokens, which says nothing about the merge
            CliOut::Ok(_) if !printer_safe(&input.to_sexp()) => {}
            CliOut::Ok(real) => {
                if real.iter().any(|i| matches!(i.head(), Some("typeext") | Some("schemaext"))) {
                    fail("O", "cli:extend-survives".into(), "an `extend` item is in the emitted schema".into());
                }
                // remove_builtins drops the nitrogql-only directive definition
                let expected: Vec<Sexp> = si.iter().map(gm::strip_pos).filter(|i| !(i.head() == Some("dirdef") && sexp_key(i).1 == "nitrogql_ts_type")).collect();
                if sorted_lines(real) != sorted_lines(&expected) {
                    let sig = format!("cli:{}", classify_items(real, &expected));
                    let (mut r, mut e) = (sorted_lines(real), sorted_lines(&expected));
                    r.retain(|x| !sorted_lines(&expected).contains(x));
                    e.retain(|x| !sorted_lines(real).contains(x));
                    fail(
                        "O",
                        sig,
                        format!("schema emitted by the CLI ≠ reference merge of (files ++ built-ins), as multisets modulo positions: only in the CLI's [{}] only in the reference [{}]", trunc(&r.join(" "), 600), trunc(&e.join(" "), 600)),
                    );
                }
            }
            _ => {}
        }
    } else {
        // ---- the reference rejects the input
        let (dup, orphan) = (atoms.contains(&"dup-original"), atoms.contains(&"orphan"));
        match out {
            CliOut::Ok(_) | CliOut::OkUnobserved(_) | CliOut::Unreadable(_) | CliOut::Other(_) => {
                let sig = if dup {
                    format!("cli:accepts-dup-original:{}", feats.dup_kind.clone().unwrap_or_else(|| "?".into()))
                } else {
                    format!("cli:accepts-orphan:{}", feats.orphan_kind.clone().unwrap_or_else(|| "?".into()))
                };
                fail("O", sig, format!("the reference rejects (files ++ built-ins) ({}) but the CLI reports no such error: {}", spec.to_line(), out.show()));
            }
            CliOut::Dup { .. } if !dup => fail("O", "cli:err-unjustified:DuplicateOriginal".into(), format!("CLI: {} but the reference finds only {}", out.show(), spec.to_line())),
            CliOut::NoOrig { .. } if !orphan => fail("O", "cli:err-unjustified:NoOriginal".into(), format!("CLI: {} but the reference finds only {}", out.show(), spec.to_line())),
            CliOut::Dup { loc, .. } | CliOut::NoOrig { loc, .. } => {
                // the diagnostic is at an offending item
                let is_dup = matches!(out, CliOut::Dup { .. });
                let mut offending: Vec<Loc> = vec![];
                for info in key_table(input).values() {
                    if is_dup && info.defs.len() >= 2 {
                        offending.extend(info.defs.iter().map(|(_, p)| (p.file, p.line + 1, p.col + 1)));
                    }
                    if !is_dup && info.defs.is_empty() {
                        offending.extend(info.exts.iter().map(|(_, p)| (p.file, p.line + 1, p.col + 1)));
                    }
                }
                let user_offending: Vec<&Loc> = offending.iter().filter(|l| l.0 < files.len()).collect();
                let ok = match loc {
                    Some(l) => user_offending.contains(&l),
                    None => user_offending.is_empty(),
                };
                if !ok {
                    fail("O", "cli:diag-pos".into(), format!("CLI: {} — not the position of an offending item (offending: {:?})", out.show(), user_offending));
                }
            }
            _ => {}
        }
    }
}

pub struct CliRunRec {
    input: Result<TsDoc, String>,
    out: CliOut,
}

impl Ctx {
    fn cli_path(&self) -> Option<String> {
        self.cli.clone().filter(|c| !c.is_empty() && std::path::Path::new(c).exists())
    }

    /// run every project (real CLI, in parallel) and parse its reference input
    fn cli_run_all(&mut self, cli: &str, projects: &[&Vec<String>]) -> Vec<CliRunRec> {
        let t0 = std::time::Instant::now();
        let first = self.cli_seq + 1;
        self.cli_seq += projects.len() as u64;
        let raws = run_many(cli, &self.scratch, first, projects);
        let t1 = std::time::Instant::now();
        let recs = raws.into_iter().zip(projects.iter()).map(|(raw, files)| CliRunRec { input: reference_input(files), out: classify_output(raw) }).collect();
        self.cli_ms.0 += t1.elapsed().as_millis();
        self.cli_ms.1 += (t1 - t0).as_millis();
        recs
    }

    fn cli_specs(&mut self, runs: &[&CliRunRec]) -> Vec<Option<Sexp>> {
        let Some(drv) = self.drv.as_mut() else { return runs.iter().map(|_| None).collect() };
        let reqs: Vec<Sexp> = runs.iter().filter_map(|r| r.input.as_ref().ok()).map(|i| Sexp::call("ext.ref", vec![i.to_sexp()])).collect();
        let mut ans = drv.batch(&reqs).into_iter();
        runs.iter().map(|r| if r.input.is_ok() { ans.next() } else { None }).collect()
    }

    fn cli_judge(&mut self, mat: &Mat, main: &CliRunRec, alt: Option<&CliRunRec>, spec_main: Option<&Sexp>, spec_alt: Option<&Sexp>, stats: bool) -> Vec<Fail> {
        let mut fails = vec![];
        for (files, rec, spec, is_alt) in [(Some(&mat.files), Some(main), spec_main, false), (mat.alt.as_ref(), alt, spec_alt, true)] {
            let (Some(files), Some(rec)) = (files, rec) else { continue };
            let input = match &rec.input {
                Ok(i) => i,
                Err(m) => {
                    fails.push(Fail { stream: "K", sig: "harness-parse-error".into(), what: format!("generated text does not parse: {m}"), with_alt: is_alt });
                    continue;
                }
            };
            if stats {
                self.rep.evaluations += 1;
                self.rep.count("cli:runs");
                self.rep.count(&format!("cli:outcome:{}", rec.out.tag()));
                self.rep.count(&format!("cli:files:{}", files.len()));
                if matches!(rec.out, CliOut::Ok(_)) {
                    self.rep.count(if printer_safe(&input.to_sexp()) { "cli:checked:emitted-schema-vs-reference-merge" } else { "cli:emitted-schema-not-compared(strings the printer does not round-trip)" });
                }
                let (tags, nontrivial) = cli_features(input, files.len());
                for t in &tags {
                    self.rep.count(t);
                }
                if nontrivial {
                    self.rep.nontrivial(&format!("cli\n{}", files.join(FILE_SEP)));
                }
                if let CliOut::Other(m) | CliOut::OkUnobserved(m) | CliOut::Unreadable(m) = &rec.out {
                    if self.cli_later_notes < 3 {
                        self.cli_later_notes += 1;
                        self.rep.notes.push(format!("cli leg: schema not observable ({}): {}", rec.out.tag(), trunc(m, 240)));
                    }
                }
            }
            if let Some(spec) = spec {
                if stats {
                    self.rep.o_cases += 1;
                }
                judge_layout(files, input, &rec.out, spec, is_alt, &mut fails);
            }
        }
        // placement independence: both layouts hold the same items (same-key extensions in the same relative order)
        if let Some(alt) = alt {
            if stats {
                self.rep.o_cases += 1;
                self.rep.count("cli:checked:permuted-layout");
            }
            let what = |a: &CliOut, b: &CliOut| format!("one layout gives [{}] and a permuted layout of the same items gives [{}]", a.show(), b.show());
            match (&main.out, &alt.out) {
                (CliOut::Ok(a), CliOut::Ok(b)) => {
                    if sorted_lines(a) != sorted_lines(b) {
                        fails.push(Fail { stream: "O", sig: "cli:perm-dependent".into(), what: "two layouts of the same items give different emitted schemas (modulo positions and order)".into(), with_alt: true });
                    }
                }
                (a, b) if a.resolver_err() != b.resolver_err() && !matches!(a, CliOut::Crash(_)) && !matches!(b, CliOut::Crash(_)) => {
                    fails.push(Fail { stream: "O", sig: "cli:perm-dependent".into(), what: what(a, b), with_alt: true });
                }
                _ => {}
            }
        }
        fails
    }

    /// full evaluation of one materialised CLI case without statistics (shrinking, replay of the shrunk case)
    pub fn cli_eval_one(&mut self, mat: &Mat) -> Vec<Fail> {
        let Some(cli) = self.cli_path() else { return vec![] };
        let projects: Vec<&Vec<String>> = std::iter::once(&mat.files).chain(mat.alt.iter()).collect();
        let mut it = self.cli_run_all(&cli, &projects).into_iter();
        let main = it.next().unwrap();
        let alt = it.next();
        let mut recs = vec![&main];
        if let Some(a) = &alt {
            recs.push(a);
        }
        let specs = self.cli_specs(&recs);
        self.cli_judge(mat, &main, alt.as_ref(), specs[0].as_ref(), specs.get(1).and_then(|s| s.as_ref()), false)
    }

    pub fn process_cli(&mut self, cases: Vec<Case>) {
        let Some(cli) = self.cli_path() else {
            self.rep.count_n("cli:binary-missing(skipped)", cases.len() as u64);
            if !self.rep.notes.iter().any(|n| n.starts_with("cli leg skipped")) {
                self.rep.notes.push(format!("cli leg skipped: no nitrogql-cli binary at {:?}", self.cli));
            }
            return;
        };
        for chunk in cases.chunks(200) {
            let projects: Vec<&Vec<String>> = chunk.iter().flat_map(|c| std::iter::once(&c.mat.files).chain(c.mat.alt.iter())).collect();
            let mut it = self.cli_run_all(&cli, &projects).into_iter();
            let runs: Vec<(CliRunRec, Option<CliRunRec>)> = chunk
                .iter()
                .map(|c| {
                    let main = it.next().unwrap();
                    let alt = if c.mat.alt.is_some() { it.next() } else { None };
                    (main, alt)
                })
                .collect();
            let flat: Vec<&CliRunRec> = runs.iter().flat_map(|(m, a)| std::iter::once(m).chain(a.iter())).collect();
            let mut specs = self.cli_specs(&flat).into_iter();
            for (case, (main, alt)) in chunk.iter().zip(runs.iter()) {
                let spec_main = specs.next().flatten();
                let spec_alt = if alt.is_some() { specs.next().flatten() } else { None };
                self.rep.count(&format!("origin:{}", case.origin));
                self.rep.count("cli:projects");
                self.rep.count(&format!("cli:{}:{}", case.origin, main.out.tag()));
                let fails = self.cli_judge(&case.mat, main, alt.as_ref(), spec_main.as_ref(), spec_alt.as_ref(), true);
                let seen = self.samples_by_origin.entry(case.origin).or_insert(0);
                if *seen < 1 {
                    *seen += 1;
                    self.rep.sample(json!({"origin": case.origin, "cli": true, "files": case.mat.files, "outcome": main.out.tag(), "answer": trunc(&main.out.show(), 400)}));
                }
                for f in fails {
                    let known = self.rep.failures.iter().any(|x| x.stream == f.stream && x.signature == f.sig);
                    let mut mat = case.mat.clone();
                    let mut what = f.what.clone();
                    if !known {
                        if let Some(abs) = &case.abs {
                            let small = self.shrink(abs, f.stream, &f.sig, true);
                            let m2 = small.materialize();
                            if let Some(f2) = self.cli_eval_one(&m2).into_iter().find(|x| x.stream == f.stream && x.sig == f.sig) {
                                mat = m2;
                                what = f2.what;
                            }
                        }
                    }
                    let mut cj = mat.to_json(f.with_alt);
                    cj["cli"] = json!(true);
                    self.rep.fail(f.stream, &f.sig, &what, cj);
                }
            }
        }
    }
}

// ---------------------------------------------------------------------------------------------
// generators

const ALL_TS_LOCATIONS: [&str; 7] = ["SCHEMA", "SCALAR", "OBJECT", "INTERFACE", "UNION", "ENUM", "INPUT_OBJECT"];

fn mark(n: usize) -> Dir {
    Dir::new("mark", vec![Arg::new("n", Val::Int(n.to_string(), P::default()))])
}

/// generator C1: a VALID generated schema (so that `generate` emits the merged schema), components split into
/// extensions, plus directive-carrying extensions of user definitions of every kind, of the schema definition and of
/// the BUILT-IN scalars (whose definitions only the CLI supplies); optionally ONE injected fault (duplicate of a user
/// or built-in definition, orphan extension by name or by kind — also against a built-in's name). Items shuffled
/// over ≤ 3 files; a second layout of the same items.
pub fn cli_valid(rng: &mut Rng, rep: &mut Report) -> Abs {
    let cfg = GenCfg { descriptions: rng.coin(), directives: !rng.chance(1, 4), explicit_schema: rng.coin(), hostile_text: false, ..GenCfg::default() };
    let schema = gen_schema(rng, &cfg);
    let mut doc = split_into_extensions(rng, &schema);
    if rng.coin() {
        let again = SchemaModel { doc, ..schema.clone() };
        doc = split_into_extensions(rng, &again);
    }
    let mut items = doc.items;
    let mut ctr = 0usize;
    let has_mark = rng.chance(4, 5);
    if has_mark {
        items.push(TsItem::DirectiveDef(DirectiveDef {
            desc: None,
            name: "mark".into(),
            name_pos: P::default(),
            args: vec![InputValueDef { desc: None, name: "n".into(), pos: P::default(), ty: Ty::named("MarkArg"), default: None, dirs: vec![] }],
            repeatable: true,
            locations: ALL_TS_LOCATIONS.iter().map(|s| s.to_string()).collect(),
            pos: P::default(),
        }));
        // directive-only extensions of user definitions (every kind) and of the schema definition
        let defs: Vec<TsItem> = items.iter().filter(|i| matches!(i, TsItem::TypeDef(_) | TsItem::SchemaDef(_))).cloned().collect();
        // the argument's type is a scalar of its own that never carries a directive: a directive applied to the type
        // of one of its own arguments (`extend scalar Int @mark(n: 1)` with `n: Int`) is rejected as recursing
        items.push(TsItem::TypeDef(TypeDef::new(TypeKind::Scalar, "MarkArg")));
        for d in defs {
            if !rng.chance(1, 4) {
                continue;
            }
            for _ in 0..1 + rng.below(2) {
                ctr += 1;
                match &d {
                    TsItem::TypeDef(t) => {
                        let mut e = TypeDef::new(t.kind, &t.name);
                        e.dirs = vec![mark(ctr)];
                        items.push(TsItem::TypeExt(e));
                    }
                    _ => items.push(TsItem::SchemaExt(SchemaDef { dirs: vec![mark(ctr)], ..SchemaDef::default() })),
                }
            }
        }
    }
    // root operation types moved into `extend schema { … }`
    let mut moved = None;
    for it in items.iter_mut() {
        if let TsItem::SchemaDef(s) = it {
            if s.roots.len() >= 2 && rng.coin() {
                let k = 1 + rng.below(s.roots.len() - 1);
                moved = Some(s.roots.split_off(k));
            }
        }
    }
    if let Some(roots) = moved {
        items.push(TsItem::SchemaExt(SchemaDef { roots, ..SchemaDef::default() }));
    }
    // extensions of built-in scalars
    if rng.chance(3, 5) {
        let mut names: Vec<&str> = BUILTIN_SCALARS.to_vec();
        rng.shuffle(&mut names);
        let n_names = 1 + rng.below(3);
        for name in names.into_iter().take(n_names) {
            // `@specifiedBy(url: String!)` on String itself would recurse
            let mut specified = name == "String";
            for _ in 0..1 + rng.below(2) {
                ctr += 1;
                let dirs = if has_mark && rng.coin() {
                    vec![mark(ctr)]
                } else if !specified {
                    specified = true;
                    vec![Dir::new("specifiedBy", vec![Arg::new("url", Val::Str(format!("https://example.com/{}", name.to_lowercase()), P::default()))])]
                } else if has_mark {
                    vec![mark(ctr)]
                } else {
                    continue;
                };
                let mut e = TypeDef::new(TypeKind::Scalar, name);
                e.dirs = dirs;
                items.push(TsItem::TypeExt(e));
                rep.count("cli:inject:built-in-scalar-extension");
            }
        }
    }
    // ---- one fault
    if rng.chance(1, 3) {
        let user_defs: Vec<TypeDef> = items.iter().filter_map(|i| if let TsItem::TypeDef(t) = i { Some(t.clone()) } else { None }).collect();
        let has_schema = items.iter().any(|i| matches!(i, TsItem::SchemaDef(_)));
        let mut g = TG { rng, ctr: 1000 };
        let kind_idx = |k: TypeKind| KINDS.iter().position(|x| *x == k).unwrap();
        match g.rng.below(6) {
            0 => {
                let name: &str = *g.rng.pick(&BUILTIN_SCALARS);
                let mut t = TypeDef::new(TypeKind::Scalar, name);
                if has_mark && g.rng.coin() {
                    t.dirs = vec![mark(999)];
                }
                items.push(TsItem::TypeDef(t));
                rep.count("cli:inject:dup-of-built-in-scalar");
            }
            1 => {
                if has_schema && g.rng.chance(1, 4) {
                    items.push(TsItem::SchemaDef(SchemaDef { roots: vec![(OpKind::Query, schema.query.clone(), P::default())], ..SchemaDef::default() }));
                    rep.count("cli:inject:dup-schema-definition");
                } else {
                    let t = g.rng.pick(&user_defs).clone();
                    items.push(TsItem::TypeDef(t));
                    rep.count("cli:inject:dup-original");
                }
            }
            2 => {
                let k = g.rng.below(6);
                items.push(TsItem::TypeExt(g.type_item(KINDS[k], "Zz", true)));
                rep.count("cli:inject:orphan");
            }
            3 => {
                let k = 1 + g.rng.below(5); // not scalar
                let name: &str = *g.rng.pick(&BUILTIN_SCALARS);
                items.push(TsItem::TypeExt(g.type_item(KINDS[k], name, true)));
                rep.count("cli:inject:orphan-by-kind-vs-built-in");
            }
            4 => {
                let t = g.rng.pick(&user_defs).clone();
                let k2 = (kind_idx(t.kind) + 1 + g.rng.below(5)) % 6;
                items.push(TsItem::TypeExt(g.type_item(KINDS[k2], &t.name, true)));
                rep.count("cli:inject:orphan-by-kind");
            }
            _ => {
                if has_schema {
                    let k = g.rng.below(6);
                    items.push(TsItem::TypeExt(g.type_item(KINDS[k], "Zz", true)));
                    rep.count("cli:inject:orphan");
                } else {
                    items.push(TsItem::SchemaExt(g.schema_item(true)));
                    rep.count("cli:inject:extend-schema-without-schema");
                }
            }
        }
    }
    let keep = rng.chance(1, 3);
    let (main, alt) = shuffled_layouts(rng, &items, keep, (1, 4));
    Abs { items, main, alt: Some(alt) }
}
