//! C02 — generated result types admit nothing no execution could return.
//! K: as C01 (same model, same driver).
//! O: every abstract value (responses and their single-point mutants: null, key dropped, extra key, foreign atom /
//!    string, other literal, list wrapping, …) that the REAL emitted type admits must be in `RefLocal`.
#[path = "c01/common.rs"]
mod common;

fn main() {
    common::main_for("C02", "oracle.c02");
}
