//! C08 — one multi-file project through every stage, composed the way `crates/cli` (main.rs / check.rs / generate.rs)
//! and the loader (`packages/loader-core` over the `extern "C"` ABI) compose them. Runs inside the watchdog's child
//! process: every stage is announced first, so a hang or an abort is attributed to a stage.
//!
//!  CLI composition: parse_config → schema file (index 0): parse, merge + built-ins, resolve_schema_extensions,
//!   check_type_system_document, ast_to_type_system → every operation file (index 1 + i): parse_operation_document,
//!   resolve_operation_extensions → every file: resolve_operation_imports (resolver = all files by path) → every file:
//!   check_operation_document → (no diagnostics at all) SchemaTypePrinter, ResolverTypePrinter, and per file
//!   print_types_for_operation_document into a SourceWriter with the CLI's file-index mapper + print_source_map_json,
//!   print_js_for_operation_document. Every diagnostic of a failing stage is rendered by print_positioned_error
//!   against the file store (as `run_cli` does), then the CLI path stops like the CLI does.
//!  Loader composition (no check): load_config, then with EVERY file as the root: initiate_task, get_required_files /
//!   load_file rounds (files the project does not have stay missing), emit_js, free_task.
use nitrogql_ast::base::HasPos;
use nitrogql_ast::{set_current_file_of_pos, OperationDocument, TypeSystemOrExtensionDocument};
use nitrogql_checker::{check_operation_document, check_type_system_document, OperationCheckContext};
use nitrogql_config_file::{Config, GenerateMode};
use nitrogql_error::{print_positioned_error, PositionedError};
use nitrogql_parser::{parse_operation_document, parse_type_system_document};
use nitrogql_printer::{
    print_js_for_operation_document, print_types_for_operation_document, OperationJSPrinterOptions, OperationTypePrinterOptions, ResolverTypePrinter,
    ResolverTypePrinterOptions, SchemaTypePrinter, SchemaTypePrinterOptions,
};
use nitrogql_semantics::{
    ast_to_type_system, resolve_operation_extensions, resolve_operation_imports, resolve_schema_extensions, OperationExtension, OperationResolver,
};
use nitrogql_utils::relative_path;
use nvh::catch;
use nvh::real::NITROGQL_BUILTINS_SDL;
use serde_json::{json, Value};
use sourcemap_writer::{print_source_map_json, JustWriter, SourceWriter};
use std::collections::{BTreeSet, HashMap};
use std::panic::AssertUnwindSafe;
use std::path::{Path, PathBuf};

type Store = Vec<(PathBuf, String, ())>;

fn guard<T>(stage: &dyn Fn(&str), name: &str, f: impl FnOnce() -> T) -> Result<T, Value> {
    stage(name);
    catch(AssertUnwindSafe(f)).map_err(|m| json!({"panic": [name, m, super::at_line()]}))
}

/// render diagnostics as `run_cli` does
fn render(stage: &dyn Fn(&str), errs: Vec<PositionedError>, store: &Store) -> Result<usize, Value> {
    let mut n = 0;
    for e in errs {
        n += guard(stage, "print_positioned_error", || if e.has_position() { print_positioned_error(&e, store).len() } else { format!("{}", e.into_inner()).len() })?;
    }
    Ok(n)
}

struct ByPath<'a, 'src> {
    file_by_path: HashMap<&'a Path, (&'a OperationDocument<'src>, &'a OperationExtension<'src>)>,
}
impl<'src> OperationResolver<'src> for ByPath<'_, 'src> {
    fn resolve(&self, path: &Path) -> Option<(&OperationDocument<'src>, &OperationExtension<'src>)> {
        self.file_by_path.get(path).copied()
    }
}

fn files_of(c: &Value) -> Vec<(String, String)> {
    c["files"].as_array().map(|a| a.iter().map(|e| (e[0].as_str().unwrap_or("").to_string(), e[1].as_str().unwrap_or("").to_string())).collect()).unwrap_or_default()
}

fn cli_path(c: &Value, stage: &dyn Fn(&str)) -> Result<Value, Value> {
    let sdl = c["schema"].as_str().unwrap_or("").to_string();
    let files = files_of(c);
    let nb_text = NITROGQL_BUILTINS_SDL.to_string();
    let schema_len = 1usize;
    let mut store: Store = vec![(PathBuf::from("/p/schema.graphql"), sdl.clone(), ())];
    store.extend(files.iter().map(|(p, t)| (PathBuf::from(p), t.clone(), ())));
    let outcome = |o: &str, n: usize| Ok(json!({"outcome": o, "diagnostics": n}));

    let config: Config = match c["config"].as_str() {
        None => Config::default(),
        Some(t) => match guard(stage, "parse_config", || nitrogql_config_file::parse_config(t))? {
            Some(c) => c,
            None => return outcome("config-rejected", 0),
        },
    };
    let root_dir = PathBuf::from("/p");

    // ---- schema
    set_current_file_of_pos(0);
    let doc = match guard(stage, "parse_type_system_document", || parse_type_system_document(&sdl))? {
        Ok(d) => d,
        Err(e) => {
            let n = render(stage, vec![e.into()], &store)?;
            return outcome("schema-syntax-error", n);
        }
    };
    let resolved = guard(stage, "resolve_schema_extensions", || {
        let mut merged = TypeSystemOrExtensionDocument::merge(vec![doc]);
        merged.extend(graphql_builtins::generate_builtins());
        let nb = parse_type_system_document(&nb_text).expect("builtin sdl");
        merged.extend(nb.definitions);
        resolve_schema_extensions(merged)
    })?;
    let resolved = match resolved {
        Ok(r) => r,
        Err(e) => {
            let n = render(stage, vec![e.into()], &store)?;
            return outcome("schema-extension-error", n);
        }
    };
    let errs = guard(stage, "check_type_system_document", || check_type_system_document(&resolved))?;
    if !errs.is_empty() {
        let n = render(stage, errs.into_iter().map(Into::into).collect(), &store)?;
        return outcome("schema-check-errors", n);
    }
    let schema = guard(stage, "ast_to_type_system", || ast_to_type_system(&resolved))?;

    // ---- operation files: parse all, report all parse errors
    let mut parsed = vec![];
    let mut errors: Vec<PositionedError> = vec![];
    for (i, (p, t)) in files.iter().enumerate() {
        let idx = schema_len + i;
        set_current_file_of_pos(idx);
        match guard(stage, "parse_operation_document", || parse_operation_document(t))? {
            Ok(d) => parsed.push((PathBuf::from(p), d, idx)),
            Err(e) => errors.push(e.into()),
        }
    }
    if !errors.is_empty() {
        let n = render(stage, errors, &store)?;
        return outcome("operation-syntax-errors", n);
    }
    // ---- resolve_operations of check.rs
    let mut operations = vec![];
    for (p, d, idx) in parsed {
        match guard(stage, "resolve_operation_extensions", || resolve_operation_extensions(d))? {
            Ok((d, ext)) => operations.push((p, d, ext, idx)),
            Err(e) => errors.push(e.into()),
        }
    }
    if !errors.is_empty() {
        let n = render(stage, errors, &store)?;
        return outcome("operation-extension-errors", n);
    }
    let resolver = ByPath { file_by_path: operations.iter().map(|(p, d, e, _)| (p.as_path(), (d, e))).collect() };
    let mut resolved_ops = vec![];
    for (p, d, e, idx) in operations.iter() {
        match guard(stage, "resolve_operation_imports", || resolve_operation_imports((p, d, e), &resolver))? {
            Ok(doc) => resolved_ops.push((p.clone(), doc, *idx)),
            Err(e) => errors.push(e.into()),
        }
    }
    if !errors.is_empty() {
        let n = render(stage, errors, &store)?;
        return outcome("import-errors", n);
    }
    // ---- check
    let ctx = OperationCheckContext::new(&schema);
    for (_, doc, _) in resolved_ops.iter() {
        let errs = guard(stage, "check_operation_document", || check_operation_document(doc, &ctx))?;
        errors.extend(errs.into_iter().map(Into::into));
    }
    if !errors.is_empty() {
        let n = render(stage, errors, &store)?;
        return outcome("check-errors", n);
    }

    // ---- generate (generate.rs): schema types, resolver types, then the declaration file of every operation file
    let schema_output = config.generate.schema_output.as_ref().map(|o| root_dir.join(o)).unwrap_or_else(|| root_dir.join("out/schema.d.ts"));
    let schema_mapper: Vec<usize> = (0..store.len()).map(|i| if i < schema_len { i } else { usize::MAX }).collect();
    let mut bytes = 0usize;
    // the printers are independent of each other: a panic of one does not hide the others
    let mut panics: Vec<Value> = vec![];
    macro_rules! collect {
        ($r:expr, $default:expr) => {
            match $r {
                Ok(v) => v,
                Err(p) => {
                    panics.push(p["panic"].clone());
                    $default
                }
            }
        };
    }
    bytes += collect!(guard(stage, "SchemaTypePrinter", || {
        let mut writer = SourceWriter::new();
        writer.set_file_index_mapper(schema_mapper.clone());
        let mut printer = SchemaTypePrinter::new(SchemaTypePrinterOptions::from_config(&config), &mut writer);
        let r = printer.print_document(&resolved).is_ok();
        let b = writer.into_buffers();
        b.buffer.len() + b.source_map.len() + r as usize
    }), 0);
    bytes += collect!(guard(stage, "ResolverTypePrinter", || {
        let mut writer = SourceWriter::new();
        writer.set_file_index_mapper(schema_mapper.clone());
        let mut options = ResolverTypePrinterOptions::from_config(&config);
        options.schema_source = config.generate.schema_module_specifier.clone().unwrap_or_else(|| relative_path(&root_dir.join("out/resolvers.d.ts"), &schema_output).to_string_lossy().to_string());
        let mut printer = ResolverTypePrinter::new(options, &mut writer);
        let plugins: Vec<nitrogql_plugin::Plugin> = vec![];
        let r = printer.print_document(&resolved, &plugins).is_ok();
        let b = writer.into_buffers();
        b.buffer.len() + b.source_map.len() + r as usize
    }), 0);
    for (path, doc, file_index) in resolved_ops.iter() {
        let used_files: BTreeSet<usize> = doc.definitions.iter().map(|def| def.position().file).chain(std::iter::once(*file_index)).collect();
        let mut next_source_index = schema_len;
        let file_indices: Vec<usize> = (0..store.len())
            .map(|idx| {
                if idx < schema_len {
                    idx
                } else if used_files.contains(&idx) {
                    next_source_index += 1;
                    next_source_index - 1
                } else {
                    usize::MAX
                }
            })
            .collect();
        let decl_file_path = {
            let mut p = path.clone();
            p.set_extension(match config.generate.mode {
                GenerateMode::WithLoaderTS5_0 => "d.graphql.ts",
                GenerateMode::WithLoaderTS4_0 => "graphql.d.ts",
                GenerateMode::StandaloneTS4_0 => "graphql.ts",
            });
            p
        };
        let buffers = match guard(stage, "print_types_for_operation_document", || {
            let mut writer = SourceWriter::new();
            writer.set_file_index_mapper(file_indices.clone());
            let mut options = OperationTypePrinterOptions::from_config(&config);
            options.schema_source = config.generate.schema_module_specifier.clone().unwrap_or_else(|| relative_path(&decl_file_path, &schema_output).to_string_lossy().to_string());
            print_types_for_operation_document(options, &schema, doc, &mut writer);
            writer.into_buffers()
        }) {
            Ok(b) => b,
            Err(p) => {
                panics.push(p["panic"].clone());
                SourceWriter::new().into_buffers()
            }
        };
        bytes += buffers.buffer.len();
        bytes += collect!(guard(stage, "print_source_map_json", || {
            let source_files: Vec<&Path> = file_indices.iter().zip(store.iter()).filter(|(i, _)| **i != usize::MAX).map(|(_, (p, _, _))| p.as_path()).collect();
            let mut out = String::new();
            let _ = print_source_map_json(&decl_file_path, &source_files, &buffers.names, &buffers.source_map, &mut out);
            out.len()
        }), 0);
        bytes += collect!(guard(stage, "print_js_for_operation_document", || {
            let mut out = String::new();
            let mut w = JustWriter::new(&mut out);
            print_js_for_operation_document(OperationJSPrinterOptions::from_config(&config), doc, &mut w);
            out.len()
        }), 0);
    }
    if !panics.is_empty() {
        return Err(json!({"panics": panics}));
    }
    Ok(json!({"outcome": "generated", "bytes": bytes}))
}

// ---- the loader ABI with the same files

fn pass(b: &[u8]) -> (*mut u8, usize) {
    let ptr = loader_native::alloc_string(b.len());
    unsafe { std::ptr::copy_nonoverlapping(b.as_ptr(), ptr, b.len()) };
    (ptr, b.len())
}
fn free(p: (*mut u8, usize)) {
    unsafe { loader_native::free_string(p.0, p.1) };
}
fn result() -> String {
    let (ptr, size) = (loader_native::get_result_ptr(), loader_native::get_result_size());
    String::from_utf8_lossy(unsafe { std::slice::from_raw_parts(ptr, size) }).into_owned()
}

/// a panic inside an `extern "C"` function aborts the process: the hook has printed the message, the watchdog reports it
fn loader_path(c: &Value, stage: &dyn Fn(&str)) -> Value {
    let files = files_of(c);
    let mut tags: Vec<&str> = vec![];
    if let Some(cfg) = c["config"].as_str() {
        stage("loader:load_config");
        let p = pass(cfg.as_bytes());
        let _ = loader_native::load_config(p.0, p.1);
        free(p);
    }
    for (root, text) in files.iter() {
        stage("loader:initiate_task");
        let (f, s) = (pass(root.as_bytes()), pass(text.as_bytes()));
        let id = loader_native::initiate_task(f.0, f.1, s.0, s.1);
        free(f);
        free(s);
        if id == 0 {
            tags.push("initiate-error");
            continue;
        }
        let mut load_failed = false;
        for _ in 0..16 {
            stage("loader:get_required_files");
            if !loader_native::get_required_files(id) {
                break;
            }
            let req = result();
            let mut loaded = 0;
            for path in req.lines() {
                let Some((_, src)) = files.iter().find(|(p, _)| p == path) else { continue };
                stage("loader:load_file");
                let (f, s) = (pass(path.as_bytes()), pass(src.as_bytes()));
                let ok = loader_native::load_file(id, f.0, f.1, s.0, s.1);
                free(f);
                free(s);
                loaded += 1;
                load_failed |= !ok;
            }
            if loaded == 0 || load_failed {
                break;
            }
        }
        stage("loader:emit_js");
        let ok = loader_native::emit_js(id);
        tags.push(if ok { "emitted" } else if load_failed { "load-error" } else { "emit-error" });
        stage("loader:free_task");
        loader_native::free_task(id);
    }
    json!(tags)
}

pub fn run_project(c: &Value, stage: &dyn Fn(&str)) -> Value {
    let cli = match cli_path(c, stage) {
        Ok(v) | Err(v) => v,
    };
    let loader = loader_path(c, stage);
    json!({"project": true, "cli": cli, "loader": loader})
}
