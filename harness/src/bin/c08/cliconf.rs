//! C08 — the family "configuration text × file set, through the REAL built CLI binary".
//!
//! The property quantifies over configuration texts, too: "for any … configuration text, each pipeline stage … either
//! succeeds or returns an error value/diagnostic". The library streams call `parse_config` and the printers with a few
//! fixed configs; what they cannot reach is the CLI's own composition (crates/cli: option validation up front vs. code
//! further down that relies on it, file loading by globs, the three output formats, the command sequence).
//! A case is a project directory (config file + schema sources + operation documents) and a command line; the built
//! `nitrogql-cli` runs in a scratch copy under a timeout. Verdict by the property's wording only: the process must END
//! with exit status 0 or 1; `panicked at` on stderr/stdout (the async executor swallows panics: the exit status may
//! still be 0), death by a signal, another exit status, or no end within the bound are O failures
//! (`panic:cli-<command>:<panic site>:<message class>`, `abort:cli-<command>`, `exit-status:cli-<command>:<n>`,
//! `hang:cli-<command>`; <command> = the command that was running).
//!
//! Factors (all VALID YAML / JSON of the documented shape): schemaOutput (absent / .d.ts / .ts), resolversOutput,
//! serverGraphqlOutput, schemaModuleSpecifier (absent / present), mode (absent / the three modes), emitSchemaRuntime
//! (absent / true / false), type (scalarTypes single / absent — the custom scalar then has no type: a diagnostic — / separate + send-receive + allowUndefinedAsOptionalInput), name (absent /
//! suffixes / capitalizeOperationNames: false), export (absent / all true / mixed), plugins (absent / model /
//! graphql-scalars / unknown name / both), schema sources (one SDL file / two with an extension / introspection JSON /
//! glob matching nothing / key absent), documents (several with an #import / one / glob matching nothing / key absent),
//! content (valid / schema check error / operation check error / operation syntax error), commands (`check`,
//! `generate`, `check generate`), output format (human / json / rdjson), config syntax (YAML / JSON file).
//!   `core_rows`   the FULL product of the four output-location options × documents {several, glob matching nothing,
//!                 key absent} × {generate, check generate} on valid content (144 runs; the other factors random):
//!                 option validation and the code relying on it meet exactly in this sub-product;
//!   `pairwise_rows` rows chosen greedily until every pair of values of every two factors is covered;
//!   `random_rows`   uniformly random rows.
use nvh::cli::{fresh_dir, run_cli, Project};
use nvh::Rng;
use serde_json::{json, Map, Value};
use std::time::Duration;

/// number of values of each factor
const DIMS: [usize; 16] = [3, 2, 2, 2, 4, 3, 3, 3, 3, 5, 5, 4, 4, 3, 3, 2];
const F_SCHEMA_OUT: usize = 0;
const F_RESOLVERS_OUT: usize = 1;
const F_SERVER_OUT: usize = 2;
const F_MODULE_SPEC: usize = 3;
const F_MODE: usize = 4;
const F_RUNTIME: usize = 5;
const F_TYPE: usize = 6;
const F_NAME: usize = 7;
const F_EXPORT: usize = 8;
const F_PLUGINS: usize = 9;
const F_SCHEMA_SRC: usize = 10;
const F_DOCS: usize = 11;
const F_CONTENT: usize = 12;
const F_COMMANDS: usize = 13;
const F_FORMAT: usize = 14;
const F_SYNTAX: usize = 15;

const SDL_MAIN: &str = "scalar Date\n\"the root\"\ntype Query { a: Int me: User now: Date }\ntype User { id: ID! name: String born: Date role: Role }\nenum Role { ADMIN USER }\ntype Mutation { rename(id: ID!, name: String!): User }\n";
const SDL_EXTRA: &str = "extend type Query { extra(first: Int = 1): [String!] }\ninput Filter { q: String, at: Date }\nextend type Mutation { find(f: Filter): [User!]! }\n";

fn named(kind: &str, name: &str) -> Value {
    json!({"kind": kind, "name": name, "ofType": null})
}
fn field(name: &str, ty: Value, args: Value) -> Value {
    json!({"name": name, "description": null, "args": args, "type": ty, "isDeprecated": false, "deprecationReason": null})
}
fn introspection_json() -> String {
    let nn = |t: Value| json!({"kind": "NON_NULL", "name": null, "ofType": t});
    let scalar = |n: &str| json!({"kind": "SCALAR", "name": n, "description": null, "fields": null, "inputFields": null, "interfaces": null, "enumValues": null, "possibleTypes": null});
    let object = |n: &str, fields: Value| json!({"kind": "OBJECT", "name": n, "description": null, "fields": fields, "inputFields": null, "interfaces": [], "enumValues": null, "possibleTypes": null});
    let arg = |n: &str, t: Value| json!({"name": n, "description": null, "type": t, "defaultValue": null});
    json!({"__schema": {
        "queryType": {"name": "Query"}, "mutationType": {"name": "Mutation"}, "subscriptionType": null,
        "types": [
            object("Query", json!([field("a", named("SCALAR", "Int"), json!([])), field("me", named("OBJECT", "User"), json!([])), field("now", named("SCALAR", "Date"), json!([]))])),
            object("User", json!([field("id", nn(named("SCALAR", "ID")), json!([])), field("name", named("SCALAR", "String"), json!([])), field("born", named("SCALAR", "Date"), json!([])), field("role", named("ENUM", "Role"), json!([]))])),
            object("Mutation", json!([field("rename", named("OBJECT", "User"), json!([arg("id", nn(named("SCALAR", "ID"))), arg("name", nn(named("SCALAR", "String")))]))])),
            {"kind": "ENUM", "name": "Role", "description": null, "fields": null, "inputFields": null, "interfaces": null, "enumValues": [{"name": "ADMIN", "description": null, "isDeprecated": false, "deprecationReason": null}, {"name": "USER", "description": null, "isDeprecated": true, "deprecationReason": "old"}], "possibleTypes": null},
            scalar("Date"), scalar("Int"), scalar("String"), scalar("ID"), scalar("Boolean"),
        ],
        "directives": [{"name": "skip", "description": null, "locations": ["FIELD", "FRAGMENT_SPREAD", "INLINE_FRAGMENT"], "args": [arg("if", nn(named("SCALAR", "Boolean")))]},
                       {"name": "include", "description": null, "locations": ["FIELD", "FRAGMENT_SPREAD", "INLINE_FRAGMENT"], "args": [arg("if", nn(named("SCALAR", "Boolean")))]}],
    }})
    .to_string()
}

fn yaml(v: &Value, indent: usize, out: &mut String) {
    let pad = " ".repeat(indent);
    match v {
        Value::Object(m) => {
            for (k, x) in m {
                match x {
                    Value::Object(o) if !o.is_empty() => {
                        out.push_str(&format!("{pad}{k}:\n"));
                        yaml(x, indent + 2, out);
                    }
                    Value::Array(a) if !a.is_empty() => {
                        out.push_str(&format!("{pad}{k}:\n"));
                        for e in a {
                            out.push_str(&format!("{pad}  - {}\n", e));
                        }
                    }
                    _ => out.push_str(&format!("{pad}{k}: {}\n", x)),
                }
            }
        }
        _ => out.push_str(&format!("{pad}{v}\n")),
    }
}

/// the project of a row: files (relative path, text) and the command line
pub fn materialise(row: &[usize]) -> (Vec<(String, String)>, Vec<String>) {
    let mut files: Vec<(String, String)> = vec![];
    let mut cfg = Map::new();
    // ---- schema sources
    let content = row[F_CONTENT];
    let main = if content == 1 { format!("{SDL_MAIN}type Broken {{ x: Missing }}\n") } else { SDL_MAIN.to_string() };
    match row[F_SCHEMA_SRC] {
        0 => {
            files.push(("schema/main.graphql".into(), main));
            cfg.insert("schema".into(), json!("./schema/*.graphql"));
        }
        1 => {
            files.push(("schema/main.graphql".into(), main));
            files.push(("schema/extra.graphql".into(), SDL_EXTRA.into()));
            cfg.insert("schema".into(), json!(["./schema/main.graphql", "./schema/extra.graphql"]));
        }
        2 => {
            files.push(("schema/introspection.json".into(), introspection_json()));
            cfg.insert("schema".into(), json!("./schema/introspection.json"));
        }
        3 => {
            files.push(("schema/readme.txt".into(), "no schema here".into()));
            cfg.insert("schema".into(), json!("./schema/*.graphql"));
        }
        _ => {}
    }
    // ---- documents
    let q = match content {
        2 => "query Me { me { nope } }\n",
        3 => "query Me { me { id \n",
        _ => "#import UserParts from \"./parts/user.graphql\"\nquery Me($withRole: Boolean! = true) { me { ...UserParts role @include(if: $withRole) } a now }\n",
    };
    match row[F_DOCS] {
        0 => {
            files.push(("src/me.graphql".into(), q.into()));
            files.push(("src/parts/user.graphql".into(), "fragment UserParts on User { id name born }\n".into()));
            files.push(("src/rename.graphql".into(), "mutation Rename($id: ID!, $name: String!) { rename(id: $id, name: $name) { id name } }\n".into()));
            cfg.insert("documents".into(), json!("./src/**/*.graphql"));
        }
        1 => {
            files.push(("src/one.graphql".into(), if content >= 2 { q.to_string() } else { "query One { a me { id } }\n".to_string() }));
            cfg.insert("documents".into(), json!(["./src/one.graphql"]));
        }
        2 => {
            files.push(("src/notes.md".into(), "no documents".into()));
            cfg.insert("documents".into(), json!("./src/**/*.graphql"));
        }
        _ => {}
    }
    // ---- extensions.nitrogql
    let mut generate = Map::new();
    match row[F_SCHEMA_OUT] {
        1 => drop(generate.insert("schemaOutput".into(), json!("./out/schema.d.ts"))),
        2 => drop(generate.insert("schemaOutput".into(), json!("./out/schema.ts"))),
        _ => {}
    }
    if row[F_RESOLVERS_OUT] == 1 {
        generate.insert("resolversOutput".into(), json!("./out/server/resolvers.d.ts"));
    }
    if row[F_SERVER_OUT] == 1 {
        generate.insert("serverGraphqlOutput".into(), json!("./out/server/graphql.ts"));
    }
    if row[F_MODULE_SPEC] == 1 {
        generate.insert("schemaModuleSpecifier".into(), json!("@/generated/schema"));
    }
    if row[F_MODE] > 0 {
        generate.insert("mode".into(), json!(["with-loader-ts-5.0", "with-loader-ts-4.0", "standalone-ts-4.0"][row[F_MODE] - 1]));
    }
    if row[F_RUNTIME] > 0 {
        generate.insert("emitSchemaRuntime".into(), json!(row[F_RUNTIME] == 1));
    }
    // 0 (baseline) = the custom scalar has a type; 1 = no `type` key: generation answers "Type for scalar 'Date' is not provided"
    match row[F_TYPE] {
        0 => drop(generate.insert("type".into(), json!({"scalarTypes": {"Date": "string"}}))),
        2 => drop(generate.insert("type".into(), json!({"scalarTypes": {"Date": {"resolverInput": "string", "resolverOutput": "Date | string", "operationInput": "string", "operationOutput": "string"}, "ID": {"send": "string | number", "receive": "string"}}, "allowUndefinedAsOptionalInput": false}))),
        _ => {}
    }
    match row[F_NAME] {
        1 => drop(generate.insert("name".into(), json!({"operationResultTypeSuffix": "Data", "variablesTypeSuffix": "Vars", "fragmentTypeSuffix": "Frag", "queryVariableSuffix": "Q", "mutationVariableSuffix": "M", "fragmentVariableSuffix": "F"}))),
        2 => drop(generate.insert("name".into(), json!({"capitalizeOperationNames": false, "subscriptionVariableSuffix": ""}))),
        _ => {}
    }
    match row[F_EXPORT] {
        1 => drop(generate.insert("export".into(), json!({"defaultExportForOperation": true, "operationResultType": true, "variablesType": true}))),
        2 => drop(generate.insert("export".into(), json!({"defaultExportForOperation": false, "variablesType": true}))),
        _ => {}
    }
    let mut nitrogql = Map::new();
    match row[F_PLUGINS] {
        1 => drop(nitrogql.insert("plugins".into(), json!(["nitrogql:model-plugin"]))),
        2 => drop(nitrogql.insert("plugins".into(), json!(["nitrogql:graphql-scalars-plugin"]))),
        3 => drop(nitrogql.insert("plugins".into(), json!(["some-unknown-plugin"]))),
        4 => drop(nitrogql.insert("plugins".into(), json!(["nitrogql:model-plugin", "nitrogql:graphql-scalars-plugin"]))),
        _ => {}
    }
    if !generate.is_empty() {
        nitrogql.insert("generate".into(), Value::Object(generate));
    }
    if !nitrogql.is_empty() {
        cfg.insert("extensions".into(), json!({"nitrogql": Value::Object(nitrogql)}));
    }
    let cfg = Value::Object(cfg);
    if row[F_SYNTAX] == 1 {
        files.push(("graphql.config.json".into(), serde_json::to_string_pretty(&cfg).unwrap()));
    } else {
        let mut y = String::new();
        yaml(&cfg, 0, &mut y);
        if y.is_empty() {
            y.push_str("{}\n");
        }
        files.push(("graphql.config.yaml".into(), y));
    }
    let mut args: Vec<String> = vec![];
    if row[F_FORMAT] > 0 {
        args.push("--output-format".into());
        args.push(["json", "rdjson"][row[F_FORMAT] - 1].into());
    }
    for c in [&["check"][..], &["generate"][..], &["check", "generate"][..]][row[F_COMMANDS]] {
        args.push(c.to_string());
    }
    (files, args)
}

fn shape(row: &[usize]) -> String {
    format!(
        "schema-{}:documents-{}:{}",
        ["one-file", "two-files", "introspection", "glob-matches-nothing", "key-absent"][row[F_SCHEMA_SRC]],
        ["several", "one", "glob-matches-nothing", "key-absent"][row[F_DOCS]],
        ["valid", "schema-check-error", "operation-check-error", "operation-syntax-error"][row[F_CONTENT]]
    )
}

pub fn case_of(row: &[usize], family: &str) -> Value {
    let (files, args) = materialise(row);
    json!({"stream": "cli", "class": format!("{family}:{}", shape(row)), "row": row, "files": files.iter().map(|(p, t)| json!([p, t])).collect::<Vec<_>>(), "args": args})
}

fn random_row(rng: &mut Rng) -> Vec<usize> {
    let mut r: Vec<usize> = DIMS.iter().map(|d| rng.below(*d)).collect();
    // valid content is the common case (errors end the run early)
    if rng.coin() {
        r[F_CONTENT] = 0;
    }
    r
}

pub fn core_rows(rng: &mut Rng) -> Vec<Value> {
    let mut out = vec![];
    for so in 0..3 {
        for ro in 0..2 {
            for sg in 0..2 {
                for ms in 0..2 {
                    for docs in [0usize, 2, 3] {
                        for cmd in [1usize, 2] {
                            // `generate` alone: everything else at its baseline (absent / simplest), so that the reported
                            // case of a signature is minimal; `check generate`: the other factors random
                            let mut r = if cmd == 1 { vec![0; DIMS.len()] } else { random_row(rng) };
                            r[F_SCHEMA_OUT] = so;
                            r[F_RESOLVERS_OUT] = ro;
                            r[F_SERVER_OUT] = sg;
                            r[F_MODULE_SPEC] = ms;
                            r[F_DOCS] = docs;
                            r[F_COMMANDS] = cmd;
                            r[F_CONTENT] = 0;
                            // sources that load, plugins that exist: the run must get as far as the generate stage
                            if cmd != 1 {
                                r[F_SCHEMA_SRC] = rng.below(3);
                            }
                            if r[F_PLUGINS] == 3 {
                                r[F_PLUGINS] = 0;
                            }
                            // .d.ts + emitSchemaRuntime is rejected up front: keep it out of half of the rows
                            if r[F_RUNTIME] == 1 && rng.coin() {
                                r[F_RUNTIME] = 0;
                            }
                            out.push(case_of(&r, "output-options-product"));
                        }
                    }
                }
            }
        }
    }
    out
}

pub fn pairwise_rows(rng: &mut Rng) -> Vec<Value> {
    let n = DIMS.len();
    let mut uncovered = std::collections::BTreeSet::new();
    for i in 0..n {
        for j in i + 1..n {
            for a in 0..DIMS[i] {
                for b in 0..DIMS[j] {
                    uncovered.insert((i, a, j, b));
                }
            }
        }
    }
    let mut out = vec![];
    while !uncovered.is_empty() && out.len() < 200 {
        let mut best: Option<(usize, Vec<usize>)> = None;
        for _ in 0..40 {
            let r: Vec<usize> = DIMS.iter().map(|d| rng.below(*d)).collect();
            let gain = (0..n).flat_map(|i| (i + 1..n).map(move |j| (i, j))).filter(|(i, j)| uncovered.contains(&(*i, r[*i], *j, r[*j]))).count();
            if best.as_ref().map_or(true, |b| gain > b.0) {
                best = Some((gain, r));
            }
        }
        let (_, r) = best.unwrap();
        for i in 0..n {
            for j in i + 1..n {
                uncovered.remove(&(i, r[i], j, r[j]));
            }
        }
        out.push(case_of(&r, "pairwise"));
    }
    out
}

pub fn random_rows(rng: &mut Rng, count: usize) -> Vec<Value> {
    (0..count).map(|_| case_of(&random_row(rng), "random")).collect()
}

/// plugin-specific user errors: the faults each natively available plugin's OWN schema check reports (model plugin:
/// `@model` on an object without / with a null `type`, `type` on a field, object- and field-level together, on
/// interface fields; plus what the core check reports about the plugin's directive: wrong argument type, unknown
/// argument, unsupported locations, repetition, use without the plugin) and legal uses at the edges (root type, all
/// fields of a type, extensions) × every ordered plugin list (model alone / first / last / duplicated / absent) ×
/// resolversOutput + serverGraphqlOutput present / absent × commands. Later stages rely on the plugin's check as
/// their precondition, so every way of losing or reordering plugin diagnostics shows here.
pub fn plugin_fault_rows() -> Vec<Value> {
    const BASE: &str = "scalar Date\ninterface Node { id: ID! }\nenum Role { ADMIN USER }\ninput Filter { q: String }\n";
    // (name, schema text after BASE)
    let faults: Vec<(&str, String)> = vec![
        ("legal-object-and-field-use", "type Query { me: User posts: [Post!]! }\ntype User implements Node @model(type: \"UserModel\") { id: ID! name: String }\ntype Post implements Node { id: ID! @model title: String @model body(f: Filter): String }\n".into()),
        ("object-without-type", "type Query { me: User }\ntype User implements Node @model { id: ID! name: String }\n".into()),
        ("object-null-type", "type Query { me: User }\ntype User implements Node @model(type: null) { id: ID! name: String }\n".into()),
        ("type-on-field", "type Query { me: User }\ntype User implements Node { id: ID! @model(type: \"string\") name: String }\n".into()),
        ("object-and-field-together", "type Query { me: User }\ntype User implements Node @model(type: \"UserModel\") { id: ID! @model name: String }\n".into()),
        ("object-without-type-and-field", "type Query { me: User }\ntype User implements Node @model { id: ID! @model(type: \"x\") name: String }\n".into()),
        ("wrong-argument-type", "type Query { me: User }\ntype User implements Node @model(type: 1) { id: ID! name: String }\n".into()),
        ("unknown-argument", "type Query { me: User }\ntype User implements Node @model(kind: \"x\") { id: ID! name: String }\n".into()),
        ("on-interface-field", "type Query { me: User node: Named }\ninterface Named { name: String @model }\ntype User implements Node & Named { id: ID! name: String }\n".into()),
        ("on-unsupported-locations", "type Query { me: User r: Role f(x: Filter): Date }\ntype User implements Node { id: ID! name: String }\nextend enum Role @model\nextend input Filter @model(type: \"F\")\nextend scalar Date @model\n".into()),
        ("on-interface-type", "type Query { me: User node: Named }\ninterface Named @model(type: \"N\") { name: String }\ntype User implements Node & Named { id: ID! name: String }\n".into()),
        ("repeated-on-object", "type Query { me: User }\ntype User implements Node @model(type: \"A\") @model { id: ID! name: String }\n".into()),
        ("on-root-type", "type Query @model(type: \"RootModel\") { me: User }\ntype User implements Node { id: ID! name: String }\ntype Mutation @model(type: \"M\") { touch: Boolean @deprecated }\n".into()),
        ("all-fields-of-a-type", "type Query { me: User @model }\ntype User implements Node { id: ID! @model name: String @model }\n".into()),
        ("through-extension", "type Query { me: User }\ntype User implements Node { id: ID! name: String }\nextend type User @model { extra: Int @model(type: \"x\") }\n".into()),
    ];
    let plugin_lists: [(&str, &[&str]); 6] = [
        ("model-alone", &["nitrogql:model-plugin"]),
        ("model-first", &["nitrogql:model-plugin", "nitrogql:graphql-scalars-plugin"]),
        ("model-last", &["nitrogql:graphql-scalars-plugin", "nitrogql:model-plugin"]),
        ("model-duplicated", &["nitrogql:model-plugin", "nitrogql:model-plugin"]),
        ("other-plugin-only", &["nitrogql:graphql-scalars-plugin"]),
        ("no-plugins", &[]),
    ];
    let mut out = vec![];
    let mut k = 0usize;
    for (fault, schema) in &faults {
        for (pname, plugins) in plugin_lists.iter() {
            // (resolversOutput + serverGraphqlOutput present, commands)
            for (server, cmds) in [(true, &["generate"][..]), (false, &["generate"][..]), (true, &["check", "generate"][..]), (false, &["check"][..])] {
                let mut generate = Map::new();
                generate.insert("schemaOutput".into(), json!("./out/schema.d.ts"));
                generate.insert("type".into(), json!({"scalarTypes": {"Date": "string"}}));
                if server {
                    generate.insert("resolversOutput".into(), json!("./out/server/resolvers.d.ts"));
                    generate.insert("serverGraphqlOutput".into(), json!("./out/server/graphql.ts"));
                }
                let mut nitrogql = Map::new();
                if !plugins.is_empty() {
                    nitrogql.insert("plugins".into(), json!(plugins));
                }
                nitrogql.insert("generate".into(), Value::Object(generate));
                let cfg = json!({"schema": "./schema/*.graphql", "documents": "./src/*.graphql", "extensions": {"nitrogql": Value::Object(nitrogql)}});
                let mut y = String::new();
                yaml(&cfg, 0, &mut y);
                let files = vec![
                    json!(["graphql.config.yaml", y]),
                    json!(["schema/main.graphql", format!("{BASE}{schema}")]),
                    json!(["src/me.graphql", "query Me { me { id name } }\n"]),
                ];
                let mut args: Vec<String> = vec![];
                if k % 3 > 0 {
                    args.push("--output-format".into());
                    args.push(["json", "rdjson"][k % 3 - 1].into());
                }
                k += 1;
                args.extend(cmds.iter().map(|c| c.to_string()));
                out.push(json!({"stream": "cli", "class": format!("plugin-faults:{fault}:{pname}:{}", if server { "with-server-outputs" } else { "without-server-outputs" }), "files": files, "args": args}));
            }
        }
    }
    out
}

pub enum Verdict {
    Ok(String),
    /// (signature without the leading stream, description)
    Fail(String, String),
}

/// the command that was running when the process ended: the first command without its "'<cmd>' finished" line
fn running_command(args: &[String], stderr: &str) -> String {
    let cmds: Vec<&String> = args.iter().filter(|a| *a == "check" || *a == "generate").collect();
    for c in &cmds {
        if !stderr.contains(&format!("'{c}' finished")) {
            return c.to_string();
        }
    }
    cmds.last().map(|c| c.to_string()).unwrap_or_else(|| "none".into())
}

/// run one case in `<scratch>/c08-cli`; `site_class` turns (file:line, message) into the stable site class
pub fn run_case(cli: &str, scratch: &str, c: &Value, site_class: &dyn Fn(&str, &str) -> String) -> Verdict {
    let dir = fresh_dir(scratch, "c08-cli");
    let mut p = Project::default();
    for f in c["files"].as_array().into_iter().flatten() {
        p.add(f[0].as_str().unwrap_or("x"), f[1].as_str().unwrap_or(""));
    }
    p.write(&dir);
    let args: Vec<String> = c["args"].as_array().map(|a| a.iter().map(|x| x.as_str().unwrap_or("").to_string()).collect()).unwrap_or_default();
    let argv: Vec<&str> = args.iter().map(|s| s.as_str()).collect();
    let run = run_cli(cli, &dir, &argv, &[("RUST_BACKTRACE", "0"), ("RUST_LOG", "error")], Duration::from_secs(20));
    let cmd = running_command(&args, &run.stderr);
    if run.timed_out {
        return Verdict::Fail(format!("hang:cli-{cmd}"), format!("`nitrogql-cli {}` did not end within 20 s", args.join(" ")));
    }
    let all = format!("{}\n{}", run.stderr, run.stdout);
    if let Some(i) = all.find("panicked at ") {
        // "thread 'main' panicked at crates/cli/src/generate.rs:187:30:\nmessage"
        let rest = &all[i + 12..];
        let loc = rest.lines().next().unwrap_or("").trim_end_matches(':');
        let mut parts = loc.rsplitn(3, ':');
        let (_col, line, file) = (parts.next(), parts.next().unwrap_or(""), parts.next().unwrap_or(loc));
        let msg = rest.lines().nth(1).unwrap_or("").to_string();
        let at = format!("{file}:{line}");
        return Verdict::Fail(
            format!("panic:cli-{cmd}:{}", site_class(&at, &msg)),
            format!("`nitrogql-cli {}` panics at {at} (exit status {:?}): {msg}", args.join(" "), run.code),
        );
    }
    match run.code {
        None => Verdict::Fail(format!("abort:cli-{cmd}"), format!("`nitrogql-cli {}` was killed by a signal; stderr: {}", args.join(" "), run.stderr.chars().take(300).collect::<String>())),
        Some(0) => Verdict::Ok("exit-0".into()),
        Some(1) => Verdict::Ok("exit-1".into()),
        Some(n) => Verdict::Fail(format!("exit-status:cli-{cmd}:{n}"), format!("`nitrogql-cli {}` ended with exit status {n}; stderr: {}", args.join(" "), run.stderr.chars().take(300).collect::<String>())),
    }
}
