//! C08 — the family "the same selection repeated within one scope under DIFFERENT conditions".
//!
//! The operation type printer first collects, per selection-set scope (everything reached through inline fragments and
//! fragment spreads, not through nested fields), the Boolean variables of @skip/@include, enumerates their assignments,
//! and then evaluates the directives of every selection under each assignment. Both walks must see the same selections:
//! de-duplication ("this fragment was already expanded"), merging of equal fields and inline fragments, and short cuts
//! for literal conditions are all places where one walk can skip what the other visits — visible only when the SAME
//! fragment / field / inline fragment occurs 2–3 times in one scope with different directive sets.
//! Documents are VALID by construction (every variable declared, every spread type-correct, no response-key conflict)
//! and run as one-file `project` cases: check → all printers (and the loader), under the watchdog.
//!   items        spread of an object-type fragment, spread of an interface-type fragment, leaf field, object field,
//!                inline fragment with the scope's type / without a type / with the interface type
//!   directives   none, @skip($a), @skip($b), @include($b), @skip(true), @include(false), @skip($a) @include($b) — the
//!                variables are declared by the operation and may be used ONLY on the repeated occurrence
//!   placement    of a later occurrence: directly in the scope, inside an inline fragment (with / without its own
//!                condition), through another fragment (with / without a condition on that spread), in a nested field
//!                scope, in a sibling field scope
//!   hosts        the scope is a field of a query, a list field, a field inside a fragment definition, an inline
//!                fragment under an interface field, a mutation field
//! `systematic`: every ordered pair of directive sets × item × placement (spreads: always all; the other items are
//! sampled in the quick tier), hosts rotating. `random`: 2–3 occurrences, each with a random (also nested) placement.
use nvh::Rng;
use serde_json::{json, Value};

const VARS: &str = "$a: Boolean!, $b: Boolean!, $c: Boolean! = true";
const FRAGS: &str = "fragment F on User { id name }\nfragment N on Node { id }\n";
const ITEMS: [(&str, &str); 7] = [
    ("spread", "...F"),
    ("interface-spread", "...N"),
    ("leaf-field", "name"),
    ("object-field", "friends"),
    ("inline-fragment", "... on User"),
    ("untyped-inline-fragment", "..."),
    ("interface-inline-fragment", "... on Node"),
];
const DIRS: [&str; 7] = ["", " @skip(if: $a)", " @skip(if: $b)", " @include(if: $b)", " @skip(if: true)", " @include(if: false)", " @skip(if: $a) @include(if: $b)"];
const PLACEMENTS: [&str; 7] = ["direct", "in-inline-fragment", "in-conditional-inline-fragment", "via-fragment", "via-conditional-spread", "nested-field-scope", "sibling-field-scope"];

/// one occurrence of an item with a directive set
fn occurrence(item: usize, dir: &str) -> String {
    let head = ITEMS[item].1;
    match item {
        0 | 1 | 2 => format!("{head}{dir}"),
        3 => format!("{head}{dir} {{ id }}"),
        4 | 5 => format!("{head}{dir} {{ name }}"),
        _ => format!("{head}{dir} {{ id }}"),
    }
}

/// put an occurrence somewhere reachable from the scope; `extra` collects the fragment definitions this needs.
/// Returns (text inside the scope, text for a sibling scope)
fn place(placement: usize, occ: &str, k: usize, extra: &mut String) -> (String, String) {
    match placement {
        0 => (occ.to_string(), String::new()),
        1 => (format!("... on User {{ {occ} }}"), String::new()),
        2 => (format!("... on User @include(if: $c) {{ {occ} }}"), String::new()),
        3 => {
            extra.push_str(&format!("fragment G{k} on User {{ id {occ} }}\n"));
            (format!("...G{k}"), String::new())
        }
        4 => {
            extra.push_str(&format!("fragment G{k} on User {{ {occ} }}\n"));
            (format!("...G{k} @skip(if: $c)"), String::new())
        }
        5 => (format!("friends {{ id {occ} }}"), String::new()),
        _ => (String::new(), occ.to_string()),
    }
}

/// the document: a scope of type User holding `scope`; `sibling` goes into a second field scope of the same parent
fn host(h: usize, scope: &str, sibling: &str, extra: &str) -> String {
    let sib = |field: &str| if sibling.is_empty() { String::new() } else { format!(" other: {field} {{ id {sibling} }}") };
    let body = match h % 5 {
        0 => format!("query Q({VARS}) {{ me {{ id {scope} }}{} }}\n", sib("me")),
        1 => format!("query Q({VARS}) {{ users {{ id {scope} }}{} }}\n", sib("users")),
        2 => format!("query Q({VARS}) {{ ...Root }}\nfragment Root on Query {{ me {{ id {scope} }}{} }}\n", sib("me")),
        3 => format!("query Q({VARS}) {{ node(id: \"1\") {{ id ... on User {{ {scope} }} }}{} }}\n", sib("me")),
        _ => format!("mutation M({VARS}) {{ rename(id: \"1\", name: \"x\") {{ id {scope} }}{} }}\n", if sibling.is_empty() { String::new() } else { format!(" other: rename(id: \"2\", name: \"y\") {{ id {sibling} }}") }),
    };
    format!("{body}{FRAGS}{extra}")
}

fn case(class: String, text: String, config: Option<&str>) -> Value {
    json!({"stream": "project", "class": class, "schema": super::project::SCHEMA, "config": config, "files": [["/p/src/a.graphql", text]]})
}

pub fn systematic(rng: &mut Rng, thorough: bool) -> Vec<Value> {
    let mut out = vec![];
    let mut h = 0usize;
    for item in 0..ITEMS.len() {
        for placement in 0..PLACEMENTS.len() {
            for d1 in DIRS {
                for d2 in DIRS {
                    // spreads are always enumerated completely; the other items are sampled in the quick tier
                    if item > 0 && !thorough && !rng.chance(1, 4) {
                        continue;
                    }
                    let mut extra = String::new();
                    let first = occurrence(item, d1);
                    let (second, sibling) = place(placement, &occurrence(item, d2), 1, &mut extra);
                    let text = host(h, &format!("{first} {second}"), &sibling, &extra);
                    h += 1;
                    out.push(case(format!("conditional-repeats:{}:{}", ITEMS[item].0, PLACEMENTS[placement]), text, None));
                }
            }
        }
    }
    out
}

pub fn random(rng: &mut Rng) -> Value {
    let item = if rng.coin() { rng.below(2) } else { rng.below(ITEMS.len()) };
    let n = 2 + rng.below(2);
    let mut extra = String::new();
    let (mut scope, mut sibling) = (String::new(), String::new());
    let mut placements = vec![];
    for k in 0..n {
        let dir = DIRS[rng.below(DIRS.len())];
        let mut occ = occurrence(item, dir);
        // nested placement: inside an inline fragment inside a fragment, …
        let depth = 1 + rng.below(2);
        let mut last = 0;
        for d in 0..depth {
            let p = if d + 1 < depth { 1 + rng.below(4) } else { rng.below(PLACEMENTS.len()) };
            let (inner, sib) = place(p, &occ, k * 4 + d + 1, &mut extra);
            last = p;
            if sib.is_empty() {
                occ = inner;
            } else {
                occ = sib;
            }
        }
        placements.push(PLACEMENTS[last]);
        if last == 6 {
            sibling.push_str(&format!(" {occ}"));
        } else {
            scope.push_str(&format!(" {occ}"));
        }
        // an unrelated selection between the occurrences, sometimes with a condition of its own
        if rng.chance(1, 3) {
            scope.push_str([" name", " id @include(if: $c)", " posts { id }", " ... on Node { id }"][rng.below(4)]);
        }
    }
    let text = host(rng.below(5), &scope, &sibling, &extra);
    let cfg = super::project::CONFIGS[rng.below(super::project::CONFIGS.len())];
    let _ = placements;
    case(format!("conditional-repeats:{}:random", ITEMS[item].0), text, cfg)
}
