//! C08 — the family "a type of the WRONG KIND in a position of the schema / of the operation".
//!
//! The printers (`generate`) rely on a checked schema: they `expect` that a union member is an object type, that an
//! implemented name is an interface, that an output position holds an output type, an input position an input type
//! and a root operation type an object type. Each of these preconditions is ONE rule of the type-system checker; a
//! schema that violates exactly one of them (everything else valid) must be stopped by `check` with a diagnostic —
//! or, if `check` lets it pass, every later stage must still return. The family is the product
//!   position (union member | implements of a type / of an interface | field output type | argument type |
//!             input field type | directive argument type | root operation type | variable type | type condition)
//!   × kind of the named type (object, interface, union, enum, scalar, input object, unknown name, the type itself)
//!   × wrapping (plain, non-null list) where the position allows it
//!   × a list of operation documents that REACH the position (select into it, spread on it, pass a value to it).
//! The kinds that are LEGAL in a position are part of the product (controls: they must generate). The cases are
//! `project` cases (one operation file): every stage the way the CLI and the loader compose them — check of the
//! schema, check of the operation, schema / resolver / operation type printers, JS printer — under the watchdog.
use serde_json::{json, Value};

const STANDALONE: &str = "schema: ./schema.graphql\ndocuments: ./src/**/*.graphql\nextensions:\n  nitrogql:\n    generate:\n      mode: standalone-ts-4.0\n      schemaOutput: ./out/schema.ts\n";

/// one type of every kind; `Query` reaches all of them
const BASE: &str = "type O implements Node { id: ID x: Int }\ntype P { y: Int }\ninterface Node { id: ID }\nunion U = O | P\nenum E { A B }\nscalar S\ninput In { x: Int }\n";
const QUERY_FIELDS: &str = "a: Int o: O p: P i: Node u: U e: E s: S g(x: In, n: Int): Int";

/// (kind label, type name)
const KINDS: [(&str, &str); 8] = [("object", "P"), ("interface", "Node"), ("union", "U"), ("enum", "E"), ("scalar", "S"), ("input-object", "In"), ("builtin-scalar", "Int"), ("unknown", "Nowhere")];

fn case(out: &mut Vec<Value>, position: &str, kind: &str, schema: &str, op: &str, config: Option<&str>) {
    out.push(json!({"stream": "project", "class": format!("wrong-kind:{position}:{kind}"), "schema": schema, "config": config, "files": [["/p/src/a.graphql", op]]}));
}

/// every operation of `ops` in the default mode; the first two also in the standalone mode (values printed, too)
fn cases(out: &mut Vec<Value>, position: &str, kind: &str, schema: &str, ops: &[String]) {
    for (i, op) in ops.iter().enumerate() {
        case(out, position, kind, schema, op, None);
        if i < 2 {
            case(out, position, kind, schema, op, Some(STANDALONE));
        }
    }
}

fn schema_with(extra_defs: &str, extra_query_fields: &str) -> String {
    format!("{BASE}{extra_defs}\ntype Query {{ {QUERY_FIELDS} {extra_query_fields} }}\n")
}

pub fn wrong_kind_cases() -> Vec<Value> {
    let mut out = vec![];
    // ---- a member of a union
    for (kind, k) in KINDS.iter().copied().chain([("itself", "W")]) {
        for members in [format!("O | {k}"), format!("{k}"), format!("{k} | O")] {
            let schema = schema_with(&format!("union W = {members}"), "w: W ws: [W!]!");
            let ops = vec![
                "query Q { w { __typename } }".to_string(),
                "query Q { w { ... on O { x } } ws { __typename ... on O { id } } }".to_string(),
                format!("query Q {{ w {{ ... on {k} {{ __typename }} }} }}"),
                "query Q { w { ...F } }\nfragment F on W { __typename ... on O { x } }".to_string(),
                format!("query Q {{ w {{ ...F }} }}\nfragment F on {k} {{ __typename }}"),
                "query Q { a }".to_string(),
            ];
            cases(&mut out, "union-member", kind, &schema, &ops);
        }
    }
    // ---- `implements` of an object type / of an interface
    for (kind, k) in KINDS.iter().copied().chain([("itself", "T")]) {
        for (position, decl) in [
            ("implements-of-type", format!("type T implements {k} {{ id: ID x: Int y: Int }}")),
            ("implements-of-type", format!("type T implements Node & {k} {{ id: ID x: Int y: Int }}")),
            ("implements-of-interface", format!("interface T implements {k} {{ id: ID x: Int y: Int }}\ntype TI implements T {{ id: ID x: Int y: Int }}")),
            // the implementing object names the transitive interface, too (legal when `k` is an interface)
            ("implements-of-interface", format!("interface T implements {k} {{ id: ID x: Int y: Int }}\ntype TI implements T & {k} {{ id: ID x: Int y: Int }}")),
        ] {
            let schema = schema_with(&decl, "t: T ts: [T]");
            let ops = vec![
                "query Q { t { id } }".to_string(),
                format!("query Q {{ t {{ ... on {k} {{ __typename }} }} ts {{ x }} }}"),
                "query Q { i { ... on T { x } } }".to_string(),
                format!("query Q {{ t {{ ...F }} }}\nfragment F on {k} {{ __typename }}"),
                "query Q { t { __typename ... on T { y } } }".to_string(),
            ];
            cases(&mut out, position, kind, &schema, &ops);
        }
    }
    // ---- the output type of a field (of an object type, of an interface)
    for (kind, k) in KINDS {
        for ty in [k.to_string(), format!("[{k}!]!")] {
            for (position, decl, qf) in [
                ("field-type-of-object", String::new(), format!("bad: {ty}")),
                ("field-type-of-object", format!("type T {{ bad: {ty} x: Int }}"), "t: T".to_string()),
                ("field-type-of-interface", format!("interface T {{ bad: {ty} }}\ntype TI implements T {{ bad: {ty} }}"), "t: T".to_string()),
            ] {
                let schema = schema_with(&decl, &qf);
                let pre = if decl.is_empty() { ("", "") } else { ("t { ", " }") };
                let ops = vec![
                    format!("query Q {{ {}bad{} }}", pre.0, pre.1),
                    format!("query Q {{ {}bad {{ __typename }}{} }}", pre.0, pre.1),
                    format!("query Q {{ {}bad {{ x }}{} }}", pre.0, pre.1),
                    format!("query Q {{ {}bad {{ ... on {k} {{ __typename }} }}{} }}", pre.0, pre.1),
                ];
                cases(&mut out, position, kind, &schema, &ops);
            }
        }
    }
    // ---- the type of an argument / of an input field / of a directive argument
    for (kind, k) in KINDS {
        for ty in [k.to_string(), format!("[{k}!]!")] {
            let direct_ops = |f: &str| {
                vec![
                    format!("query Q {{ {f} }}"),
                    format!("query Q {{ {f}(x: null) }}"),
                    format!("query Q {{ {f}(x: {{x: 1}}) }}"),
                    format!("query Q {{ {f}(x: [{{x: 1}}]) }}"),
                    format!("query Q {{ {f}(x: 1) }}"),
                    format!("query Q {{ {f}(x: A) }}"),
                    format!("query Q($v: {ty}) {{ {f}(x: $v) }}"),
                    format!("query Q($v: {k}) {{ {f}(x: $v) }}"),
                ]
            };
            let schema = schema_with("", &format!("h(x: {ty}): Int"));
            cases(&mut out, "argument-type", kind, &schema, &direct_ops("h"));
            let schema = schema_with(&format!("interface HI {{ h(x: {ty}): Int }}\ntype HT implements HI {{ h(x: {ty}): Int }}"), "hi: HI");
            cases(&mut out, "argument-type-of-interface-field", kind, &schema, &["query Q { hi { h } }".to_string(), "query Q { hi { h(x: null) ... on HT { k: h(x: {x: 1}) } } }".to_string()]);
            let schema = schema_with(&format!("input In2 {{ f: {ty} n: Int }}"), "k(x: In2): Int");
            let ops = vec![
                "query Q { k(x: {n: 1}) }".to_string(),
                "query Q { k(x: {f: null}) }".to_string(),
                "query Q { k(x: {f: {x: 1}}) }".to_string(),
                "query Q { k(x: {f: [{x: 1}]}) }".to_string(),
                "query Q { k(x: {f: 1}) }".to_string(),
                "query Q($v: In2) { k(x: $v) }".to_string(),
                format!("query Q($v: {ty}) {{ k(x: {{f: $v}}) }}"),
            ];
            cases(&mut out, "input-field-type", kind, &schema, &ops);
            let schema = schema_with(&format!("directive @d(x: {ty}) on FIELD | FIELD_DEFINITION"), "m: Int @d");
            let ops = vec!["query Q { a @d }".to_string(), "query Q { a @d(x: null) m }".to_string(), "query Q { a @d(x: {x: 1}) }".to_string(), format!("query Q($v: {ty}) {{ a @d(x: $v) }}")];
            cases(&mut out, "directive-argument-type", kind, &schema, &ops);
        }
    }
    // ---- a root operation type
    for (kind, k) in KINDS {
        for (position, def, opk) in [
            ("root-query-type", format!("schema {{ query: {k} }}"), "query"),
            ("root-mutation-type", format!("schema {{ query: Query mutation: {k} }}"), "mutation"),
            ("root-subscription-type", format!("schema {{ query: Query subscription: {k} }}"), "subscription"),
        ] {
            let schema = schema_with(&def, "");
            let ops = vec![
                format!("{opk} Q {{ __typename }}"),
                format!("{opk} Q {{ id }}"),
                format!("{opk} Q {{ y }}"),
                format!("{opk} Q {{ ... on O {{ x }} }}"),
                format!("{opk} Q {{ ...F }}\nfragment F on {k} {{ __typename }}"),
                "query Q { a }".to_string(),
            ];
            cases(&mut out, position, kind, &schema, &ops);
        }
    }
    // ---- the operation's side (valid schema): the type of a variable, a type condition, selecting into / not into
    let schema = schema_with("", "");
    for (kind, k) in KINDS {
        let ops = vec![
            format!("query Q($v: {k}) {{ a }}"),
            format!("query Q($v: [{k}!]) {{ g(n: 1) }}"),
            format!("query Q($v: {k}) {{ g(x: $v) }}"),
            format!("query Q($v: {k} = null) {{ g(x: $v) }}"),
        ];
        cases(&mut out, "variable-type", kind, &schema, &ops);
        let ops = vec![
            format!("query Q {{ ... on {k} {{ __typename }} }}"),
            format!("query Q {{ u {{ ... on {k} {{ __typename }} }} }}"),
            format!("query Q {{ i {{ ...F }} }}\nfragment F on {k} {{ __typename }}"),
            format!("query Q {{ o {{ ...F }} }}\nfragment F on {k} {{ __typename }}"),
        ];
        cases(&mut out, "type-condition", kind, &schema, &ops);
    }
    let ops: Vec<String> = ["query Q { o }", "query Q { u }", "query Q { i }", "query Q { e { __typename } }", "query Q { s { __typename } }", "query Q { a { __typename } }", "query Q { u { x } }", "query Q { u { __typename ... on P { y } } i { id } }"].iter().map(|s| s.to_string()).collect();
    cases(&mut out, "selection", "leaf-vs-composite", &schema, &ops);
    out
}
