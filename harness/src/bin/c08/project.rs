//! C08 — generator of multi-file operation PROJECTS: several operation files connected by `#import` lines.
//!
//! A project is a structure (files → imports / fragments / operations; fragments and operations spread fragments by
//! NAME), rendered to texts only at the end, so that the interesting variation is in the graph:
//!   * imports: specific (`#import F, G from "…"`) / wildcard (`#import * from "…"`), used / unused by the importing
//!     file, transitive (A → B → C), cyclic (A ↔ B), self imports, several spellings of one path (`./x`, `../d/x`,
//!     `././x`, `x`, absolute), dangling paths, dangling / repeated target names;
//!   * fragments that spread siblings of their own file which the importer did or did not import, fragments of other
//!     files, themselves (cycles), unknown names; fragment names defined in two files;
//!   * fragments on object / interface types, spreads nested under fields and inline fragments, variables used inside
//!     fragments, files without operations, files without fragments.
//! Two families:
//!   `systematic_projects` — exhaustive small scopes (2 files × all spread digraphs on the two fragments of the
//!      imported file × every import form × every use by the importer; 3-file transitive chains; 2-file import cycles;
//!      self imports). The cases are minimal by construction, so they run first and give the replay of a signature.
//!   `random_project` — a VALID project by construction (imports = exactly what the import semantics needs for every
//!      file to be closed under spreads) followed by 0–3 project-level mutations (drop / add an import target or line,
//!      specific ↔ wildcard, add a spread, delete a definition, dangling path, import cycle, name clash, token-level
//!      mutation of one file).
//! The judge is the property (no stage panics / aborts / hangs), not the expected diagnostics.
use nvh::Rng;
use serde_json::{json, Value};
use std::collections::{BTreeMap, BTreeSet};

/// the project schema: object types that reach each other, an interface and a union
pub const SCHEMA: &str = "type Query { a: Int s: String t: Query me: User users: [User!]! node(id: ID!): Node search(q: String): [SearchResult!] }\ninterface Node { id: ID! }\ntype User implements Node { id: ID! name: String root: Query friends: [User!] posts: [Post!]! }\ntype Post implements Node { id: ID! title: String root: Query author: User }\nunion SearchResult = User | Post\ntype Mutation { rename(id: ID!, name: String!): User }\n";

pub const CONFIGS: [Option<&str>; 6] = [
    None,
    Some("schema: ./schema.graphql\ndocuments: ./src/**/*.graphql\nextensions:\n  nitrogql:\n    generate:\n      schemaOutput: ./out/schema.d.ts\n"),
    Some("schema: ./schema.graphql\ndocuments: ./src/**/*.graphql\nextensions:\n  nitrogql:\n    generate:\n      mode: standalone-ts-4.0\n      schemaOutput: ./out/schema.ts\n"),
    Some("schema: ./schema.graphql\ndocuments: ./src/**/*.graphql\nextensions:\n  nitrogql:\n    generate:\n      mode: with-loader-ts-4.0\n      schemaOutput: ./out/schema.d.ts\n      resolversOutput: ./out/resolvers.d.ts\n      export:\n        defaultExportForOperation: false\n        operationResultType: true\n        variablesType: true\n"),
    Some("schema: ./schema.graphql\ndocuments: ./src/**/*.graphql\nextensions:\n  nitrogql:\n    generate:\n      schemaModuleSpecifier: \"@/schema\"\n      name:\n        capitalizeOperationNames: false\n        fragmentTypeSuffix: Frag\n      type:\n        allowUndefinedAsOptionalInput: false\n"),
    Some("schema: ./schema.graphql\ndocuments: ./src/**/*.graphql\nextensions:\n  nitrogql:\n    generate:\n      schemaOutput: ./src/sub/deep/schema.d.ts\n      emitSchemaRuntime: false\n"),
];

const TYPES: [&str; 4] = ["Query", "User", "Post", "Node"];
const LEAVES: [&str; 4] = ["a", "id name", "id title", "id"];
/// PATH[from][to]: field / inline-fragment prefixes that lead from a selection on `from` to a selection on `to`
const PATH: [[&str; 4]; 4] = [
    ["", "me {", "me { posts {", "node(id: \"1\") {"],
    ["root {", "", "posts {", ""],
    ["root {", "author {", "", ""],
    ["... on User { root {", "... on User {", "... on Post {", ""],
];
/// a longer way from a type to itself
const SELF_PATH: [&str; 4] = ["t {", "friends {", "author { posts {", "... on Node {"];
const FILE_PATHS: [&str; 6] = ["/p/src/a.graphql", "/p/src/b.graphql", "/p/src/sub/c.graphql", "/p/src/sub/deep/d.graphql", "/p/src/other/e.graphql", "/p/src/sub/f.graphql"];

#[derive(Clone, Debug)]
pub struct Frag {
    pub name: String,
    pub ty: usize,
    pub spreads: Vec<String>,
    pub variant: usize,
    pub uses_var: bool,
}

#[derive(Clone, Debug, PartialEq)]
pub enum Targets {
    Wildcard,
    Specific(Vec<String>),
}

#[derive(Clone, Debug)]
pub struct Import {
    /// absolute path of the file meant (kept for classification; the text carries `spelling`)
    pub to: String,
    pub spelling: String,
    pub targets: Targets,
}

#[derive(Clone, Debug)]
pub struct Op {
    pub name: String,
    /// 0 query, 1 mutation (selection on User under `rename`)
    pub kind: usize,
    pub spreads: Vec<String>,
    pub variant: usize,
}

#[derive(Clone, Debug, Default)]
pub struct File {
    pub path: String,
    pub imports: Vec<Import>,
    pub frags: Vec<Frag>,
    pub ops: Vec<Op>,
    /// text override (token-level mutation of the rendered file)
    pub raw: Option<String>,
}

#[derive(Clone, Debug, Default)]
pub struct Project {
    pub files: Vec<File>,
    pub vars: bool,
    pub config: Option<String>,
}

fn closers(prefix: &str) -> String {
    " }".repeat(prefix.matches('{').count())
}

fn wrap(from: usize, to: usize, inner: &str, variant: usize) -> String {
    let p = PATH[from][to];
    let s = if p.is_empty() && variant % 3 == 1 {
        let q = SELF_PATH[from];
        // the long way round ends on `from`; the spread's own type must still be reachable directly
        format!("{q} {inner}{}", closers(q))
    } else if p.is_empty() && variant % 3 == 2 {
        format!("... @include(if: true) {{ {inner} }}")
    } else if p.is_empty() {
        inner.to_string()
    } else {
        format!("{p} {inner}{}", closers(p))
    };
    s
}

impl Project {
    pub fn type_of(&self, name: &str) -> Option<usize> {
        self.files.iter().flat_map(|f| f.frags.iter()).find(|f| f.name == name).map(|f| f.ty)
    }
    pub fn home_of(&self, name: &str) -> Option<usize> {
        self.files.iter().position(|f| f.frags.iter().any(|g| g.name == name))
    }
    pub fn file_index(&self, path: &str) -> Option<usize> {
        self.files.iter().position(|f| f.path == path)
    }

    fn spreads_text(&self, from: usize, spreads: &[String], variant: usize) -> String {
        let mut out = String::new();
        for (k, s) in spreads.iter().enumerate() {
            // unknown names are spread in place
            let to = self.type_of(s).unwrap_or(from);
            out.push(' ');
            out.push_str(&wrap(from, to, &format!("...{s}"), variant / 2 + k));
        }
        out
    }

    pub fn render_file(&self, f: &File) -> String {
        if let Some(t) = &f.raw {
            return t.clone();
        }
        let mut s = String::new();
        for i in &f.imports {
            let t = match &i.targets {
                Targets::Wildcard => "*".to_string(),
                Targets::Specific(v) => v.join(", "),
            };
            s.push_str(&format!("#import {t} from \"{}\"\n", i.spelling));
        }
        for o in &f.ops {
            let (vars, dir) = if self.vars { ("($v: Boolean!)", " @skip(if: $v)") } else { ("", "") };
            if o.kind == 1 {
                s.push_str(&format!("mutation {}{vars} {{ rename(id: \"1\", name: \"x\") {{ id{dir}{} }} }}\n", o.name, self.spreads_text(1, &o.spreads, o.variant)));
            } else {
                s.push_str(&format!("query {}{vars} {{ a{dir}{} }}\n", o.name, self.spreads_text(0, &o.spreads, o.variant)));
            }
        }
        for g in &f.frags {
            let dir = if g.uses_var && self.vars { " @include(if: $v)" } else { "" };
            let mut leaves = LEAVES[g.ty].to_string();
            if g.variant % 4 == 3 {
                leaves.push_str(" __typename");
            }
            s.push_str(&format!("fragment {} on {} {{ {leaves}{dir}{} }}\n", g.name, TYPES[g.ty], self.spreads_text(g.ty, &g.spreads, g.variant)));
        }
        s
    }

    // ---- the import semantics (as `resolve_operation_imports` documents it): the document of file `a` holds its own
    // definitions plus the targets of EVERY import line of every file reachable from `a` through import lines
    pub fn doc_fragments(&self, a: usize) -> BTreeSet<String> {
        let mut names: BTreeSet<String> = self.files[a].frags.iter().map(|f| f.name.clone()).collect();
        let mut seen = BTreeSet::from([a]);
        let mut todo = vec![a];
        while let Some(x) = todo.pop() {
            for i in &self.files[x].imports {
                let Some(y) = self.file_index(&i.to) else { continue };
                match &i.targets {
                    Targets::Wildcard => names.extend(self.files[y].frags.iter().map(|f| f.name.clone())),
                    Targets::Specific(v) => names.extend(v.iter().filter(|n| self.files[y].frags.iter().any(|f| &f.name == *n)).cloned()),
                }
                if seen.insert(y) {
                    todo.push(y);
                }
            }
        }
        names
    }

    fn spreads_of(&self, name: &str) -> Vec<String> {
        self.files.iter().flat_map(|f| f.frags.iter()).find(|f| f.name == name).map(|f| f.spreads.clone()).unwrap_or_default()
    }

    /// fragments reachable by spreads from the given names (the names included)
    fn closure(&self, start: impl IntoIterator<Item = String>) -> BTreeSet<String> {
        let mut seen = BTreeSet::new();
        let mut todo: Vec<String> = start.into_iter().collect();
        while let Some(n) = todo.pop() {
            if seen.insert(n.clone()) {
                todo.extend(self.spreads_of(&n));
            }
        }
        seen
    }

    /// names spread by the file's OWN definitions
    fn local_spreads(&self, a: usize) -> Vec<String> {
        let f = &self.files[a];
        f.ops.iter().flat_map(|o| o.spreads.iter().cloned()).chain(f.frags.iter().flat_map(|g| g.spreads.iter().cloned())).collect()
    }

    /// add import targets until the document of every file is closed under spreads of what its own definitions reach
    pub fn complete_imports(&mut self, rng: &mut Rng) {
        for _ in 0..64 {
            let mut changed = false;
            let mut order: Vec<usize> = (0..self.files.len()).collect();
            for i in (1..order.len()).rev() {
                order.swap(i, rng.below(i + 1));
            }
            for a in order {
                let have = self.doc_fragments(a);
                let need = self.closure(self.local_spreads(a));
                let Some(missing) = need.iter().find(|n| !have.contains(*n) && self.home_of(n).is_some()).cloned() else { continue };
                let home = self.home_of(&missing).unwrap();
                let to = self.files[home].path.clone();
                let wildcard = rng.chance(1, 5);
                if let Some(line) = self.files[a].imports.iter_mut().find(|i| i.to == to && i.targets != Targets::Wildcard && !wildcard) {
                    if let Targets::Specific(v) = &mut line.targets {
                        v.push(missing);
                    }
                } else {
                    let spelling = spelling(&self.files[a].path, &to, rng.below(8));
                    self.files[a].imports.push(Import { to, spelling, targets: if wildcard { Targets::Wildcard } else { Targets::Specific(vec![missing]) } });
                }
                changed = true;
            }
            if !changed {
                break;
            }
        }
    }

    /// shape of the project, computed from the structure (distribution key and part of a hang signature)
    pub fn shape(&self) -> &'static str {
        if self.files.iter().any(|f| f.raw.is_some()) {
            return "token-mutated-file";
        }
        let n = self.files.len();
        let mut file_edges = vec![vec![]; n];
        let (mut dangling, mut missing, mut selfi, mut wildcard, mut unused, mut unclosed, mut unused_unclosed) = (false, false, false, false, false, false, false);
        for (a, f) in self.files.iter().enumerate() {
            let doc = self.doc_fragments(a);
            let reached = self.closure(self.local_spreads(a));
            for i in &f.imports {
                match self.file_index(&i.to) {
                    None => dangling = true,
                    Some(b) => {
                        if a == b {
                            selfi = true;
                        }
                        file_edges[a].push(b);
                        let names: Vec<String> = match &i.targets {
                            Targets::Wildcard => {
                                wildcard = true;
                                self.files[b].frags.iter().map(|g| g.name.clone()).collect()
                            }
                            Targets::Specific(v) => {
                                if v.iter().any(|t| !self.files[b].frags.iter().any(|g| &g.name == t)) {
                                    missing = true;
                                }
                                v.clone()
                            }
                        };
                        for t in names {
                            let is_unused = !reached.contains(&t);
                            let is_unclosed = self.closure([t.clone()]).iter().any(|x| !doc.contains(x));
                            unused |= is_unused;
                            unclosed |= is_unclosed;
                            unused_unclosed |= is_unused && is_unclosed;
                        }
                    }
                }
            }
        }
        let cyc = (0..n).any(|s| {
            let mut seen = BTreeSet::new();
            let mut todo: Vec<usize> = file_edges[s].iter().copied().filter(|b| *b != s).collect();
            while let Some(x) = todo.pop() {
                if x == s {
                    return true;
                }
                if seen.insert(x) {
                    todo.extend(file_edges[x].iter().copied());
                }
            }
            false
        });
        let mut names = BTreeMap::new();
        for f in &self.files {
            for g in &f.frags {
                *names.entry(g.name.clone()).or_insert(0) += 1;
            }
        }
        let clash = names.values().any(|c| *c > 1);
        let transitive = (0..n).any(|a| file_edges[a].iter().any(|b| *b != a && file_edges[*b].iter().any(|c| c != b && *c != a)));
        if dangling {
            "dangling-path"
        } else if missing {
            "dangling-target"
        } else if selfi {
            "self-import"
        } else if cyc {
            "import-cycle"
        } else if clash {
            "name-clash"
        } else if unused_unclosed {
            "unused-import-of-unclosed-fragment"
        } else if unclosed {
            "import-of-unclosed-fragment"
        } else if unused {
            "unused-import"
        } else if transitive {
            "transitive-import"
        } else if wildcard {
            "wildcard-import"
        } else if self.files.iter().any(|f| !f.imports.is_empty()) {
            "specific-import"
        } else {
            "no-import"
        }
    }

    pub fn to_case(&self, family: &str) -> Value {
        let files: Vec<Value> = self.files.iter().map(|f| json!([f.path, self.render_file(f)])).collect();
        json!({"stream": "project", "class": format!("{family}:{}", self.shape()), "schema": SCHEMA, "config": self.config, "files": files})
    }
}

/// a spelling of the path of `to` as written in an import line of `from` (all resolve to `to`)
pub fn spelling(from: &str, to: &str, variant: usize) -> String {
    let fd: Vec<&str> = from.split('/').filter(|s| !s.is_empty()).collect();
    let td: Vec<&str> = to.split('/').filter(|s| !s.is_empty()).collect();
    let (fdir, tdir) = (&fd[..fd.len() - 1], &td[..td.len() - 1]);
    let common = fdir.iter().zip(tdir.iter()).take_while(|(a, b)| a == b).count();
    let ups = fdir.len() - common;
    let rest: Vec<&str> = td[common..].to_vec();
    let canonical = if ups == 0 { format!("./{}", rest.join("/")) } else { format!("{}{}", "../".repeat(ups), rest.join("/")) };
    match variant {
        0..=3 => canonical,
        4 => format!("./{canonical}"),
        5 => match fdir.last() {
            Some(d) => format!("../{d}/{canonical}"),
            None => canonical,
        },
        6 => to.to_string(),
        _ => {
            if ups == 0 {
                rest.join("/")
            } else {
                canonical
            }
        }
    }
}

fn frag(name: &str, ty: usize, spreads: &[&str]) -> Frag {
    Frag { name: name.into(), ty, spreads: spreads.iter().map(|s| s.to_string()).collect(), variant: 0, uses_var: false }
}
fn op(name: &str, spreads: &[&str]) -> Op {
    Op { name: name.into(), kind: 0, spreads: spreads.iter().map(|s| s.to_string()).collect(), variant: 0 }
}
fn import(from: &str, to: &str, targets: Option<&[&str]>) -> Import {
    Import { to: to.into(), spelling: spelling(from, to, 0), targets: match targets {
        None => Targets::Wildcard,
        Some(v) => Targets::Specific(v.iter().map(|s| s.to_string()).collect()),
    } }
}

/// the exhaustive small scopes
pub fn systematic_projects(rng: &mut Rng, thorough: bool) -> Vec<Value> {
    let (pa, pb, pc) = (FILE_PATHS[0], FILE_PATHS[1], FILE_PATHS[2]);
    let mut out = vec![];
    // 1. two files: B defines F0, F1 with every spread digraph; A imports them in every form and uses them in every way
    let import_forms: [Option<Option<&[&str]>>; 6] = [None, Some(None), Some(Some(&["F0"])), Some(Some(&["F1"])), Some(Some(&["F0", "F1"])), Some(Some(&["F0", "Missing"]))];
    for mask in 0..16u32 {
        let adj: Vec<Vec<&str>> = (0..2).map(|i| (0..2).filter(|j| mask >> (i * 2 + j) & 1 == 1).map(|j| ["F0", "F1"][j]).collect()).collect();
        for form in import_forms.iter() {
            for used in 0..4u32 {
                for local in 0..3 {
                    let mut b = File { path: pb.into(), ..File::default() };
                    b.frags = vec![frag("F0", 0, &adj[0]), frag("F1", 0, &adj[1])];
                    if rng.coin() {
                        b.ops.push(op("InB", &["F0"]));
                    }
                    let mut a = File { path: pa.into(), ..File::default() };
                    if let Some(t) = form {
                        a.imports.push(import(pa, pb, *t));
                    }
                    let mut spreads: Vec<&str> = (0..2).filter(|j| used >> j & 1 == 1).map(|j| ["F0", "F1"][j]).collect();
                    match local {
                        1 => a.frags.push(frag("L", 0, &["F0"])),
                        2 => {
                            a.frags.push(frag("L", 0, &["F1"]));
                            spreads.push("L");
                        }
                        _ => {}
                    }
                    a.ops.push(op("InA", &spreads));
                    out.push(Project { files: vec![a, b], vars: false, config: None }.to_case("two-files"));
                }
            }
        }
    }
    // 2. three files, transitive: A imports from B, B imports from C
    for a_form in [Some(&["F0"][..]), None] {
        for b_form in [Some(Some(&["G0"][..])), Some(None), None] {
            for f0 in [&[][..], &["F1"][..], &["G0"][..]] {
                for g0 in [&[][..], &["G1"][..]] {
                    for a_use in [&[][..], &["F0"][..], &["G0"][..], &["F1"][..]] {
                        let mut c = File { path: pc.into(), ..File::default() };
                        c.frags = vec![frag("G0", 1, g0), frag("G1", 1, &[])];
                        let mut b = File { path: pb.into(), ..File::default() };
                        b.frags = vec![frag("F0", 0, f0), frag("F1", 2, &[])];
                        if let Some(t) = b_form {
                            b.imports.push(import(pb, pc, t));
                        }
                        let mut a = File { path: pa.into(), ..File::default() };
                        a.imports.push(import(pa, pb, a_form));
                        a.ops.push(op("InA", a_use));
                        out.push(Project { files: vec![a, b, c], vars: false, config: None }.to_case("three-files"));
                    }
                }
            }
        }
    }
    // 3. import cycles between two files, spread cycles across files; 4. self imports
    for b_form in [Some(&["L"][..]), None] {
        for f0 in [&[][..], &["L"][..]] {
            for l in [&[][..], &["F0"][..]] {
                for a_use in [&[][..], &["F0"][..], &["L"][..]] {
                    let mut b = File { path: pb.into(), ..File::default() };
                    b.frags = vec![frag("F0", 0, f0)];
                    b.imports.push(import(pb, pa, b_form));
                    let mut a = File { path: pa.into(), ..File::default() };
                    a.imports.push(import(pa, pb, Some(&["F0"])));
                    a.frags = vec![frag("L", 0, l)];
                    a.ops.push(op("InA", a_use));
                    out.push(Project { files: vec![a, b], vars: false, config: None }.to_case("import-cycle"));
                }
            }
        }
    }
    for form in [Some(&["L"][..]), None, Some(&["Missing"][..])] {
        for a_use in [&[][..], &["L"][..]] {
            for sp in 0..8 {
                if !thorough && sp % 3 != 0 {
                    continue;
                }
                let mut a = File { path: pa.into(), ..File::default() };
                let mut i = import(pa, pa, form);
                i.spelling = spelling(pa, pa, sp);
                a.imports.push(i);
                a.frags = vec![frag("L", 0, &[])];
                a.ops.push(op("InA", a_use));
                out.push(Project { files: vec![a], vars: false, config: None }.to_case("self-import"));
            }
        }
    }
    out
}

/// a valid project (closed imports, acyclic spreads, unique names) + project-level mutations
pub fn random_project(rng: &mut Rng, mutate_text: &mut dyn FnMut(&mut Rng, &str) -> String) -> Value {
    let n = 2 + rng.below(3);
    let mut paths: Vec<&str> = FILE_PATHS.to_vec();
    for i in (1..paths.len()).rev() {
        paths.swap(i, rng.below(i + 1));
    }
    let mut p = Project { files: vec![], vars: rng.coin(), config: CONFIGS[rng.below(CONFIGS.len())].map(|s| s.to_string()) };
    let mut all: Vec<(usize, String)> = vec![];
    for (k, path) in paths.iter().take(n).enumerate() {
        let mut f = File { path: path.to_string(), ..File::default() };
        let nf = if k == 0 { rng.below(2) } else { 1 + rng.below(3) };
        for j in 0..nf {
            let name = format!("F{k}x{j}");
            f.frags.push(Frag { name: name.clone(), ty: rng.below(4), spreads: vec![], variant: rng.below(12), uses_var: rng.chance(1, 4) });
            all.push((k, name));
        }
        let no = if k == 0 { 1 + rng.below(2) } else { rng.below(2) };
        for j in 0..no {
            f.ops.push(Op { name: format!("Op{k}x{j}"), kind: if rng.chance(1, 5) { 1 } else { 0 }, spreads: vec![], variant: rng.below(12) });
        }
        p.files.push(f);
    }
    // spreads: acyclic by the global order of the fragments; siblings of the same file are preferred
    for i in 0..all.len() {
        for j in i + 1..all.len() {
            let same = all[i].0 == all[j].0;
            if rng.chance(if same { 2 } else { 1 }, 5) {
                let (fi, name) = (all[i].0, all[i].1.clone());
                let target = all[j].1.clone();
                p.files[fi].frags.iter_mut().find(|g| g.name == name).unwrap().spreads.push(target);
            }
        }
    }
    for f in p.files.iter_mut() {
        for o in f.ops.iter_mut() {
            for _ in 0..rng.below(3) {
                if !all.is_empty() {
                    let t = all[rng.below(all.len())].1.clone();
                    if !o.spreads.contains(&t) {
                        o.spreads.push(t);
                    }
                }
            }
        }
    }
    p.complete_imports(rng);
    // project-level mutations
    let muts = [0, 1, 1, 2, 2, 3][rng.below(6)];
    for _ in 0..muts {
        let a = rng.below(p.files.len());
        let b = rng.below(p.files.len());
        let pick_frag = |rng: &mut Rng, p: &Project, file: Option<usize>| -> Option<String> {
            let c: Vec<String> = p.files.iter().enumerate().filter(|(i, _)| file.map_or(true, |f| f == *i)).flat_map(|(_, f)| f.frags.iter().map(|g| g.name.clone())).collect();
            if c.is_empty() { None } else { Some(c[rng.below(c.len())].clone()) }
        };
        match rng.below(13) {
            // add an import target (mostly unused by the importer; its own spreads may or may not be imported)
            0 | 1 | 2 => {
                if let Some(t) = pick_frag(rng, &p, if a != b { Some(b) } else { None }) {
                    let home = p.home_of(&t).unwrap();
                    let to = p.files[home].path.clone();
                    let from = p.files[a].path.clone();
                    let sp = spelling(&from, &to, rng.below(8));
                    match p.files[a].imports.iter_mut().find(|i| i.to == to && matches!(i.targets, Targets::Specific(_))) {
                        Some(line) if rng.coin() => {
                            if let Targets::Specific(v) = &mut line.targets {
                                v.push(t);
                            }
                        }
                        _ => p.files[a].imports.push(Import { to, spelling: sp, targets: Targets::Specific(vec![t]) }),
                    }
                }
            }
            // add an (unused) wildcard import
            3 => {
                let (from, to) = (p.files[a].path.clone(), p.files[b].path.clone());
                let sp = spelling(&from, &to, rng.below(8));
                p.files[a].imports.push(Import { to, spelling: sp, targets: Targets::Wildcard });
            }
            // drop an import target / line
            4 | 5 => {
                if !p.files[a].imports.is_empty() {
                    let k = rng.below(p.files[a].imports.len());
                    let drop_line = match &mut p.files[a].imports[k].targets {
                        Targets::Specific(v) if v.len() > 1 && rng.coin() => {
                            let j = rng.below(v.len());
                            v.remove(j);
                            false
                        }
                        _ => true,
                    };
                    if drop_line {
                        p.files[a].imports.remove(k);
                    }
                }
            }
            // specific <-> wildcard
            6 => {
                if !p.files[a].imports.is_empty() {
                    let k = rng.below(p.files[a].imports.len());
                    let to = p.files[a].imports[k].to.clone();
                    let new = match &p.files[a].imports[k].targets {
                        Targets::Specific(_) => Targets::Wildcard,
                        Targets::Wildcard => Targets::Specific(p.file_index(&to).and_then(|y| pick_frag(rng, &p, Some(y))).into_iter().collect()),
                    };
                    if new != Targets::Specific(vec![]) {
                        p.files[a].imports[k].targets = new;
                    }
                }
            }
            // add a spread of any fragment (possibly not in the document, possibly a cycle) / of an unknown name
            7 | 8 => {
                let t = if rng.chance(1, 6) { Some("Unknown".to_string()) } else { pick_frag(rng, &p, None) };
                if let Some(t) = t {
                    let f = &mut p.files[a];
                    let k = rng.below((f.frags.len() + f.ops.len()).max(1));
                    if k < f.frags.len() {
                        f.frags[k].spreads.push(t);
                    } else if !f.ops.is_empty() {
                        f.ops[k - f.frags.len()].spreads.push(t);
                    }
                }
            }
            // delete a definition
            9 => {
                let f = &mut p.files[a];
                if !f.frags.is_empty() && rng.coin() {
                    let k = rng.below(f.frags.len());
                    f.frags.remove(k);
                } else if !f.ops.is_empty() {
                    let k = rng.below(f.ops.len());
                    f.ops.remove(k);
                }
            }
            // dangling path / dangling or repeated target
            10 => {
                if !p.files[a].imports.is_empty() {
                    let k = rng.below(p.files[a].imports.len());
                    let i = &mut p.files[a].imports[k];
                    match rng.below(3) {
                        0 => {
                            i.to = "/p/src/nowhere.graphql".into();
                            i.spelling = ["./nowhere.graphql", "", "../../../../x.graphql", "./"][rng.below(4)].into();
                        }
                        1 => {
                            if let Targets::Specific(v) = &mut i.targets {
                                v.push("Missing".into());
                            }
                        }
                        _ => {
                            if let Targets::Specific(v) = &mut i.targets {
                                if let Some(d) = v.first().cloned() {
                                    v.push(d);
                                }
                            }
                        }
                    }
                }
            }
            // the imported file imports back (import cycle) / a file imports itself
            11 => {
                let (from, to) = (p.files[b].path.clone(), p.files[a].path.clone());
                let t = pick_frag(rng, &p, Some(a));
                let sp = spelling(&from, &to, rng.below(8));
                p.files[b].imports.push(Import { to, spelling: sp, targets: match t {
                    Some(t) if rng.coin() => Targets::Specific(vec![t]),
                    _ => Targets::Wildcard,
                } });
            }
            // one name defined in two files
            _ => {
                if a != b && !p.files[a].frags.is_empty() && !p.files[b].frags.is_empty() {
                    let name = p.files[a].frags[0].name.clone();
                    let k = rng.below(p.files[b].frags.len());
                    p.files[b].frags[k].name = name;
                }
            }
        }
    }
    // token-level mutation of one file of the project
    if rng.chance(1, 8) {
        let a = rng.below(p.files.len());
        let t = p.render_file(&p.files[a]);
        p.files[a].raw = Some(mutate_text(rng, &t));
    }
    p.to_case("random-project")
}
