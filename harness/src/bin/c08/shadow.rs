//! C08 — the family "the user's schema re-declares a built-in name".
//!
//! The CLI appends the built-ins (`graphql_builtins::generate_builtins()`: scalars Int Float String Boolean ID,
//! directives @skip @include @deprecated @specifiedBy; `nitrogql_builtins()`: @nitrogql_ts_type) AFTER the user's
//! definitions, and the later stages keep the FIRST definition of a name: a user definition shadows the built-in.
//! Code that relies on the built-in's signature ("@skip always has an `if` argument", "Boolean is a scalar") is then
//! reachable with a weaker signature that `check` accepts.
//! Every built-in directive is re-declared with the same signature / no arguments / optional or defaulted instead of
//! required arguments / other argument types / another argument name / an extra argument / other locations /
//! repeatable, and every built-in scalar is re-declared as a scalar (plain, with directives) and as every other kind —
//! each combined with every operation / schema text of a list that USES the name in all the ways some weaker signature
//! allows (the checker sorts out which combinations are legal). The cases are `project` cases (one operation file), so
//! they run every stage the way the CLI and the loader compose them, under the watchdog.
use serde_json::{json, Value};

const STANDALONE: &str = "schema: ./schema.graphql\ndocuments: ./src/**/*.graphql\nextensions:\n  nitrogql:\n    generate:\n      mode: standalone-ts-4.0\n      schemaOutput: ./out/schema.ts\n";

fn case(out: &mut Vec<Value>, shape: &str, schema: &str, op: &str, config: Option<&str>) {
    out.push(json!({"stream": "project", "class": format!("shadowed-builtin:{shape}"), "schema": schema, "config": config, "files": [["/p/src/a.graphql", op]]}));
}

pub fn shadow_cases() -> Vec<Value> {
    let mut out = vec![];
    // minimal representatives first (the first failing case of a signature is the one that is reported)
    for d in ["skip", "include"] {
        case(&mut out, &format!("directive-{d}:no-arguments-field-only"), &format!("directive @{d} on FIELD\ntype Query {{ a: Int }}\n"), &format!("query Q {{ a @{d} }}"), None);
        case(&mut out, &format!("directive-{d}:optional-argument"), &format!("directive @{d}(if: Boolean) on FIELD\ntype Query {{ a: Int }}\n"), &format!("query Q {{ a @{d} }}"), None);
    }
    for s in ["Int", "Float", "String", "Boolean", "ID"] {
        for (shape, decl) in [("input-object", format!("input {s} {{ x: {s} }}")), ("object", format!("type {s} {{ x: {s} }}")), ("enum", format!("enum {s} {{ A }}")), ("scalar", format!("scalar {s}"))] {
            case(&mut out, &format!("scalar-{s}:{shape}"), &format!("{decl}\ntype Query {{ a: Int }}\n"), "query Q { a }", None);
        }
    }
    let exec_locs = "FIELD | FRAGMENT_SPREAD | INLINE_FRAGMENT";
    // ---- @skip / @include
    for d in ["skip", "include"] {
        let decls: Vec<(&str, String)> = vec![
            ("no-arguments", format!("directive @{d} on {exec_locs}")),
            ("no-arguments-field-only", format!("directive @{d} on FIELD")),
            ("optional-argument", format!("directive @{d}(if: Boolean) on {exec_locs}")),
            ("defaulted-argument", format!("directive @{d}(if: Boolean! = true) on {exec_locs}")),
            ("same-signature", format!("directive @{d}(if: Boolean!) on {exec_locs}")),
            ("other-argument-type", format!("directive @{d}(if: String!) on {exec_locs}")),
            ("list-argument-type", format!("directive @{d}(if: [Boolean!]) on {exec_locs}")),
            ("other-argument-name", format!("directive @{d}(unless: Boolean!) on {exec_locs}")),
            ("extra-argument", format!("directive @{d}(if: Boolean!, also: Int) on {exec_locs}")),
            ("other-locations", format!("directive @{d}(if: Boolean) on QUERY | FIELD | FRAGMENT_DEFINITION | VARIABLE_DEFINITION | FRAGMENT_SPREAD | INLINE_FRAGMENT")),
            ("repeatable", format!("directive @{d}(if: Boolean!) repeatable on {exec_locs}")),
            ("type-system-location", format!("directive @{d}(if: Boolean) on FIELD_DEFINITION | FIELD")),
        ];
        let uses: Vec<String> = vec![
            format!("query Q {{ a @{d} }}"),
            format!("query Q {{ a @{d}(if: true) }}"),
            format!("query Q {{ a @{d}(if: false) t {{ a @{d} }} }}"),
            format!("query Q($v: Boolean!) {{ a @{d}(if: $v) }}"),
            format!("query Q($v: Boolean) {{ a @{d}(if: $v) }}"),
            format!("query Q($v: String!) {{ a @{d}(if: $v) }}"),
            format!("query Q {{ a @{d}(if: \"x\") }}"),
            format!("query Q {{ a @{d}(if: [true]) }}"),
            format!("query Q($v: [Boolean!]) {{ a @{d}(if: $v) }}"),
            format!("query Q {{ a @{d}(if: null) }}"),
            format!("query Q {{ a @{d}(unless: true) }}"),
            format!("query Q($v: Boolean!) {{ a @{d}(unless: $v) }}"),
            format!("query Q {{ a @{d}(if: true, also: 1) }}"),
            format!("query Q {{ a @{d}(if: true) @{d}(if: false) }}"),
            format!("query Q {{ ...F @{d} }}\nfragment F on Query {{ a }}"),
            format!("query Q {{ ... @{d} {{ a }} }}"),
            format!("query Q {{ ... on Query @{d} {{ a t {{ a }} }} }}"),
            format!("query Q @{d} {{ a }}"),
            format!("query Q {{ ...F }}\nfragment F on Query @{d} {{ a }}"),
            format!("query Q($v: Int @{d}) {{ t {{ a }} }}"),
        ];
        for (shape, decl) in &decls {
            for (ui, u) in uses.iter().enumerate() {
                // the standalone mode (values printed, too) for the plain forms; the default mode for all
                for cfg in [None, Some(STANDALONE)] {
                    if cfg.is_some() && ui >= 6 {
                        continue;
                    }
                    let field_dir = if *shape == "type-system-location" { format!(" @{d}") } else { String::new() };
                    case(&mut out, &format!("directive-{d}:{shape}"), &format!("{decl}\ntype Query {{ a: Int{field_dir} t: Query }}\n"), u, cfg);
                }
            }
        }
    }
    // ---- @deprecated (type-system directive: the USE is in the schema; the operation selects what is marked)
    let dep_locs = "FIELD_DEFINITION | ARGUMENT_DEFINITION | INPUT_FIELD_DEFINITION | ENUM_VALUE";
    let decls: Vec<(&str, String)> = vec![
        ("no-arguments", format!("directive @deprecated on {dep_locs}")),
        ("same-signature", format!("directive @deprecated(reason: String = \"No longer supported\") on {dep_locs}")),
        ("required-argument", format!("directive @deprecated(reason: String!) on {dep_locs}")),
        ("other-argument-type", format!("directive @deprecated(reason: Int) on {dep_locs}")),
        ("list-argument-type", format!("directive @deprecated(reason: [String]) on {dep_locs}")),
        ("other-argument-name", format!("directive @deprecated(why: String) on {dep_locs}")),
        ("other-locations", format!("directive @deprecated(reason: String) on OBJECT | SCALAR | ENUM | INPUT_OBJECT | FIELD | {dep_locs}")),
        ("repeatable", format!("directive @deprecated(reason: String) repeatable on {dep_locs}")),
    ];
    let uses = [
        "@deprecated", "@deprecated(reason: \"x\")", "@deprecated(reason: 1)", "@deprecated(reason: [\"x\", null])", "@deprecated(why: \"x\")", "@deprecated(reason: null)",
        "@deprecated @deprecated(reason: \"y\")",
    ];
    for (shape, decl) in &decls {
        for u in uses {
            for place in 0..4 {
                let schema = match place {
                    0 => format!("{decl}\ntype Query {{ a: Int {u} e: E g(x: Int, i: I): Int }}\nenum E {{ A B }}\ninput I {{ x: Int }}\n"),
                    1 => format!("{decl}\ntype Query {{ a: Int e: E g(x: Int {u}, i: I): Int }}\nenum E {{ A {u} B }}\ninput I {{ x: Int {u} }}\n"),
                    2 => format!("{decl}\ntype Query {u} {{ a: Int e: E g(x: Int, i: I): Int }}\nenum E {u} {{ A B }}\ninput I {u} {{ x: Int }}\n"),
                    _ => format!("{decl}\ntype Query {{ a: Int e: E g(x: Int, i: I): Int }}\nenum E {{ A B }}\ninput I {{ x: Int }}\nscalar S {u}\n"),
                };
                case(&mut out, &format!("directive-deprecated:{shape}"), &schema, &format!("query Q {{ a e g(x: 1, i: {{x: 2}}) }}\nquery R {{ a {u} }}"), None);
                case(&mut out, &format!("directive-deprecated:{shape}"), &schema, "query Q { a e g(x: 1, i: {x: 2}) }", Some(STANDALONE));
            }
        }
    }
    // ---- @specifiedBy and @nitrogql_ts_type (on scalars; the schema printers read them)
    let four = "resolverInput: String!, resolverOutput: String!, operationInput: String!, operationOutput: String!";
    let decls: Vec<(&str, &str, String)> = vec![
        ("specifiedBy", "no-arguments", "directive @specifiedBy on SCALAR".into()),
        ("specifiedBy", "same-signature", "directive @specifiedBy(url: String!) on SCALAR".into()),
        ("specifiedBy", "optional-argument", "directive @specifiedBy(url: String) on SCALAR".into()),
        ("specifiedBy", "other-argument-type", "directive @specifiedBy(url: Int!) on SCALAR".into()),
        ("specifiedBy", "other-locations", "directive @specifiedBy(url: String) on SCALAR | OBJECT | FIELD_DEFINITION | FIELD".into()),
        ("nitrogql_ts_type", "no-arguments", "directive @nitrogql_ts_type on SCALAR".into()),
        ("nitrogql_ts_type", "same-signature", format!("directive @nitrogql_ts_type({four}) on SCALAR")),
        ("nitrogql_ts_type", "fewer-arguments", "directive @nitrogql_ts_type(resolverInput: String!) on SCALAR".into()),
        ("nitrogql_ts_type", "optional-arguments", format!("directive @nitrogql_ts_type({}) on SCALAR", four.replace('!', ""))),
        ("nitrogql_ts_type", "other-argument-types", format!("directive @nitrogql_ts_type({}) on SCALAR", four.replace("String!", "Int"))),
        ("nitrogql_ts_type", "list-argument-types", format!("directive @nitrogql_ts_type({}) on SCALAR", four.replace("String!", "[String]"))),
        ("nitrogql_ts_type", "other-locations", format!("directive @nitrogql_ts_type({}) on SCALAR | OBJECT | FIELD_DEFINITION | FIELD", four.replace('!', ""))),
        ("nitrogql_ts_type", "repeatable", format!("directive @nitrogql_ts_type({}) repeatable on SCALAR", four.replace('!', ""))),
    ];
    for (d, shape, decl) in &decls {
        let uses: Vec<String> = if *d == "specifiedBy" {
            vec!["@specifiedBy".into(), "@specifiedBy(url: \"u\")".into(), "@specifiedBy(url: 1)".into(), "@specifiedBy(url: null)".into(), "@specifiedBy(url: \"u\") @specifiedBy(url: \"v\")".into()]
        } else {
            vec![
                "@nitrogql_ts_type".into(),
                "@nitrogql_ts_type(resolverInput: \"string\")".into(),
                "@nitrogql_ts_type(resolverInput: \"string\", resolverOutput: \"string\", operationInput: \"string\", operationOutput: \"Date\")".into(),
                "@nitrogql_ts_type(resolverInput: 1, resolverOutput: 2, operationInput: 3, operationOutput: 4)".into(),
                "@nitrogql_ts_type(resolverInput: [\"a\"], resolverOutput: [\"a\", null], operationInput: [], operationOutput: null)".into(),
                "@nitrogql_ts_type(resolverInput: \"a\", resolverOutput: null, operationInput: \"b\")".into(),
                "@nitrogql_ts_type(resolverInput: \"a\") @nitrogql_ts_type(resolverInput: \"b\", resolverOutput: \"b\", operationInput: \"b\", operationOutput: \"b\")".into(),
            ]
        };
        for u in &uses {
            for place in 0..3 {
                let schema = match place {
                    0 => format!("{decl}\nscalar S {u}\ntype Query {{ a: Int s: S g(x: S): S }}\n"),
                    1 => format!("{decl}\nscalar S\ntype Query {u} {{ a: Int {u} s: S g(x: S): S }}\n"),
                    _ => format!("{decl}\nscalar S\nextend scalar S {u}\ntype Query {{ a: Int s: S g(x: S): S }}\n"),
                };
                case(&mut out, &format!("directive-{d}:{shape}"), &schema, &format!("query Q($v: S) {{ a s g(x: $v) }}\nquery R {{ a {u} }}"), None);
                case(&mut out, &format!("directive-{d}:{shape}"), &schema, "query Q($v: S) { a s g(x: $v) h: g(x: 1) }", Some(STANDALONE));
            }
        }
    }
    // ---- the built-in scalars, re-declared as a scalar and as every other kind
    for s in ["Boolean", "Int", "Float", "String", "ID"] {
        let redecls: Vec<(&str, String)> = vec![
            ("scalar", format!("scalar {s}")),
            ("scalar-with-directives", format!("scalar {s} @specifiedBy(url: \"u\") @nitrogql_ts_type(resolverInput: \"Date\", resolverOutput: \"Date\", operationInput: \"Date\", operationOutput: \"Date\")")),
            ("object", format!("type {s} {{ x: Int }}")),
            ("interface", format!("interface {s} {{ x: Int }}\ntype Impl implements {s} {{ x: Int }}")),
            ("union", format!("union {s} = Member\ntype Member {{ x: Int }}")),
            ("enum", format!("enum {s} {{ A B }}")),
            ("input-object", format!("input {s} {{ x: Int y: {s} }}")),
            ("twice", format!("scalar {s}\nscalar {s}")),
        ];
        let out_ops: Vec<String> = vec![
            "query Q { f }".into(),
            "query Q { f { x } }".into(),
            format!("query Q {{ f {{ ... on {s} {{ x }} __typename }} }}"),
            "query Q { f { ... on Member { x } ... on Impl { x } } }".into(),
            "query Q { a @skip(if: true) f @include(if: false) }".into(),
            "query Q($v: Boolean!) { a @skip(if: $v) }".into(),
            "query Q($v: Boolean! = true) { a @include(if: $v) }".into(),
            "query Q($v: Boolean! = A) { a @include(if: $v) }".into(),
            "query Q { a @skip(if: A) }".into(),
            "query Q { a @skip(if: {x: 1}) }".into(),
        ];
        let in_ops: Vec<String> = vec![
            "query Q { g(x: 1) }".into(),
            "query Q { g(x: \"s\") }".into(),
            "query Q { g(x: true) }".into(),
            "query Q { g(x: 1.5) }".into(),
            "query Q { g(x: A) }".into(),
            "query Q { g(x: {x: 1}) }".into(),
            "query Q { g(x: {x: 1, y: {x: 2}}) }".into(),
            "query Q { g(x: null) l(x: [1, \"s\", A]) }".into(),
            format!("query Q($v: {s}) {{ g(x: $v) }}"),
            format!("query Q($v: {s} = 1) {{ g(x: $v) }}"),
            format!("query Q($v: {s}! = A, $w: [{s}!] = [A]) {{ g(x: $v) l(x: $w) }}"),
            format!("query Q($v: {s} = {{x: 1}}) {{ g(x: $v) }}"),
        ];
        for (shape, decl) in &redecls {
            let out_schema = format!("{decl}\ntype Query {{ a: Int f: {s} fs: [{s}!]! t: Query }}\n");
            let in_schema = format!("{decl}\ntype Query {{ a: Int g(x: {s}): Int l(x: [{s}]): Int d(x: {s} = 1): Int }}\n");
            for o in &out_ops {
                case(&mut out, &format!("scalar-{s}:{shape}"), &out_schema, o, None);
            }
            for o in &in_ops {
                case(&mut out, &format!("scalar-{s}:{shape}"), &in_schema, o, if *shape == "enum" || *shape == "input-object" { Some(STANDALONE) } else { None });
            }
        }
    }
    out
}
