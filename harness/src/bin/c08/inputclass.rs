//! C08 — classes of failing INPUTS, decided from the texts of the case (not from the code site).
//!
//! A known finding must be recognised by something a behaviour-preserving refactoring cannot change. The panic SITE
//! (file, enclosing function, ordinal) moves when helpers are extracted; the INPUT does not. For a panic of the
//! operation-type generation stage the harness therefore first asks whether the failing input belongs to one of the
//! decidable classes below and, if so, uses the class as the signature; every other panic keeps its code-site
//! signature (so a new defect at the same site on another kind of input is still reported as new).
//!  (a) `shadowed-builtin-directive:<skip|include>` — the schema text holds a USER directive definition named skip /
//!      include whose `if` argument is absent, optional, defaulted or not `Boolean!`, AND an operation applies that
//!      directive in a way only the weaker signature allows (no `if` argument, or an `if` value that is neither a
//!      Boolean literal nor a variable).
//!  (b) `leaf-object-key-clash` — some selection set, after flattening fragment spreads and inline fragments and merging
//!      the sub-selections of equal response keys, selects one response key both as a leaf and with a sub-selection
//!      (the missing FieldsInSetCanMerge rule).
//! Both are computed on the parsed texts (`nvh::gm` view of the real parser's AST). A text that does not parse is in
//! no class.
use nitrogql_parser::{parse_operation_document, parse_type_system_document};
use nvh::gm::*;
use serde_json::Value;
use std::collections::{BTreeMap, BTreeSet};

/// the stages whose panics may be explained by an input class: operation type generation after a passed check
pub const GENERATE_STAGES: [&str; 1] = ["print_types_for_operation_document"];

fn operation_texts(case: &Value) -> Vec<String> {
    let mut v: Vec<String> = case["operations"].as_array().map(|a| a.iter().filter_map(|x| x.as_str().map(String::from)).collect()).unwrap_or_default();
    v.extend(case["files"].as_array().into_iter().flatten().filter_map(|f| f[1].as_str().map(String::from)));
    v
}

fn parse_docs(case: &Value) -> Vec<Doc> {
    operation_texts(case)
        .iter()
        .filter_map(|t| {
            let t = t.clone();
            nvh::catch(move || parse_operation_document(&t).ok().map(|d| from_real_doc_ext(&d))).ok().flatten()
        })
        .collect()
}

fn weak_builtin_redeclarations(schema: &str) -> BTreeSet<String> {
    let s = schema.to_string();
    let doc = match nvh::catch(move || parse_type_system_document(&s).ok().map(|d| from_real_tsdoc_ext(&d))) {
        Ok(Some(d)) => d,
        _ => return BTreeSet::new(),
    };
    let mut out = BTreeSet::new();
    for item in &doc.items {
        if let TsItem::DirectiveDef(d) = item {
            if d.name == "skip" || d.name == "include" {
                let strong = d.args.iter().any(|a| {
                    a.name == "if" && a.default.is_none() && matches!(&a.ty, Ty::NonNull(inner) if matches!(inner.as_ref(), Ty::Named(n, _) if n == "Boolean"))
                });
                if !strong {
                    out.insert(d.name.clone());
                }
            }
        }
    }
    out
}

fn weak_application(d: &Dir) -> bool {
    match d.args.iter().find(|a| a.name == "if") {
        None => true,
        Some(a) => !matches!(a.value, Val::Bool(..) | Val::Var(..)),
    }
}

fn dirs_in_sels<'a>(sels: &'a [Sel], out: &mut Vec<&'a Dir>) {
    for s in sels {
        match s {
            Sel::Field { dirs, sel, .. } => {
                out.extend(dirs.iter());
                if let Some(ss) = sel {
                    dirs_in_sels(ss, out);
                }
            }
            Sel::Spread { dirs, .. } => out.extend(dirs.iter()),
            Sel::Inline { dirs, sel, .. } => {
                out.extend(dirs.iter());
                dirs_in_sels(sel, out);
            }
        }
    }
}

/// (a): the first of skip / include (document order) that is weakly re-declared and weakly applied
pub fn shadowed_builtin_directive(case: &Value) -> Option<String> {
    let weak = weak_builtin_redeclarations(case["schema"].as_str().unwrap_or(""));
    if weak.is_empty() {
        return None;
    }
    for doc in parse_docs(case) {
        let mut dirs: Vec<&Dir> = vec![];
        for def in &doc.defs {
            match def {
                ExecDef::Op(o) => {
                    dirs.extend(o.dirs.iter());
                    for v in &o.vars {
                        dirs.extend(v.dirs.iter());
                    }
                    dirs_in_sels(&o.sel, &mut dirs);
                }
                ExecDef::Frag(f) => {
                    dirs.extend(f.dirs.iter());
                    dirs_in_sels(&f.sel, &mut dirs);
                }
                ExecDef::Import(_) => {}
            }
        }
        if let Some(d) = dirs.iter().find(|d| weak.contains(&d.name) && weak_application(d)) {
            return Some(d.name.clone());
        }
    }
    None
}

/// fields of one scope: spreads and inline fragments flattened (type conditions ignored: an over-approximation)
fn flatten<'a>(sels: &'a [Sel], frags: &BTreeMap<&'a str, &'a FragDef>, seen: &mut Vec<&'a str>, out: &mut Vec<&'a Sel>) {
    for s in sels {
        match s {
            Sel::Field { .. } => out.push(s),
            Sel::Inline { sel, .. } => flatten(sel, frags, seen, out),
            Sel::Spread { name, .. } => {
                if !seen.contains(&name.as_str()) {
                    if let Some(f) = frags.get(name.as_str()) {
                        seen.push(name.as_str());
                        flatten(&f.sel, frags, seen, out);
                    }
                }
            }
        }
    }
}

fn clash_in<'a>(sels: Vec<&'a [Sel]>, frags: &BTreeMap<&'a str, &'a FragDef>, depth: usize) -> bool {
    if depth > 60 {
        return false;
    }
    let mut fields: Vec<&Sel> = vec![];
    for ss in sels {
        let mut seen = vec![];
        flatten(ss, frags, &mut seen, &mut fields);
    }
    let mut by_key: BTreeMap<&str, Vec<&Sel>> = BTreeMap::new();
    for f in fields {
        if let Some(k) = f.response_key() {
            by_key.entry(k).or_default().push(f);
        }
    }
    for (_, fs) in by_key {
        let subs: Vec<&[Sel]> = fs.iter().filter_map(|f| if let Sel::Field { sel: Some(ss), .. } = f { Some(ss.as_slice()) } else { None }).collect();
        if !subs.is_empty() && subs.len() < fs.len() {
            return true;
        }
        if !subs.is_empty() && clash_in(subs, frags, depth + 1) {
            return true;
        }
    }
    false
}

/// (b)
pub fn leaf_object_key_clash(case: &Value) -> bool {
    let docs = parse_docs(case);
    let mut frags: BTreeMap<&str, &FragDef> = BTreeMap::new();
    for d in &docs {
        for def in &d.defs {
            if let ExecDef::Frag(f) = def {
                frags.entry(f.name.as_str()).or_insert(f);
            }
        }
    }
    docs.iter().any(|d| {
        d.defs.iter().any(|def| match def {
            ExecDef::Op(o) => clash_in(vec![o.sel.as_slice()], &frags, 0),
            ExecDef::Frag(f) => clash_in(vec![f.sel.as_slice()], &frags, 0),
            ExecDef::Import(_) => false,
        })
    })
}

/// the input-class signature of a panic at `stage` on `case`, if one applies
pub fn class_signature(stage: &str, case: &Value) -> Option<String> {
    if !GENERATE_STAGES.contains(&stage) {
        return None;
    }
    if let Some(name) = shadowed_builtin_directive(case) {
        return Some(format!("panic:generate:shadowed-builtin-directive:{name}"));
    }
    if leaf_object_key_clash(case) {
        return Some("panic:generate:leaf-object-key-clash".into());
    }
    None
}
