//! C08 — the family "escape sequences at the boundaries of NEIGHBOURING string literals" and, generally, "state carried
//! from one token to the next".
//!
//! Validation passes over a document (escape validation, surrogate handling, position bookkeeping) walk the flattened
//! token stream; the builders work per token. Anything a pass remembers from one token and applies to the next one is
//! only visible when two neighbouring tokens carry the construct at the facing ends. The malformed stream replaced ONE
//! string by ONE hostile string; this family builds string literals from pieces
//!     quote · START piece · MIDDLE piece · END piece · quote
//! with every class of escape as a piece (`\uXXXX` below / inside / above the surrogate ranges, leading and trailing
//! surrogates alone, paired, reversed, `\u{…}` forms incl. surrogates, out of range, empty, over-long, the simple
//! escapes, unknown escapes, escapes cut by the closing quote, plain BMP / astral characters, nothing) and puts TWO OR
//! MORE such literals next to each other in one document: arguments, list items, object fields, variable defaults,
//! directive arguments, the #import path, descriptions followed by descriptions, default values, `@deprecated` reasons —
//! operation and type-system documents — separated by punctuation only, by `""`, by a block string, by a comment.
//!   `boundary_pairs`   every ordered pair (END of literal 1, START of literal 2) of the representative pieces,
//!                      in rotating templates and separators: exhaustive, minimal texts, run first;
//!   `random_strings`   random pieces in every slot of a random template;
//!   `inject_strings`   the string tokens of a VALID generated document (descriptions, arguments, defaults) are
//!                      replaced, two or more neighbours at a time, by such literals;
//!   `adjacent_repeat`  the same construct (a half-finished number, `$`, `@`, `...`, an open block string, a comment,
//!                      a leading surrogate …) glued to two neighbouring tokens of a valid document.
use nvh::Rng;

/// representative pieces: (class, text inside the quotes)
pub const PIECES: [(&str, &str); 30] = [
    ("none", ""),
    ("plain", "a"),
    ("plain-astral", "😀"),
    ("u4-bmp", "\\u0041"),
    ("u4-below-surrogates", "\\uD7FF"),
    ("u4-above-surrogates", "\\uE000"),
    ("u4-leading", "\\uD800"),
    ("u4-leading", "\\uD83D"),
    ("u4-leading", "\\uDBFF"),
    ("u4-trailing", "\\uDC00"),
    ("u4-trailing", "\\uDE00"),
    ("u4-trailing", "\\uDFFF"),
    ("u4-pair", "\\uD83D\\uDE00"),
    ("u4-reversed", "\\uDE00\\uD83D"),
    ("u4-two-leading", "\\uD83D\\uD83D"),
    ("brace-bmp", "\\u{41}"),
    ("brace-astral", "\\u{1F600}"),
    ("brace-leading", "\\u{D83D}"),
    ("brace-trailing", "\\u{DE00}"),
    ("brace-out-of-range", "\\u{110000}"),
    ("brace-over-long", "\\u{123456789}"),
    ("brace-empty", "\\u{}"),
    ("simple-escape", "\\n"),
    ("escaped-quote", "\\\""),
    ("escaped-backslash", "\\\\"),
    ("unknown-escape", "\\q"),
    ("cut-u4", "\\uD8"),
    ("cut-brace", "\\u{D83D"),
    ("cut-backslash-u", "\\u"),
    ("lone-backslash", "\\"),
];

/// the pieces whose pairing across a literal boundary is enumerated exhaustively
const BOUNDARY: [usize; 16] = [0, 1, 3, 6, 7, 9, 10, 12, 13, 16, 17, 18, 19, 22, 26, 29];

/// separators between the first two literals: (name, text) — `{L}` separators put a whole literal in between, hosted
/// by the template's item pattern (an argument, a list item, an object field, a variable definition)
const SEPARATORS: [(&str, &str); 6] = [("comma", ", "), ("nothing", " "), ("empty-string", "{L}\"\""), ("block-string", "{L}\"\"\"\\uD83D\"\"\""), ("comment", " # \"\\uD83D\n "), ("newline", "\n")];

/// templates: `{0}`, `{1}`, `{2}` are string-literal slots in document order; `{s}` a separator between the first two;
/// the second component hosts an intervening literal `{L}` at `{s}` ("" = the template has no `{s}`)
const OP_TEMPLATES: [(&str, &str); 8] = [
    ("{ f(x: {0}{s}y: {1}) }", ", e: {L}, "),
    ("{ f(x: [{0}{s}{1}, {2}]) }", ", {L}, "),
    ("{ f(x: {a: {0}{s}c: {1}}) }", ", e: {L}, "),
    ("query Q($v: String = {0}{s}$w: String = {1}) { f(x: $v, y: $w) }", ", $e: String = {L}, "),
    ("{ f(x: {0}) @d(a: {1}) g(y: {2}) }", ""),
    ("#import F from {0}\n{ f(x: {1}) ...F }", ""),
    ("query Q @d(a: {0}) { ...F @d(a: {1}) }\nfragment F on T @d(a: {2}) { f }", ""),
    ("{ a: f(x: {0}) b: f(x: {1}) c: f(x: {2}) }", ""),
];
const TS_TEMPLATES: [(&str, &str); 8] = [
    ("{0} type T { {1} f: Int }", ""),
    ("{0} type T { f({1} a: String = {2}): Int }", ""),
    ("type T { f(a: String = {0}{s}b: String = {1}): Int }", ", e: String = {L}, "),
    ("{0} enum E { {1} A {2} B }", ""),
    ("type T { f: Int @deprecated(reason: {0}{s}x: {1}) g: Int @deprecated(reason: {2}) }", ", e: {L}, "),
    ("directive @d(a: String = {0}) on FIELD {1} scalar X @specifiedBy(url: {2})", ""),
    ("{0} input I { {1} a: String = {2} }", ""),
    ("{0} schema { query: T } {1} extend type T @d(a: {2})", ""),
];

fn fill(template: &(&str, &str), lits: &[String], sep: &str) -> String {
    let sep_text = match sep.strip_prefix("{L}") {
        Some(l) => template.1.replace("{L}", l),
        None => sep.to_string(),
    };
    let mut t = template.0.replace("{s}", &sep_text);
    for (i, l) in lits.iter().enumerate() {
        t = t.replace(&format!("{{{i}}}"), l);
    }
    // unused slots
    for i in lits.len()..3 {
        t = t.replace(&format!("{{{i}}}"), "\"z\"");
    }
    t
}

fn lit(start: &str, mid: &str, end: &str) -> String {
    format!("\"{start}{mid}{end}\"")
}

/// every ordered pair (end of the first literal, start of the second literal)
pub fn boundary_pairs() -> Vec<(&'static str, String, String)> {
    let mut out = vec![];
    for (ei, &e) in BOUNDARY.iter().enumerate() {
        for (si, &s) in BOUNDARY.iter().enumerate() {
            let (_, te) = PIECES[e];
            let (_, ts) = PIECES[s];
            let p = ei * BOUNDARY.len() + si;
            for (kind, templates) in [("op", &OP_TEMPLATES), ("ts", &TS_TEMPLATES)] {
                // template and separator rotate independently of the pieces
                let template = &templates[(p * 5 + ei) % templates.len()];
                let (sn, sep) = SEPARATORS[(p * 7 + 3 * ei + si / 2) % SEPARATORS.len()];
                let sn = if template.1.is_empty() { "fixed" } else { sn };
                // only the facing ends carry the pieces: everything else in the document is harmless, so that nothing
                // but the boundary can be rejected
                let (l0, l1) = (lit(if p % 2 == 0 { "x" } else { "" }, "", te), lit(ts, "", if p % 3 == 0 { "y" } else { "" }));
                let text = fill(template, &[l0, l1], sep);
                out.push((kind, text, format!("string-boundary:{sn}")));
            }
        }
    }
    // the leading|trailing surrogate pairing with EVERY separator and EVERY template
    for (kind, templates) in [("op", &OP_TEMPLATES), ("ts", &TS_TEMPLATES)] {
        for template in templates.iter() {
            for (j, (sn, sep)) in SEPARATORS.iter().enumerate() {
                if template.1.is_empty() && j > 0 {
                    continue;
                }
                let sn = if template.1.is_empty() { "fixed" } else { sn };
                for (a, b) in [("\\uD83D", "\\uDE00"), ("\\uDE00", "\\uD83D"), ("\\uD83D", "\\uD83D"), ("\\u{D83D}", "\\uDE00"), ("\\uD83D", "\\u{DE00}")] {
                    let text = fill(template, &[lit("", "", a), lit(b, "", "")], sep);
                    out.push((kind, text, format!("string-boundary:surrogates:{sn}")));
                }
            }
        }
    }
    out
}

fn piece(rng: &mut Rng) -> &'static str {
    // surrogate pieces are over-weighted
    if rng.chance(1, 3) {
        PIECES[6 + rng.below(9)].1
    } else {
        PIECES[rng.below(PIECES.len())].1
    }
}

pub fn random_literal(rng: &mut Rng) -> String {
    match rng.below(12) {
        0 => "\"\"".to_string(),
        1 => format!("\"\"\"{}{}\"\"\"", piece(rng), piece(rng)),
        _ => lit(piece(rng), if rng.coin() { piece(rng) } else { "" }, piece(rng)),
    }
}

pub fn random_strings(rng: &mut Rng) -> (&'static str, String, String) {
    let (kind, templates) = if rng.coin() { ("op", &OP_TEMPLATES) } else { ("ts", &TS_TEMPLATES) };
    let template = &templates[rng.below(templates.len())];
    let lits: Vec<String> = (0..3).map(|_| random_literal(rng)).collect();
    let (sn, sep) = SEPARATORS[rng.below(SEPARATORS.len())];
    (kind, fill(template, &lits, sep), format!("string-random:{}", if template.1.is_empty() { "fixed" } else { sn }))
}

/// byte spans of the string literals of a text (normal, empty and block strings; comments skipped)
pub fn string_spans(text: &str) -> Vec<(usize, usize)> {
    let b = text.as_bytes();
    let mut out = vec![];
    let mut i = 0;
    while i < b.len() {
        match b[i] {
            b'#' => {
                while i < b.len() && b[i] != b'\n' {
                    i += 1;
                }
            }
            b'"' => {
                let start = i;
                if b[i..].starts_with(b"\"\"\"") {
                    i += 3;
                    while i < b.len() && !b[i..].starts_with(b"\"\"\"") {
                        i += if b[i..].starts_with(b"\\\"\"\"") { 4 } else { 1 };
                    }
                    i = (i + 3).min(b.len());
                } else {
                    i += 1;
                    while i < b.len() && b[i] != b'"' && b[i] != b'\n' {
                        i += if b[i] == b'\\' { 2 } else { 1 };
                    }
                    i = (i + 1).min(b.len());
                }
                out.push((start, i));
            }
            _ => i += 1,
        }
    }
    out
}

/// replace two or more NEIGHBOURING string tokens of a valid document by boundary literals
pub fn inject_strings(rng: &mut Rng, text: &str) -> Option<String> {
    let spans = string_spans(text);
    if spans.len() < 2 {
        return None;
    }
    let n = 2 + rng.below((spans.len() - 1).min(3));
    let first = rng.below(spans.len() - n + 1);
    let mut out = String::new();
    let mut at = 0;
    // the facing ends of consecutive literals are drawn together half of the time (leading | trailing, …)
    let mut carry: Option<&'static str> = None;
    for (k, (s, e)) in spans.iter().enumerate() {
        if k < first || k >= first + n || !text.is_char_boundary(*s) || !text.is_char_boundary(*e) {
            continue;
        }
        out.push_str(&text[at..*s]);
        let start = carry.take().unwrap_or_else(|| piece(rng));
        let end = piece(rng);
        if rng.coin() {
            carry = Some(match end {
                "\\uD800" | "\\uD83D" | "\\uDBFF" => "\\uDE00",
                _ => end,
            });
        }
        out.push_str(&lit(start, if rng.chance(1, 3) { "m" } else { "" }, end));
        at = *e;
    }
    out.push_str(&text[at..]);
    Some(out)
}

const CONSTRUCTS: [&str; 18] = ["\"\\uD83D\"", "\"\\uDE00\"", "\"\"\"", "\"", "1e", "1.", "-", "0x", "$", "@", "...", "..", "#c\n", "# \"\n", "&", "|", "!", "\\"];

/// the same construct glued to two neighbouring tokens of a valid document
pub fn adjacent_repeat(rng: &mut Rng, text: &str, lex: &dyn Fn(&str) -> Vec<(String, bool)>) -> Option<String> {
    let mut toks = lex(text);
    let sig: Vec<usize> = toks.iter().enumerate().filter(|(_, t)| !t.1).map(|(i, _)| i).collect();
    if sig.len() < 2 {
        return None;
    }
    let k = rng.below(sig.len() - 1);
    let c = CONSTRUCTS[rng.below(CONSTRUCTS.len())];
    let reps = 2 + rng.below(2);
    for r in 0..reps {
        let Some(&i) = sig.get(k + r) else { break };
        toks[i].0 = match rng.below(3) {
            0 => format!("{c}{}", toks[i].0),
            1 => format!("{}{c}", toks[i].0),
            _ => c.to_string(),
        };
    }
    Some(toks.iter().map(|t| t.0.as_str()).collect())
}
