//! `generate` histories: the CLI must be a function of the project's CURRENT state, not of what was generated before.
//!
//! One history = 2–4 runs of the real `nitrogql-cli --output-format json generate` in ONE project directory with edits in
//! between (config options changed / added / removed, config re-rendered in another syntax, operation files edited, added,
//! removed, renamed, schema edited, mtimes of sources and outputs moved backwards / forwards). After the LAST run
//!   * every operation file of the final state is judged by the property's wording: the declaration file that is on disk for it
//!     (path given by the final `generate.mode`) against the module the loader produces for the final config text
//!     (signatures `history:<check>`, the checks of `Ctx::judge`);
//!   * the directory is wiped, the final state is written into the SAME path and `generate` runs once (the fresh run): every file
//!     the fresh run emits must exist byte-for-byte after the history (`history:stale-output:<kind>`), the exit status must agree
//!     (`history:exit-status-differs`), and a file the last run of the history LISTS as written must be one the fresh run writes
//!     (`history:written-output-not-in-fresh`).
//! Outputs left over from earlier states that the last run does not list (declaration files of removed / renamed operation files,
//! declaration files under the extension of a previous `generate.mode`) are tolerated and counted: the unchanged CLI never deletes
//! anything, and such a file is not "the generated declaration file" of any operation file under the final configuration.
use super::{Case, Ctx, FileSpec, Inter, Rng};
use serde_json::{json, Value};
use std::collections::BTreeMap;
use std::path::Path;
use std::time::{Duration, SystemTime};

#[derive(Clone, Debug)]
pub struct HRoot {
    pub dir: String,
    pub stem: String,
    pub case: Case,
}

#[derive(Clone, Debug)]
pub struct HState {
    pub cfg: Vec<(String, Value)>,
    pub config_text: String,
    pub schema_extra: String,
    pub roots: Vec<HRoot>,
}

#[derive(Clone, Debug)]
pub struct HStep {
    pub label: String,
    pub state: HState,
    /// (path relative to the project directory, seconds relative to now) applied after the edit, before the run
    pub touch: Vec<(String, i64)>,
}

pub fn decl_ext(cfg: &[(String, Value)]) -> &'static str {
    match cfg.iter().find(|(k, _)| k == "mode").and_then(|(_, v)| v.as_str()) {
        Some("with-loader-ts-4.0") => "graphql.d.ts",
        Some("standalone-ts-4.0") => "graphql.ts",
        _ => "d.graphql.ts",
    }
}

impl HState {
    fn config_name(&self) -> &'static str {
        if self.config_text.trim_start().starts_with('{') { "graphql.config.json" } else { "graphql.config.yaml" }
    }
    /// the source files of this state: relative path → text
    fn sources(&self) -> BTreeMap<String, String> {
        let mut m = BTreeMap::new();
        m.insert(self.config_name().to_string(), self.config_text.clone());
        m.insert("sdl/schema.graphql".to_string(), format!("{}{}", super::SCHEMA_SDL, self.schema_extra));
        for r in &self.roots {
            m.insert(format!("{}/{}.graphql", r.dir, r.stem), r.case.main.clone());
            for (p, t) in &r.case.imports {
                let name = Path::new(p).file_name().unwrap().to_string_lossy().to_string();
                m.insert(format!("{}/{name}", r.dir), t.clone());
            }
        }
        m
    }
    fn to_json(&self) -> Value {
        json!({
            "cfg": self.cfg.iter().map(|(k, v)| json!([k, v])).collect::<Vec<_>>(),
            "config_text": self.config_text,
            "schema_extra": self.schema_extra,
            "roots": self.roots.iter().map(|r| json!({"dir": r.dir, "stem": r.stem, "case": r.case.to_json()})).collect::<Vec<_>>(),
        })
    }
    fn from_json(v: &Value) -> HState {
        HState {
            cfg: v["cfg"].as_array().map(|a| a.iter().map(|p| (p[0].as_str().unwrap_or("").to_string(), p[1].clone())).collect()).unwrap_or_default(),
            config_text: v["config_text"].as_str().unwrap_or("").to_string(),
            schema_extra: v["schema_extra"].as_str().unwrap_or("").to_string(),
            roots: v["roots"].as_array().map(|a| a.iter().map(|r| HRoot {
                dir: r["dir"].as_str().unwrap_or("").to_string(),
                stem: r["stem"].as_str().unwrap_or("").to_string(),
                case: Case::from_json(&r["case"]),
            }).collect()).unwrap_or_default(),
        }
    }
    /// give every root the state's config (the config is per project)
    fn set_config(&mut self, cfg: Vec<(String, Value)>, rng: &mut Rng) {
        // operation files live one directory down
        self.config_text = super::render_config(&cfg, rng, true).replace("*.graphql", "r*/*.graphql");
        self.cfg = cfg;
        for r in &mut self.roots {
            r.case.cfg = self.cfg.clone();
            r.case.config_text = self.config_text.clone();
        }
    }
}

pub fn history_json(steps: &[HStep]) -> Value {
    json!({
        "kind": "history",
        "steps": steps.iter().map(|s| json!({"label": s.label, "state": s.state.to_json(), "touch": s.touch.iter().map(|(p, o)| json!([p, o])).collect::<Vec<_>>()})).collect::<Vec<_>>(),
    })
}
pub fn history_from_json(v: &Value) -> Vec<HStep> {
    v["steps"].as_array().map(|a| a.iter().map(|s| HStep {
        label: s["label"].as_str().unwrap_or("").to_string(),
        state: HState::from_json(&s["state"]),
        touch: s["touch"].as_array().map(|t| t.iter().map(|x| (x[0].as_str().unwrap_or("").to_string(), x[1].as_i64().unwrap_or(0))).collect()).unwrap_or_default(),
    }).collect()).unwrap_or_default()
}

// ------------------------------------------------------------------------------------------------ generation

fn new_root(k: usize, spec: &FileSpec, st: &HState, rng: &mut Rng) -> HRoot {
    let (main, imports, defs) = super::render_file(spec, rng);
    HRoot {
        dir: format!("r{k}"),
        stem: ["main", "main", "query", "ops"][rng.below(4)].to_string(),
        case: Case { cfg: st.cfg.clone(), config_text: st.config_text.clone(), main, imports, defs, cli: false },
    }
}

fn some_file(k: usize, rng: &mut Rng) -> FileSpec {
    if rng.chance(2, 3) { super::distinct_file(k, rng) } else { super::random_file(rng) }
}

const KEY_VALUES: &[(&str, [&str; 2])] = &[
    ("defaultExportForOperation", ["false", "true"]),
    ("capitalizeOperationNames", ["false", "true"]),
    ("operationResultType", ["true", "false"]),
    ("variablesType", ["true", "false"]),
    ("queryVariableSuffix", ["Document", "Q"]),
    ("mutationVariableSuffix", ["Document", "M"]),
    ("subscriptionVariableSuffix", ["Document", "S"]),
    ("fragmentVariableSuffix", ["Fragment", "F"]),
    ("operationResultTypeSuffix", ["Data", "R"]),
    ("variablesTypeSuffix", ["Vars", "V"]),
    ("fragmentTypeSuffix", ["Type", "T"]),
    ("mode", ["with-loader-ts-4.0", "standalone-ts-4.0"]),
];

fn key_value(k: usize, which: usize) -> Value {
    let v = KEY_VALUES[k].1[which];
    match v {
        "true" => json!(true),
        "false" => json!(false),
        _ => json!(v),
    }
}

fn with_key(cfg: &[(String, Value)], key: &str, v: Option<Value>) -> Vec<(String, Value)> {
    let mut out: Vec<(String, Value)> = cfg.iter().filter(|(k, _)| k != key).cloned().collect();
    if let Some(v) = v {
        out.push((key.to_string(), v));
    }
    out
}

fn touch_targets(st: &HState) -> Vec<String> {
    let mut v: Vec<String> = st.sources().keys().cloned().collect();
    v.push("sdl/schema.d.ts".into());
    for r in &st.roots {
        for ext in ["d.graphql.ts", "graphql.d.ts", "graphql.ts"] {
            v.push(format!("{}/{}.{ext}", r.dir, r.stem));
            v.push(format!("{}/{}.{ext}.map", r.dir, r.stem));
        }
    }
    v
}

fn random_touch(st: &HState, rng: &mut Rng) -> Vec<(String, i64)> {
    let targets = touch_targets(st);
    (0..1 + rng.below(2)).map(|_| (targets[rng.below(targets.len())].clone(), [-86400, -3600, -5, 5, 3600, 86400][rng.below(6)])).collect()
}

/// one random edit of the project
fn random_edit(prev: &HState, next_dir: &mut usize, rng: &mut Rng) -> (String, HState) {
    let mut st = prev.clone();
    match rng.below(12) {
        0 | 1 | 2 => {
            // one name/export/mode key: set, change or remove
            let k = rng.below(KEY_VALUES.len());
            let key = KEY_VALUES[k].0;
            let cur = st.cfg.iter().find(|(kk, _)| kk == key).map(|(_, v)| v.clone());
            let new = match &cur {
                None => Some(key_value(k, rng.below(2))),
                Some(c) => {
                    if rng.chance(1, 3) { None } else if *c == key_value(k, 0) { Some(key_value(k, 1)) } else { Some(key_value(k, 0)) }
                }
            };
            let label = format!("config: {key} {} -> {}", cur.map(|v| v.to_string()).unwrap_or("(absent)".into()), new.as_ref().map(|v| v.to_string()).unwrap_or("(absent)".into()));
            let cfg = with_key(&st.cfg, key, new);
            st.set_config(cfg, rng);
            (label, st)
        }
        3 => {
            let cfg = super::random_cfg(rng);
            st.set_config(cfg, rng);
            ("config: all name/export/mode options redrawn".into(), st)
        }
        4 => {
            let cfg = st.cfg.clone();
            st.set_config(cfg, rng);
            ("config: same options, file rewritten (other syntax / key order / file name)".into(), st)
        }
        5 | 6 => {
            let i = rng.below(st.roots.len());
            let k: usize = st.roots[i].dir[1..].parse().unwrap_or(0);
            let (dir, stem) = (st.roots[i].dir.clone(), st.roots[i].stem.clone());
            let mut r = new_root(k, &some_file(k, rng), &st, rng);
            r.dir = dir;
            r.stem = stem;
            let label = format!("operation file {}/{}.graphql (and its imported files) edited", r.dir, r.stem);
            st.roots[i] = r;
            (label, st)
        }
        7 => {
            let k = *next_dir;
            *next_dir += 1;
            let r = new_root(k, &some_file(k, rng), &st, rng);
            let label = format!("operation file {}/{}.graphql added", r.dir, r.stem);
            st.roots.push(r);
            (label, st)
        }
        8 if st.roots.len() > 1 => {
            let i = rng.below(st.roots.len());
            let r = st.roots.remove(i);
            (format!("operation file {}/{}.graphql (and its imported files) removed", r.dir, r.stem), st)
        }
        9 => {
            let i = rng.below(st.roots.len());
            let old = format!("{}/{}.graphql", st.roots[i].dir, st.roots[i].stem);
            if rng.coin() {
                st.roots[i].stem = ["renamed", "main", "query2"][rng.below(3)].to_string();
            } else {
                st.roots[i].dir = format!("r{}", *next_dir);
                *next_dir += 1;
            }
            (format!("operation file {old} renamed to {}/{}.graphql", st.roots[i].dir, st.roots[i].stem), st)
        }
        10 => {
            st.schema_extra = if st.schema_extra.is_empty() { format!("type Extra{} {{ x: Int }}\n", rng.below(3)) } else { String::new() };
            ("schema edited".into(), st)
        }
        _ => ("nothing edited".into(), st),
    }
}

fn initial_state(nroots: usize, cfg: Vec<(String, Value)>, rng: &mut Rng) -> HState {
    let mut st = HState { cfg: vec![], config_text: String::new(), schema_extra: String::new(), roots: vec![] };
    st.set_config(cfg, rng);
    for k in 0..nroots {
        let r = new_root(k, &some_file(k, rng), &st, rng);
        st.roots.push(r);
    }
    st
}

// ------------------------------------------------------------------------------------------------ execution

struct RunResult {
    code: Option<i32>,
    /// paths (relative to the project directory) the run lists as written
    written: Vec<String>,
    stderr: String,
}

fn run_generate(cli: &str, dir: &Path) -> RunResult {
    match std::process::Command::new(cli).args(["--output-format", "json", "generate"]).current_dir(dir).output() {
        Ok(out) => {
            let stdout = String::from_utf8_lossy(&out.stdout);
            let mut written = vec![];
            for line in stdout.lines() {
                if let Ok(v) = serde_json::from_str::<Value>(line) {
                    for f in v["generate"]["files"].as_array().cloned().unwrap_or_default() {
                        if let Some(p) = f["path"].as_str() {
                            let rel = Path::new(p).strip_prefix(dir).map(|x| x.to_string_lossy().to_string()).unwrap_or(p.to_string());
                            written.push(rel);
                        }
                    }
                }
            }
            RunResult { code: out.status.code(), written, stderr: String::from_utf8_lossy(&out.stderr).chars().take(300).collect() }
        }
        Err(e) => RunResult { code: None, written: vec![], stderr: format!("cannot run cli: {e}") },
    }
}

/// edit the directory from `prev` sources to the sources of `st`: unchanged files are not rewritten (their mtime stays)
fn apply(dir: &Path, prev: &BTreeMap<String, String>, st: &HState) -> BTreeMap<String, String> {
    let next = st.sources();
    for p in prev.keys() {
        if !next.contains_key(p) {
            let _ = std::fs::remove_file(dir.join(p));
        }
    }
    for (p, t) in &next {
        if prev.get(p) != Some(t) {
            let full = dir.join(p);
            if let Some(parent) = full.parent() {
                let _ = std::fs::create_dir_all(parent);
            }
            std::fs::write(&full, t).expect("write source file");
        }
    }
    next
}

fn touch(dir: &Path, rel: &str, offset: i64) -> bool {
    let now = SystemTime::now();
    let t = if offset >= 0 { now + Duration::from_secs(offset as u64) } else { now - Duration::from_secs((-offset) as u64) };
    match std::fs::File::options().write(true).open(dir.join(rel)) {
        Ok(f) => f.set_modified(t).is_ok(),
        Err(_) => false,
    }
}

/// every file under `dir` that is not a source: relative path → bytes
fn snapshot(dir: &Path, sources: &BTreeMap<String, String>) -> BTreeMap<String, Vec<u8>> {
    fn walk(root: &Path, d: &Path, out: &mut BTreeMap<String, Vec<u8>>) {
        let Ok(rd) = std::fs::read_dir(d) else { return };
        for e in rd.flatten() {
            let p = e.path();
            if p.is_dir() {
                walk(root, &p, out);
            } else if let Ok(b) = std::fs::read(&p) {
                out.insert(p.strip_prefix(root).unwrap().to_string_lossy().to_string(), b);
            }
        }
    }
    let mut out = BTreeMap::new();
    walk(dir, dir, &mut out);
    out.retain(|k, _| !sources.contains_key(k));
    out
}

fn output_kind(rel: &str, st: &HState) -> &'static str {
    let ext = decl_ext(&st.cfg);
    if rel == "sdl/schema.d.ts" {
        return "schema-types";
    }
    if rel == "sdl/schema.d.ts.map" {
        return "schema-types-map";
    }
    for r in &st.roots {
        if rel == format!("{}/{}.{ext}", r.dir, r.stem) {
            return "operation-declaration";
        }
        if rel == format!("{}/{}.{ext}.map", r.dir, r.stem) {
            return "operation-declaration-map";
        }
    }
    if rel.ends_with(".map") { "imported-file-declaration-map" } else { "imported-file-declaration" }
}

impl<'a> Ctx<'a> {
    pub fn run_history(&mut self, steps: &[HStep], family: &str) {
        if self.cli.is_empty() || steps.is_empty() {
            return;
        }
        let cli = self.cli.clone();
        let dir = self.scratch.join("c14-history");
        let _ = std::fs::remove_dir_all(&dir);
        std::fs::create_dir_all(&dir).expect("scratch dir");
        let hj = history_json(steps);
        self.rep.count(&format!("history:histories:{family}"));
        self.rep.count(&format!("history:runs-per-history={}", steps.len()));
        let mut sources = BTreeMap::new();
        let mut trace: Vec<String> = vec![];
        let mut last = RunResult { code: None, written: vec![], stderr: String::new() };
        for (i, s) in steps.iter().enumerate() {
            sources = apply(&dir, &sources, &s.state);
            let mut t = vec![];
            for (p, o) in &s.touch {
                if touch(&dir, p, *o) {
                    t.push(format!("mtime of {p} set to now{o:+}s"));
                    self.rep.count(if *o >= 0 { "history:edit:mtime-forwards" } else { "history:edit:mtime-backwards" });
                }
            }
            last = run_generate(&cli, &dir);
            self.rep.count(&format!("history:run:{}", if last.code == Some(0) { "generate-ok" } else { "generate-fails" }));
            if i > 0 {
                self.rep.count(&format!("history:edit:{}", s.label.split(|c: char| c == ':' || c == ' ').next().unwrap_or("")));
            }
            trace.push(format!("[{}] {}{} ; generate -> exit {:?}, lists {} files", i + 1, s.label, if t.is_empty() { String::new() } else { format!(" ; {}", t.join(", ")) }, last.code, last.written.len()));
        }
        let fin = &steps.last().unwrap().state;
        let after = snapshot(&dir, &sources);
        // the fresh run: the same path, only the final state
        let _ = std::fs::remove_dir_all(&dir);
        std::fs::create_dir_all(&dir).expect("scratch dir");
        let fresh_sources = apply(&dir, &BTreeMap::new(), fin);
        let fresh_run = run_generate(&cli, &dir);
        let fresh = snapshot(&dir, &fresh_sources);
        trace.push(format!("fresh directory with the final state: generate -> exit {:?}, lists {} files", fresh_run.code, fresh_run.written.len()));
        self.rep.nontrivial(&hj.to_string());
        let fails_before = self.fail_total();

        // (1) the property's wording, for every operation file of the final state
        if fresh_run.code == Some(0) {
            let ext = decl_ext(&fin.cfg);
            let reqs: Vec<super::Sexp> = fin.roots.iter().map(|r| r.case.request()).collect();
            let answers = self.drv.batch(&reqs);
            let cases: Vec<Case> = fin.roots.iter().map(|r| r.case.clone()).collect();
            let loaders = self.loaders(&cases);
            for (k, ((r, ans), pre)) in fin.roots.iter().zip(answers.iter()).zip(loaders.iter()).enumerate() {
                let rel = format!("{}/{}.{ext}", r.dir, r.stem);
                let Some(bytes) = after.get(&rel) else { continue }; // reported below (missing output)
                let inter = Inter {
                    loader: Err(String::new()),
                    sequential: Err(String::new()),
                    session: hj.clone(),
                    root: k,
                    path: format!("{}/{}.graphql", r.dir, r.stem),
                    trace: trace.clone(),
                    history_decl: Some(String::from_utf8_lossy(bytes).to_string()),
                };
                self.judge(&r.case, ans, Some(&inter), pre);
            }
        }
        // (2) the last run against the fresh run
        if self.fail_total() != fails_before {
            return;
        }
        let tail = format!("; history: {}", trace.join(" | "));
        if last.code != fresh_run.code {
            self.rep.fail("O", "history:exit-status-differs", &format!("the last generate of the history exits with {:?} ({}), generate in a fresh directory with the same final state exits with {:?} ({}){tail}",
                last.code, last.stderr.replace('\n', " "), fresh_run.code, fresh_run.stderr.replace('\n', " ")), hj.clone());
            return;
        }
        self.rep.o_cases += 1;
        for (rel, bytes) in &fresh {
            match after.get(rel) {
                Some(b) if b == bytes => self.rep.count("history:output:identical-to-fresh"),
                Some(_) => {
                    let kind = output_kind(rel, fin);
                    self.rep.fail("O", &format!("history:stale-output:{kind}"), &format!("{rel} differs after the history from what generate writes in a fresh directory with the same final state{tail}"), hj.clone());
                }
                None => {
                    let kind = output_kind(rel, fin);
                    self.rep.fail("O", &format!("history:stale-output:{kind}"), &format!("{rel} does not exist after the history; generate writes it in a fresh directory with the same final state{tail}"), hj.clone());
                }
            }
        }
        for rel in &last.written {
            if !fresh.contains_key(rel) {
                self.rep.fail("O", "history:written-output-not-in-fresh", &format!("the last generate lists {rel} as written; generate in a fresh directory with the same final state does not write it{tail}"), hj.clone());
            }
        }
        let mut lw = last.written.clone();
        let mut fw = fresh_run.written.clone();
        lw.sort();
        fw.sort();
        self.rep.count(if lw == fw { "history:written-list:same-as-fresh" } else { "history:written-list:differs-from-fresh(not judged)" });
        for rel in after.keys() {
            if !fresh.contains_key(rel) && !last.written.contains(rel) {
                self.rep.count("history:leftover-output-of-an-earlier-state(tolerated: not listed by the last run, absent in fresh)");
            }
        }
    }

    pub fn history_stream(&mut self, rng: &mut Rng, thorough: bool) {
        if self.cli.is_empty() {
            self.rep.count("history:skipped(no cli binary)");
            return;
        }
        let pick = |q: usize, t: usize| if thorough { t } else { q };
        // (a) every name/export/mode key × {absent → value, value → other value, value → absent}, nothing else edited
        for round in 0..pick(1, 4) {
            for k in 0..KEY_VALUES.len() {
                let key = KEY_VALUES[k].0;
                for tr in 0..3 {
                    let base: Vec<(String, Value)> = if round == 0 { vec![] } else { super::random_cfg(rng).into_iter().filter(|(kk, _)| kk != key).collect() };
                    let (from, to) = match tr {
                        0 => (None, Some(key_value(k, 0))),
                        1 => (Some(key_value(k, 0)), Some(key_value(k, 1))),
                        _ => (Some(key_value(k, 0)), None),
                    };
                    let s0 = initial_state(1 + (k + tr + round) % 2, with_key(&base, key, from.clone()), rng);
                    let mut s1 = s0.clone();
                    s1.set_config(with_key(&base, key, to.clone()), rng);
                    let label = format!("config: {key} {} -> {}", from.map(|v| v.to_string()).unwrap_or("(absent)".into()), to.map(|v| v.to_string()).unwrap_or("(absent)".into()));
                    let steps = vec![HStep { label: "initial state".into(), state: s0, touch: vec![] }, HStep { label, state: s1, touch: vec![] }];
                    self.run_history(&steps, "one-config-key-changed");
                }
            }
        }
        // (b) 2–4 runs, a random edit (and sometimes moved mtimes) before each further run
        for _ in 0..pick(40, 800) {
            let mut next_dir = 1 + rng.below(3);
            let s0 = initial_state(next_dir, super::random_cfg(rng), rng);
            let mut steps = vec![HStep { label: "initial state".into(), state: s0, touch: vec![] }];
            for _ in 0..1 + rng.below(3) {
                let prev = &steps.last().unwrap().state;
                let (label, st) = random_edit(prev, &mut next_dir, rng);
                let touch = if rng.chance(1, 3) { random_touch(&st, rng) } else { vec![] };
                steps.push(HStep { label, state: st, touch });
            }
            self.run_history(&steps, "random-edits");
        }
    }
}
