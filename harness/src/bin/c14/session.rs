//! Interleaved loader sessions: several module builds of one project share ONE loader instance, the way a bundler
//! drives `packages/graphql-loader/lib/index.mjs` (a build is suspended at every `await readFile(..)` of an imported
//! file while other builds start, continue, finish and are freed).
//!
//! `c14 --session-worker` (child process): a panic inside an `extern "C"` function aborts the process, so the real
//! ABI is driven in a child; the loader's state is thread-local, so one fresh thread = one fresh loader instance.
//!
//! Protocol (one JSON line each way):
//!   request  `{"config_text", "tasks":[{"path","text"}…], "files":{path:text…}, "sessions":[{"schedule":[k|"cfg"…],
//!             "abandon":[null|n…], "reverse_loads":bool}…]}`
//!   answer   one line per session, flushed: `{"out":[["js",text]|["err",msg]|["abandoned"]|["="]…], "live_max":n,
//!             "reissue_window":bool, "trace":[…]}`; `["="]` = identical to the same task's result in session 0
//!            (session 0 is by convention the fresh one-at-a-time session).
//!   request  `{"singles":[{"config_text","main","imports":[[path,text]…]}…]}` (the one-at-a-time stream: `load_config`, one build,
//!             all on one loader instance) → one line per case, flushed: `{"js":text}` | `{"err":msg}`
//!   a line `p {"call","msg"}` is written by the panic hook before the process aborts: the ABI call that was running.
//! A schedule item `k` means "perform the next ABI call of the build of task k" (the per-build call sequence is the one of
//! index.mjs/task.ts: initiate_task, get_required_files, load_file per required file, get_required_files …, emit_js,
//! free_task); `"cfg"` = `load_config` (index.mjs loads the config after the first `initiateTask`). When the schedule is
//! exhausted the remaining builds are completed one after the other. `abandon[k] = n`: the build of task k is given up
//! after n calls (`free_task` without `emit_js`).
use serde_json::{json, Value};
use std::collections::BTreeMap;
use std::io::{BufRead, BufReader, Write};
use std::process::{Child, ChildStdin, ChildStdout, Command, Stdio};

// ------------------------------------------------------------------------------------------------ worker side

const CALLS: [&str; 9] = ["(no ABI call)", "load_config", "initiate_task", "get_required_files", "load_file", "emit_js", "free_task", "get_result", "alloc/free_string"];
static CURRENT: std::sync::atomic::AtomicUsize = std::sync::atomic::AtomicUsize::new(0);

/// remember which ABI call is about to run (reported by the panic hook of the worker)
pub fn mark(call: &str) {
    CURRENT.store(CALLS.iter().position(|c| *c == call).unwrap_or(0), std::sync::atomic::Ordering::Relaxed);
}

#[derive(Clone, Debug, PartialEq)]
pub enum Out {
    Js(String),
    Err(String),
    Abandoned,
}

#[derive(PartialEq)]
enum Phase {
    NotStarted,
    NeedStatus,
    Pending,
    Ready,
    Emitted,
    Done,
}

struct TaskState {
    phase: Phase,
    id: usize,
    pending: Vec<String>,
    calls: usize,
    rounds: usize,
    out: Option<Out>,
    /// another task was freed while this one was live
    saw_free: bool,
}

struct Session<'a> {
    config_text: &'a str,
    tasks: &'a [(String, String)],
    files: &'a BTreeMap<String, String>,
    abandon: Vec<Option<usize>>,
    reverse_loads: bool,
    st: Vec<TaskState>,
    cfg_loaded: bool,
    trace: Vec<String>,
    live: Vec<usize>,
    live_max: usize,
    reissue_window: bool,
}

fn short(s: &str) -> String {
    let mut n = s.len().min(120);
    while !s.is_char_boundary(n) {
        n -= 1;
    }
    s[..n].to_string()
}

impl<'a> Session<'a> {
    fn load_config(&mut self) {
        mark("load_config");
        let ok = super::abi_call_str(self.config_text, |p, n| loader_native::load_config(p, n));
        mark("");
        self.cfg_loaded = true;
        self.trace.push(format!("load_config -> {ok}"));
    }
    fn finish(&mut self, k: usize, out: Out) {
        self.st[k].out = Some(out);
        self.st[k].phase = Phase::Done;
    }
    fn freed(&mut self, k: usize) {
        self.live.retain(|x| *x != k);
        for l in self.live.clone() {
            self.st[l].saw_free = true;
        }
    }
    fn step(&mut self, k: usize) {
        if k >= self.st.len() || self.st[k].phase == Phase::Done {
            return;
        }
        let id = self.st[k].id;
        if let Some(n) = self.abandon.get(k).copied().flatten() {
            if self.st[k].calls >= n && self.st[k].phase != Phase::NotStarted && self.st[k].phase != Phase::Emitted {
                mark("free_task");
                loader_native::free_task(id);
                mark("");
                self.trace.push(format!("t{k}: free_task({id}) [build given up]"));
                self.freed(k);
                self.finish(k, Out::Abandoned);
                return;
            }
        }
        self.st[k].calls += 1;
        match self.st[k].phase {
            Phase::NotStarted => {
                let (path, text) = &self.tasks[k];
                mark("initiate_task");
                let id = super::abi_call_str(path, |fp, fl| super::abi_call_str(text, |sp, sl| loader_native::initiate_task(fp, fl, sp, sl)));
                if id == 0 {
                    let e = super::abi_result();
                    self.trace.push(format!("t{k}: initiate_task({path}) -> 0 ({})", short(&e)));
                    self.finish(k, Out::Err(format!("initiate_task failed: {e}")));
                } else {
                    self.trace.push(format!("t{k}: initiate_task({path}) -> {id}"));
                    self.st[k].id = id;
                    self.st[k].phase = Phase::NeedStatus;
                    if self.live.iter().any(|l| self.st[*l].saw_free) {
                        self.reissue_window = true;
                    }
                    self.live.push(k);
                    self.live_max = self.live_max.max(self.live.len());
                }
            }
            Phase::NeedStatus => {
                self.st[k].rounds += 1;
                if self.st[k].rounds > 16 {
                    self.finish(k, Out::Err("too many rounds of required files".into()));
                    return;
                }
                mark("get_required_files");
                if !loader_native::get_required_files(id) {
                    let e = super::abi_result();
                    self.trace.push(format!("t{k}: get_required_files({id}) -> false ({})", short(&e)));
                    // index.mjs: the error propagates, the task is never freed
                    self.finish(k, Out::Err(format!("get_required_files failed: {e}")));
                    return;
                }
                let mut req: Vec<String> = super::abi_result().split('\n').filter(|s| !s.is_empty()).map(|s| s.to_string()).collect();
                self.trace.push(format!("t{k}: get_required_files({id}) -> {req:?}"));
                if req.is_empty() {
                    self.st[k].phase = Phase::Ready;
                } else {
                    if !self.reverse_loads {
                        req.reverse(); // `pending` is consumed from the back
                    }
                    self.st[k].pending = req;
                    self.st[k].phase = Phase::Pending;
                }
            }
            Phase::Pending => {
                let Some(path) = self.st[k].pending.pop() else {
                    self.st[k].phase = Phase::NeedStatus;
                    return;
                };
                match self.files.get(&path) {
                    Some(text) => {
                        mark("load_file");
                        let ok = super::abi_call_str(&path, |fp, fl| super::abi_call_str(text, |sp, sl| loader_native::load_file(id, fp, fl, sp, sl)));
                        if !ok {
                            let e = super::abi_result();
                            self.trace.push(format!("t{k}: load_file({id}, {path}) -> false ({})", short(&e)));
                            self.finish(k, Out::Err(format!("load_file failed: {e}")));
                            return;
                        }
                        self.trace.push(format!("t{k}: load_file({id}, {path}) -> true"));
                    }
                    None => {
                        // readFile rejects: the build fails, the task is never freed
                        self.trace.push(format!("t{k}: the loader requires {path}, which does not exist"));
                        self.finish(k, Out::Err(format!("the loader requires a file that does not exist: {path}")));
                        return;
                    }
                }
                if self.st[k].pending.is_empty() {
                    self.st[k].phase = Phase::NeedStatus;
                }
            }
            Phase::Ready => {
                if !self.cfg_loaded {
                    self.load_config();
                }
                mark("emit_js");
                if loader_native::emit_js(id) {
                    let js = super::abi_result();
                    self.trace.push(format!("t{k}: emit_js({id}) -> true ({} bytes)", js.len()));
                    self.st[k].out = Some(Out::Js(js));
                    self.st[k].phase = Phase::Emitted;
                } else {
                    let e = super::abi_result();
                    self.trace.push(format!("t{k}: emit_js({id}) -> false ({})", short(&e)));
                    self.finish(k, Out::Err(format!("emit_js failed: {e}")));
                }
            }
            Phase::Emitted => {
                mark("free_task");
                loader_native::free_task(id);
                self.trace.push(format!("t{k}: free_task({id})"));
                self.freed(k);
                self.st[k].phase = Phase::Done;
            }
            Phase::Done => {}
        }
    }
}

struct SessionResult {
    out: Vec<Out>,
    live_max: usize,
    reissue_window: bool,
    trace: Vec<String>,
}

fn run_session(config_text: &str, tasks: &[(String, String)], files: &BTreeMap<String, String>, spec: &Value) -> SessionResult {
    let abandon: Vec<Option<usize>> = spec["abandon"].as_array().map(|a| a.iter().map(|x| x.as_u64().map(|n| n as usize)).collect()).unwrap_or_default();
    let mut s = Session {
        config_text,
        tasks,
        files,
        abandon,
        reverse_loads: spec["reverse_loads"].as_bool().unwrap_or(false),
        st: tasks.iter().map(|_| TaskState { phase: Phase::NotStarted, id: 0, pending: vec![], calls: 0, rounds: 0, out: None, saw_free: false }).collect(),
        cfg_loaded: false,
        trace: vec![],
        live: vec![],
        live_max: 0,
        reissue_window: false,
    };
    for item in spec["schedule"].as_array().cloned().unwrap_or_default() {
        match item.as_u64() {
            Some(k) => s.step(k as usize),
            None => s.load_config(),
        }
    }
    if !s.cfg_loaded {
        s.load_config();
    }
    for k in 0..tasks.len() {
        for _ in 0..200 {
            if s.st[k].phase == Phase::Done {
                break;
            }
            s.step(k);
        }
    }
    SessionResult {
        out: s.st.iter_mut().map(|t| t.out.take().unwrap_or(Out::Err("the build did not finish".into()))).collect(),
        live_max: s.live_max,
        reissue_window: s.reissue_window,
        trace: s.trace,
    }
}

pub fn worker_main() {
    loader_native::init(0);
    std::panic::set_hook(Box::new(|info| {
        let call = CALLS[CURRENT.load(std::sync::atomic::Ordering::Relaxed).min(CALLS.len() - 1)];
        let mut o = std::io::stdout().lock();
        let _ = writeln!(o, "p {}", json!({"call": call, "msg": info.to_string()}));
        let _ = o.flush();
    }));
    let stdin = std::io::stdin();
    let stdout = std::io::stdout();
    for line in stdin.lock().lines() {
        let Ok(line) = line else { break };
        if line.trim().is_empty() {
            continue;
        }
        let req: Value = match serde_json::from_str(&line) {
            Ok(v) => v,
            Err(_) => break,
        };
        if let Some(singles) = req["singles"].as_array() {
            // the whole batch on one fresh loader instance, one build after the other
            let singles = singles.clone();
            let _ = std::thread::Builder::new().stack_size(8 << 20).spawn(move || {
                for c in &singles {
                    let imports: Vec<(String, String)> = c["imports"].as_array().map(|a| a.iter().map(|p| (p[0].as_str().unwrap_or("").to_string(), p[1].as_str().unwrap_or("").to_string())).collect()).unwrap_or_default();
                    let (cfg, main) = (c["config_text"].as_str().unwrap_or("").to_string(), c["main"].as_str().unwrap_or("").to_string());
                    let answer = match nvh::catch(move || super::real_loader_texts(&cfg, &main, &imports)) {
                        Ok(Ok(js)) => json!({"js": js}),
                        Ok(Err(e)) => json!({"err": e}),
                        Err(p) => json!({"err": format!("panic in the worker: {p}")}),
                    };
                    let mut o = std::io::stdout().lock();
                    let _ = writeln!(o, "{answer}");
                    let _ = o.flush();
                }
            }).expect("spawn batch thread").join();
            continue;
        }
        let config_text = req["config_text"].as_str().unwrap_or("").to_string();
        let tasks: Vec<(String, String)> = req["tasks"].as_array().map(|a| a.iter().map(|t| (t["path"].as_str().unwrap_or("").to_string(), t["text"].as_str().unwrap_or("").to_string())).collect()).unwrap_or_default();
        let files: BTreeMap<String, String> = req["files"].as_object().map(|m| m.iter().map(|(k, v)| (k.clone(), v.as_str().unwrap_or("").to_string())).collect()).unwrap_or_default();
        let mut first: Option<Vec<Out>> = None;
        for spec in req["sessions"].as_array().cloned().unwrap_or_default() {
            // fresh thread = fresh thread-locals = fresh loader instance
            let r = std::thread::scope(|sc| {
                std::thread::Builder::new().stack_size(8 << 20).spawn_scoped(sc, || run_session(&config_text, &tasks, &files, &spec)).expect("spawn session thread").join()
            });
            let answer = match r {
                Ok(r) => {
                    let differs = first.as_ref().map(|f| *f != r.out).unwrap_or(true);
                    let out: Vec<Value> = r.out.iter().enumerate().map(|(k, o)| match (o, first.as_ref().map(|f| &f[k])) {
                        (Out::Abandoned, _) => json!(["abandoned"]),
                        (o, Some(f)) if o == f => json!(["="]),
                        (Out::Js(t), _) => json!(["js", t]),
                        (Out::Err(e), _) => json!(["err", e]),
                    }).collect();
                    let trace = if differs && first.is_some() { json!(r.trace) } else { json!([]) };
                    if first.is_none() {
                        first = Some(r.out);
                    }
                    json!({"out": out, "live_max": r.live_max, "reissue_window": r.reissue_window, "trace": trace})
                }
                Err(_) => json!({"panic": true}),
            };
            let mut o = stdout.lock();
            let _ = writeln!(o, "{answer}");
            let _ = o.flush();
        }
    }
}

// ------------------------------------------------------------------------------------------------ parent side

pub struct Client {
    exe: std::path::PathBuf,
    proc: Option<(Child, ChildStdin, BufReader<ChildStdout>)>,
    pub spawned: u64,
    pub deaths: u64,
}

#[derive(Clone, Debug)]
pub struct Death {
    /// how the process ended (+ the panic message, when the panic hook could still write it)
    pub why: String,
    /// the ABI call that was running
    pub call: String,
}

pub enum Answer {
    Ok(Value),
    /// the worker process died while executing this item (abort inside the loader)
    Died(Death),
}

impl Client {
    pub fn new() -> Client {
        Client { exe: std::env::current_exe().expect("current exe"), proc: None, spawned: 0, deaths: 0 }
    }
    fn ensure(&mut self) {
        if self.proc.is_none() {
            let mut child = Command::new(&self.exe).arg("--session-worker").stdin(Stdio::piped()).stdout(Stdio::piped()).stderr(Stdio::null()).spawn().expect("spawn session worker");
            let stdin = child.stdin.take().unwrap();
            let stdout = BufReader::with_capacity(1 << 16, child.stdout.take().unwrap());
            self.proc = Some((child, stdin, stdout));
            self.spawned += 1;
        }
    }
    fn reap(&mut self) -> String {
        self.deaths += 1;
        match self.proc.take() {
            Some((mut child, stdin, _)) => {
                drop(stdin);
                let _ = child.kill();
                match child.wait() {
                    Ok(st) => {
                        use std::os::unix::process::ExitStatusExt;
                        match (st.signal(), st.code()) {
                            (Some(6), _) => "killed by SIGABRT".to_string(),
                            (Some(11), _) => "killed by SIGSEGV".to_string(),
                            (Some(s), _) => format!("killed by signal {s}"),
                            (None, Some(c)) => format!("exit code {c}"),
                            _ => "unknown exit status".to_string(),
                        }
                    }
                    Err(e) => format!("wait failed: {e}"),
                }
            }
            None => "no worker".to_string(),
        }
    }
    /// send one request that is answered by `n` lines; returns the answers received and, if the worker died before the
    /// n-th answer, how it died (the item that killed it is the first unanswered one)
    fn exchange(&mut self, req: &Value, n: usize) -> (Vec<Value>, Option<Death>) {
        self.ensure();
        let line = format!("{}\n", serde_json::to_string(req).unwrap());
        // the writer must not block the reader: a large request is written from a thread
        let mut answers = vec![];
        let mut panic_note: Option<(String, String)> = None;
        let (_, stdin, stdout) = self.proc.as_mut().unwrap();
        let dead = std::thread::scope(|sc| {
            let w = sc.spawn(move || {
                let _ = stdin.write_all(line.as_bytes());
                let _ = stdin.flush();
            });
            let mut dead = false;
            while answers.len() < n {
                let mut text = String::new();
                if stdout.read_line(&mut text).unwrap_or(0) == 0 {
                    dead = true;
                    break;
                }
                if let Some(rest) = text.strip_prefix("p ") {
                    if let Ok(v) = serde_json::from_str::<Value>(rest) {
                        if panic_note.is_none() {
                            panic_note = Some((v["call"].as_str().unwrap_or("").to_string(), v["msg"].as_str().unwrap_or("").to_string()));
                        }
                    }
                    continue;
                }
                answers.push(serde_json::from_str(&text).unwrap_or(Value::Null));
            }
            let _ = w.join();
            dead
        });
        if !dead {
            return (answers, None);
        }
        let status = self.reap();
        let death = match panic_note {
            Some((call, msg)) => Death { why: format!("{status} after a panic inside `{call}` (a panic in an extern \"C\" function cannot unwind): {}", msg.replace('\n', " ")), call },
            None => Death { why: status, call: "unknown-call".into() },
        };
        (answers, Some(death))
    }

    /// run the sessions of one request; the answers are in session order. After a death the remaining sessions are
    /// re-submitted to a fresh worker (session 0 is prepended again so that `["="]` keeps its meaning).
    pub fn run(&mut self, base: &Value, sessions: &[Value]) -> Vec<Answer> {
        let mut answers: Vec<Answer> = vec![];
        while answers.len() < sessions.len() {
            let done = answers.len();
            let mut batch: Vec<Value> = vec![];
            if done > 0 {
                batch.push(sessions[0].clone());
            }
            batch.extend(sessions[done..].iter().cloned());
            let skip = if done > 0 { 1 } else { 0 };
            let mut req = base.clone();
            req["sessions"] = Value::Array(batch.clone());
            let (got, death) = self.exchange(&req, batch.len());
            let ngot = got.len();
            for v in got.into_iter().skip(skip) {
                answers.push(Answer::Ok(v));
            }
            if let Some(d) = death {
                if ngot >= skip {
                    answers.push(Answer::Died(d));
                } else {
                    // the one-at-a-time session itself kills the worker: nothing to compare with
                    while answers.len() < sessions.len() {
                        answers.push(Answer::Died(Death { why: format!("{} (already in the one-at-a-time session)", d.why), call: d.call.clone() }));
                    }
                }
            }
        }
        answers
    }

    /// the one-at-a-time stream: each case = `load_config` + one build; after a death the rest continues in a fresh worker
    pub fn singles(&mut self, cases: &[Value]) -> Vec<Answer> {
        let mut answers: Vec<Answer> = vec![];
        while answers.len() < cases.len() {
            let rest = &cases[answers.len()..];
            let (got, death) = self.exchange(&json!({"singles": rest}), rest.len());
            answers.extend(got.into_iter().map(Answer::Ok));
            if let Some(d) = death {
                answers.push(Answer::Died(d));
            }
        }
        answers
    }
}

impl Drop for Client {
    fn drop(&mut self) {
        if let Some((mut child, stdin, _)) = self.proc.take() {
            drop(stdin);
            let _ = child.wait();
        }
    }
}
