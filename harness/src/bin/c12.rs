//! C12 — runtime documents are the source operation plus exactly the fragments it needs.
//!
//! One case = (optional schema SDL, main operation file text, imported file texts). The texts go through the REAL
//! parser / extension resolver / `resolve_operation_imports` (files parsed with their own file index, like the CLI)
//! and the resolved document is printed by
//!   js      `print_js_for_operation_document` (what the bundler loaders embed),
//!   ts      `print_types_for_operation_document` with `print_values` (= mode standalone-ts-4.0; needs a schema + an accepted document),
//!   loader  the loader's real `extern "C"` ABI (`initiate_task` / `get_required_files` / `load_file` / `emit_js`).
//! From each output the object literal after every `const <Name> … = ` is extracted (it is JSON: parsed by serde_json),
//! one per definition, in document order.
//! K: that JSON tree == the Lean model's tree (`DocJson.toJson (FragClosure.runtimeDefs defs x)`) for the same
//!    resolved document (`gm::from_real_doc`), modulo member order; a panic of the printer == a `panic` of the model.
//! O: the property on the implementation — `ReadDoc.readDoc` (reference reader, via the driver) of the REAL JSON ==
//!    [X] ++ the definitions of the REFERENCE closure of X's spreads (`ReadDoc.closure`), positions ignored, the
//!    appended fragments compared as a multiset (each exactly once, nothing else).
use nitrogql_ast::{set_current_file_of_pos, OperationDocument};
use nitrogql_checker::{check_operation_document, OperationCheckContext};
use nitrogql_parser::parse_operation_document;
use nitrogql_printer::{
    print_js_for_operation_document, print_types_for_operation_document, OperationJSPrinterOptions, OperationTypePrinterOptions,
};
use nitrogql_semantics::{resolve_operation_extensions, resolve_operation_imports, OperationExtension, OperationResolver};
use nvh::gen::*;
use nvh::gm::*;
use nvh::real::with_schema;
use nvh::render::*;
use nvh::*;
use serde_json::{json, Value};
use sourcemap_writer::JustWriter;
use std::collections::{BTreeMap, BTreeSet};
use std::panic::AssertUnwindSafe;
use std::path::{Path, PathBuf};

#[path = "c12/names.rs"]
mod names;
#[path = "c12/sessions.rs"]
mod sessions;

const MAIN_PATH: &str = "/p/main.graphql";
const STANDALONE_CONFIG: &str = "schema: ./schema.graphql\ndocuments: ./*.graphql\nextensions:\n  nitrogql:\n    generate:\n      mode: standalone-ts-4.0\n";

#[derive(Clone, Debug)]
struct Case {
    schema: Option<String>,
    main: String,
    imports: Vec<(String, String)>,
    origin: String,
    /// not an accepted document on purpose (undefined / duplicate fragment names): K only
    k_only: bool,
    /// a build of a loader session: the module texts were produced elsewhere (session worker); only they are judged,
    /// against this case's files, and a failure is reported with the whole session as the case
    external: Option<External>,
}

#[derive(Clone, Debug)]
struct External {
    case_json: Value,
    outputs: Vec<(&'static str, Result<String, String>)>,
}

impl Case {
    fn text(main: &str) -> Case {
        Case { schema: None, main: main.to_string(), imports: vec![], origin: "corpus".into(), k_only: false, external: None }
    }
    fn to_json(&self) -> Value {
        if let Some(x) = &self.external {
            return x.case_json.clone();
        }
        json!({"schema": self.schema, "main": self.main, "imports": self.imports, "k_only": self.k_only})
    }
    fn from_json(v: &Value) -> Case {
        Case {
            schema: v["schema"].as_str().map(|s| s.to_string()),
            main: v["main"].as_str().unwrap_or("").to_string(),
            imports: v["imports"]
                .as_array()
                .map(|a| a.iter().map(|p| (p[0].as_str().unwrap_or("").to_string(), p[1].as_str().unwrap_or("").to_string())).collect())
                .unwrap_or_default(),
            origin: "replay".into(),
            k_only: v["k_only"].as_bool().unwrap_or(false),
            external: None,
        }
    }
}

// ---------------------------------------------------------------------------------------- the real code

struct MapResolver<'a, 'src> {
    files: &'a [(PathBuf, OperationDocument<'src>, OperationExtension<'src>)],
}
impl<'a, 'src> OperationResolver<'src> for MapResolver<'a, 'src> {
    fn resolve(&self, path: &Path) -> Option<(&OperationDocument<'src>, &OperationExtension<'src>)> {
        self.files.iter().find(|(p, _, _)| p == path).map(|(_, d, e)| (d, e))
    }
}

/// parse every file with its own file index and resolve the imports of the main file; then hand the document to `f`
fn with_resolved<R>(case: &Case, f: impl FnOnce(&OperationDocument) -> R) -> Result<R, String> {
    let mut sources: Vec<(String, &str)> = vec![(MAIN_PATH.to_string(), case.main.as_str())];
    for (p, t) in &case.imports {
        sources.push((p.clone(), t.as_str()));
    }
    let mut parsed = vec![];
    for (i, (p, t)) in sources.iter().enumerate() {
        set_current_file_of_pos(i);
        let doc = parse_operation_document(t).map_err(|e| format!("parse error in {p}: {e:?}"))?;
        let (doc, ext) = resolve_operation_extensions(doc).map_err(|_| format!("extension error in {p}"))?;
        parsed.push((PathBuf::from(p), doc, ext));
    }
    set_current_file_of_pos(0);
    let resolver = MapResolver { files: &parsed };
    let (p0, d0, e0) = &parsed[0];
    let doc = resolve_operation_imports((p0.as_path(), d0, e0), &resolver).map_err(|e| format!("import error: {}", e.message))?;
    Ok(f(&doc))
}

fn abi_call_str<R>(s: &str, f: impl FnOnce(*const u8, usize) -> R) -> R {
    let p = loader_native::alloc_string(s.len());
    unsafe {
        std::ptr::copy_nonoverlapping(s.as_ptr(), p, s.len());
    }
    let r = f(p, s.len());
    unsafe {
        loader_native::free_string(p, s.len());
    }
    r
}
fn abi_result() -> String {
    let p = loader_native::get_result_ptr();
    let n = loader_native::get_result_size();
    String::from_utf8_lossy(unsafe { std::slice::from_raw_parts(p, n) }).into_owned()
}

/// the loader's extern "C" ABI, driven the way packages/loader-core does
fn real_loader(case: &Case) -> Result<String, String> {
    let id = abi_call_str(MAIN_PATH, |fp, fl| abi_call_str(&case.main, |sp, sl| loader_native::initiate_task(fp, fl, sp, sl)));
    if id == 0 {
        return Err(format!("initiate_task failed: {}", abi_result()));
    }
    let mut result = Err("too many rounds of required files".to_string());
    for _ in 0..16 {
        if !loader_native::get_required_files(id) {
            result = Err(format!("get_required_files failed: {}", abi_result()));
            break;
        }
        let req: Vec<String> = abi_result().split('\n').filter(|s| !s.is_empty()).map(|s| s.to_string()).collect();
        if req.is_empty() {
            result = if loader_native::emit_js(id) { Ok(abi_result()) } else { Err(format!("emit_js failed: {}", abi_result())) };
            break;
        }
        let mut failed = None;
        for r in req {
            match case.imports.iter().find(|(p, _)| *p == r) {
                Some((p, t)) => {
                    if !abi_call_str(p, |fp, fl| abi_call_str(t, |sp, sl| loader_native::load_file(id, fp, fl, sp, sl))) {
                        failed = Some(format!("load_file failed: {}", abi_result()));
                    }
                }
                None => failed = Some(format!("loader requires unknown file {r}")),
            }
        }
        if let Some(f) = failed {
            result = Err(f);
            break;
        }
    }
    loader_native::free_task(id);
    result
}

/// every `const <Name> … = <object literal>` of an emitted module, in order; the literal must be JSON
fn extract_consts(text: &str) -> Result<Vec<(String, Value)>, String> {
    let mut out = vec![];
    for line in text.split('\n') {
        let rest = line.strip_prefix("export ").or_else(|| line.strip_prefix("declare ")).unwrap_or(line);
        let Some(rest) = rest.strip_prefix("const ") else { continue };
        let name_end = rest.find(|c: char| c == ':' || c == ' ').ok_or_else(|| format!("no name in: {line}"))?;
        let name = rest[..name_end].to_string();
        let eq = rest.find(" = ").ok_or_else(|| format!("const {name} has no initialiser"))?;
        let lit = &rest[eq + 3..];
        let mut it = serde_json::Deserializer::from_str(lit).into_iter::<Value>();
        match it.next() {
            Some(Ok(v)) => {
                let tail = &lit[it.byte_offset()..];
                if !(tail.starts_with(';') || tail.starts_with(" as unknown as TypedDocumentNode<")) {
                    return Err(format!("unexpected text after the literal of {name}: {}", &tail[..tail.len().min(40)]));
                }
                out.push((name, v));
            }
            Some(Err(e)) => return Err(format!("initialiser of {name} is not JSON: {e}")),
            None => return Err(format!("initialiser of {name} is empty")),
        }
    }
    Ok(out)
}

struct RealOut {
    /// the resolved document as the printers saw it (positions included)
    source: Doc,
    /// checker verdict (number of diagnostics) when a schema was given
    check_errors: Option<usize>,
    /// per output path: the JSON value of every definition in order, or why there is none ("panic: …", …)
    outputs: Vec<(&'static str, Result<Vec<Value>, String>)>,
}

fn run_real(case: &Case, with_loader: bool) -> Result<RealOut, String> {
    if let Some(x) = &case.external {
        // the source as the real parser + import resolver read the files THIS build was given
        let source = with_resolved(case, |doc| from_real_doc(doc))?;
        let outputs = x
            .outputs
            .iter()
            .map(|(path, r)| {
                (*path, match r {
                    Err(e) => Err(format!("error: {e}")),
                    Ok(text) => extract_consts(text).map(|v| v.into_iter().map(|(_, j)| j).collect()),
                })
            })
            .collect();
        return Ok(RealOut { source, check_errors: None, outputs });
    }
    let (source, js) = with_resolved(case, |doc| {
        let source = from_real_doc(doc);
        let js = catch(AssertUnwindSafe(|| {
            let mut js = String::new();
            let mut w = JustWriter::new(&mut js);
            print_js_for_operation_document(OperationJSPrinterOptions::default(), doc, &mut w);
            js
        }));
        (source, js)
    })?;
    let conv = |r: Result<String, String>| -> Result<Vec<Value>, String> {
        if std::env::var("C12_DEBUG").is_ok() {
            eprintln!("--- emitted text\n{r:?}");
        }
        match r {
            Err(p) => Err(format!("panic: {p}")),
            Ok(text) => extract_consts(&text).map(|v| v.into_iter().map(|(_, j)| j).collect()),
        }
    };
    let mut outputs = vec![("js", conv(js))];
    let mut check_errors = None;
    if let Some(sdl) = &case.schema {
        let r = with_schema(&[sdl.clone()], |_, schema| {
            with_resolved(case, |doc| {
                let ctx = OperationCheckContext::new(schema);
                let n = check_operation_document(doc, &ctx).len();
                if n > 0 {
                    return (n, None);
                }
                let ts = catch(AssertUnwindSafe(|| {
                    let mut ts = String::new();
                    let mut w = JustWriter::new(&mut ts);
                    // the options the CLI derives from a config whose generate.mode is standalone-ts-4.0
                    let config = nitrogql_config_file::parse_config(STANDALONE_CONFIG).expect("standalone config parses");
                    let options = OperationTypePrinterOptions::from_config(&config);
                    assert!(options.print_values, "mode standalone-ts-4.0 must print values");
                    print_types_for_operation_document(options, schema, doc, &mut w);
                    ts
                }));
                (n, Some(ts))
            })
        });
        match r {
            Ok(Ok((n, ts))) => {
                check_errors = Some(n);
                if let Some(ts) = ts {
                    outputs.push(("ts", conv(ts)));
                }
            }
            Ok(Err(e)) => return Err(e),
            Err(stage) => return Err(format!("schema not usable: {stage:?}")),
        }
    }
    if with_loader {
        let r = catch(AssertUnwindSafe(|| real_loader(case)));
        let r = match r {
            Err(p) => Err(format!("panic: {p}")),
            Ok(Err(e)) => Err(format!("error: {e}")),
            Ok(Ok(text)) => extract_consts(&text).map(|v| v.into_iter().map(|(_, j)| j).collect()),
        };
        outputs.push(("loader", r));
    }
    Ok(RealOut { source, check_errors, outputs })
}

// ---------------------------------------------------------------------------------------- JSON trees

fn json_to_sexp(v: &Value) -> Sexp {
    match v {
        Value::Null => Sexp::call("null", vec![]),
        Value::Bool(b) => Sexp::call("bool", vec![Sexp::bool(*b)]),
        Value::Number(n) => Sexp::call("num", vec![Sexp::str(n.to_string())]),
        Value::String(s) => Sexp::call("str", vec![Sexp::str(s.as_str())]),
        Value::Array(a) => Sexp::call("arr", a.iter().map(json_to_sexp).collect()),
        Value::Object(m) => {
            let mut kv: Vec<(&String, &Value)> = m.iter().collect();
            kv.sort_by(|a, b| a.0.cmp(b.0));
            Sexp::call("obj", kv.into_iter().map(|(k, v)| Sexp::list(vec![Sexp::str(k.as_str()), json_to_sexp(v)])).collect())
        }
    }
}

/// sort the members of every object (member order is not part of the JSON data model)
fn canon_json(s: &Sexp) -> Sexp {
    match s {
        Sexp::List(v) if s.head() == Some("obj") => {
            let mut kv: Vec<Sexp> = v[1..]
                .iter()
                .map(|m| match m {
                    Sexp::List(p) if p.len() == 2 => Sexp::list(vec![p[0].clone(), canon_json(&p[1])]),
                    x => x.clone(),
                })
                .collect();
            kv.sort_by(|a, b| a.as_list().and_then(|l| l[0].as_str()).cmp(&b.as_list().and_then(|l| l[0].as_str())));
            Sexp::call("obj", kv)
        }
        Sexp::List(v) if s.head() == Some("arr") => Sexp::call("arr", v[1..].iter().map(canon_json).collect()),
        x => x.clone(),
    }
}

fn obj_members(s: &Sexp) -> BTreeMap<String, &Sexp> {
    let mut m = BTreeMap::new();
    for p in s.args() {
        if let Some(l) = p.as_list() {
            if let (Some(k), Some(v)) = (l.first().and_then(|k| k.as_str()), l.get(1)) {
                m.insert(k.to_string(), v);
            }
        }
    }
    m
}

fn kind_of(s: &Sexp) -> String {
    obj_members(s).get("kind").and_then(|k| k.args().first()).and_then(|k| k.as_str()).unwrap_or("?").to_string()
}

/// first difference between the model's and the code's JSON tree: (stable class, detail)
fn json_diff(model: &Sexp, real: &Sexp, ctx: &str) -> Option<(String, String)> {
    if model == real {
        return None;
    }
    match (model.head(), real.head()) {
        (Some("obj"), Some("obj")) => {
            let (mm, rm) = (obj_members(model), obj_members(real));
            let kind = kind_of(model);
            for k in mm.keys() {
                if !rm.contains_key(k) {
                    return Some((format!("{kind}.{k}:only-in-model"), format!("member {k} of {kind} is missing in the code's JSON")));
                }
            }
            for k in rm.keys() {
                if !mm.contains_key(k) {
                    return Some((format!("{}.{k}:only-in-code", kind_of(real)), format!("member {k} is missing in the model's JSON")));
                }
            }
            for (k, v) in &mm {
                if let Some(d) = json_diff(v, rm[k], &format!("{kind}.{k}")) {
                    return Some(d);
                }
            }
            None
        }
        (Some("arr"), Some("arr")) => {
            if model.args().len() != real.args().len() {
                return Some((format!("{ctx}:length"), format!("{ctx}: model has {} elements, code {}", model.args().len(), real.args().len())));
            }
            for (a, b) in model.args().iter().zip(real.args()) {
                if let Some(d) = json_diff(a, b, ctx) {
                    return Some(d);
                }
            }
            None
        }
        _ => Some((format!("{ctx}:value"), format!("{ctx}: model {} code {}", model.to_line(), real.to_line()))),
    }
}

// ---------------------------------------------------------------------------------------- abstract documents (O)

fn field_name(head: &str, idx: usize) -> String {
    let names: &[&str] = match head {
        "op" => &["", "kind", "name", "variableDefinitions", "directives", "selectionSet", "pos"],
        "frag" => &["", "name", "namepos", "typeCondition", "condpos", "directives", "selectionSet", "pos"],
        "vardef" => &["", "name", "pos", "type", "defaultValue", "directives"],
        "field" => &["", "alias", "name", "pos", "arguments", "directives", "selectionSet"],
        "spread" => &["", "name", "namepos", "directives", "pos"],
        "inline" => &["", "typeCondition", "directives", "selectionSet", "pos"],
        "dir" => &["", "name", "namepos", "arguments", "pos"],
        "arg" => &["", "name", "pos", "value"],
        _ => &[],
    };
    names.get(idx).map(|s| s.to_string()).unwrap_or_else(|| format!("#{idx}"))
}

/// first difference between two document S-expressions as "<node>.<component>:<how>"
fn sexp_diff(exp: &Sexp, got: &Sexp, ctx: &str) -> Option<String> {
    if exp == got {
        return None;
    }
    match (exp, got) {
        (Sexp::List(a), Sexp::List(b)) => {
            let (ha, hb) = (exp.head(), got.head());
            if ha.is_some() && ha == hb {
                let h = ha.unwrap();
                if a.len() != b.len() {
                    return Some(format!("{h}:arity"));
                }
                for i in 1..a.len() {
                    if let Some(d) = sexp_diff(&a[i], &b[i], &format!("{h}.{}", field_name(h, i))) {
                        return Some(d);
                    }
                }
                None
            } else if ha.is_some() && hb.is_some() && ha != hb && matches!(a.first(), Some(Sexp::Atom(_))) {
                Some(format!("{ctx}:{}-became-{}", ha.unwrap(), hb.unwrap()))
            } else if a.len() != b.len() {
                Some(format!("{ctx}:{}", if b.len() < a.len() { "lost" } else { "invented" }))
            } else {
                for i in 0..a.len() {
                    if let Some(d) = sexp_diff(&a[i], &b[i], ctx) {
                        return Some(d);
                    }
                }
                None
            }
        }
        _ => Some(format!("{ctx}:altered")),
    }
}

fn def_name(d: &Sexp) -> Option<String> {
    match d.head() {
        Some("frag") => d.args().first().and_then(|n| n.as_str()).map(|s| s.to_string()),
        _ => None,
    }
}

// ---------------------------------------------------------------------------------------- generators

const HOSTILE_STR: [&str; 16] = [
    "say \"hi\" \\ there", "ends with quote\"", "*/ closes a comment", "back`tick ${x}", "multi\nline", "tab\there", "é 😀 astral",
    "\\u0041 literal", "\"\"\"", "trailing backslash\\", "cr\rlf", "' single", "</script><!--", "\u{2028}\u{2029} separators",
    "\u{1}\u{1f}\u{7f} controls", "const X = {\"kind\":\"Document\"};",
];

struct Syn<'a> {
    rng: &'a mut Rng,
    frag_names: Vec<String>,
    features: BTreeSet<String>,
}

impl<'a> Syn<'a> {
    fn name(&mut self, pool: &[&str]) -> String {
        pool[self.rng.below(pool.len())].to_string()
    }
    fn value(&mut self, depth: usize, allow_var: bool) -> Val {
        let p = P::default();
        let k = self.rng.below(if depth == 0 { 8 } else { 10 });
        self.features.insert(format!("value:{}", ["var", "int", "float", "string", "bool", "null", "enum", "string", "list", "object"][k]));
        match k {
            0 if allow_var => Val::Var(self.name(&["v", "w", "id", "first"]), p),
            0 | 1 => Val::Int(self.name(&["0", "1", "-5", "42", "12345678901234567890", "-0"]), p),
            2 => Val::Float(self.name(&["1.5", "-0.0", "1e10", "1.5E-3", "6.02e+23", "0.1"]), p),
            3 | 7 => {
                if self.rng.coin() {
                    self.features.insert("hostile-string".into());
                    Val::Str(HOSTILE_STR[self.rng.below(HOSTILE_STR.len())].to_string(), p)
                } else {
                    Val::Str(self.name(&["", "abc", "hello world", "null", "1"]), p)
                }
            }
            4 => Val::Bool(self.rng.coin(), p),
            5 => Val::Null(p),
            6 => Val::Enum(self.name(&["RED", "GREEN", "nullish", "trueish", "on", "query"]), p),
            8 => {
                let n = self.rng.below(4);
                if depth >= 2 {
                    self.features.insert("value:nested-depth>=2".into());
                }
                Val::List((0..n).map(|_| self.value(depth - 1, allow_var)).collect(), p)
            }
            _ => {
                let n = self.rng.below(4);
                let mut fs = vec![];
                for _ in 0..n {
                    // duplicate keys are legal syntax and must survive
                    let k = self.name(&["x", "y", "k", "kind", "value", "__proto__"]);
                    fs.push(Arg::new(&k, self.value(depth - 1, allow_var)));
                }
                Val::Obj(fs, p)
            }
        }
    }
    fn ty(&mut self, depth: usize) -> Ty {
        let base = if depth > 0 && self.rng.chance(2, 5) { Ty::list(self.ty(depth - 1)) } else { Ty::named(&self.name(&["Int", "String", "ID", "In", "Boolean", "Float"])) };
        if self.rng.chance(2, 5) {
            Ty::non_null(base)
        } else {
            base
        }
    }
    fn args(&mut self, allow_var: bool) -> Vec<Arg> {
        let n = if self.rng.chance(1, 2) { 0 } else { 1 + self.rng.below(3) };
        (0..n)
            .map(|_| {
                let k = self.name(&["x", "y", "if", "id", "first", "label"]);
                Arg::new(&k, self.value(2, allow_var))
            })
            .collect()
    }
    fn dirs(&mut self, what: &str, allow_var: bool) -> Vec<Dir> {
        let n = if self.rng.chance(3, 5) { 0 } else { 1 + self.rng.below(2) };
        let mut out = vec![];
        for _ in 0..n {
            self.features.insert(format!("directive-on:{what}"));
            let d = self.name(&["skip", "include", "tag", "d", "deprecated"]);
            out.push(Dir::new(&d, self.args(allow_var)));
        }
        out
    }
    fn selset(&mut self, depth: usize) -> Vec<Sel> {
        let n = 1 + self.rng.below(4);
        let mut out = vec![];
        for _ in 0..n {
            let k = self.rng.below(10);
            if k < 5 || (depth == 0 && k < 7) {
                let name = self.name(&["a", "b", "id", "user", "__typename", "items"]);
                let alias = if self.rng.chance(1, 4) {
                    self.features.insert("alias".into());
                    Some((self.name(&["z", "a", "al", "kind"]), P::default()))
                } else {
                    None
                };
                let args = self.args(true);
                if !args.is_empty() {
                    self.features.insert("arguments".into());
                }
                let dirs = self.dirs("field", true);
                let sel = if depth > 0 && self.rng.chance(2, 5) { Some(self.selset(depth - 1)) } else { None };
                out.push(Sel::Field { alias, name, name_pos: P::default(), args, dirs, sel });
            } else if k < 8 && !self.frag_names.is_empty() {
                let name = self.frag_names[self.rng.below(self.frag_names.len())].clone();
                self.features.insert("fragment-spread".into());
                let dirs = self.dirs("spread", true);
                out.push(Sel::Spread { name, name_pos: P::default(), dirs, pos: P::default() });
            } else if depth > 0 {
                let cond = if self.rng.chance(2, 3) { Some((self.name(&["T", "User", "Node"]), P::default())) } else { None };
                self.features.insert(if cond.is_some() { "inline-fragment:typed".into() } else { "inline-fragment:untyped".into() });
                let dirs = self.dirs("inline", true);
                let sel = self.selset(depth - 1);
                out.push(Sel::Inline { cond, dirs, sel, pos: P::default() });
            } else {
                out.push(Sel::field("leaf"));
            }
        }
        out
    }
}

/// a syntactically valid document that need not be valid against any schema: every value kind, directives everywhere
/// (also on variable definitions), arbitrary (cyclic) fragment graphs; `allow_undefined` adds spreads of undefined names
fn gen_syntactic(rng: &mut Rng, allow_undefined: bool) -> (Doc, BTreeSet<String>, bool) {
    let nfrag = rng.below(6);
    let mut frag_names: Vec<String> = (0..nfrag).map(|i| format!("F{i}")).collect();
    let mut undefined = false;
    if allow_undefined && rng.chance(1, 12) {
        frag_names.push("Missing".into());
        undefined = true;
    }
    let mut s = Syn { rng, frag_names: frag_names.clone(), features: BTreeSet::new() };
    let mut defs = vec![];
    let nops = 1 + s.rng.below(3);
    let anonymous = nops == 1 && s.rng.chance(1, 4);
    for i in 0..nops {
        let kind = [OpKind::Query, OpKind::Query, OpKind::Mutation, OpKind::Subscription][s.rng.below(4)];
        let nvars = if s.rng.coin() { 0 } else { 1 + s.rng.below(3) };
        let mut vars = vec![];
        for j in 0..nvars {
            let default = if s.rng.chance(2, 5) {
                s.features.insert("variable-default".into());
                Some(s.value(2, false))
            } else {
                None
            };
            let dirs = s.dirs("variable-definition", false);
            vars.push(VarDef { name: format!("{}{}", ["v", "w", "id", "first"][j % 4], j), pos: P::default(), ty: s.ty(2), default, dirs });
        }
        if !vars.is_empty() {
            s.features.insert("variables".into());
        }
        let dirs = s.dirs("operation", true);
        let sel = s.selset(3);
        let name = if anonymous { None } else { Some((format!("{}{}", ["getThings", "DoIt", "watch"][i], i), P::default())) };
        defs.push(ExecDef::Op(OpDef { kind, name, vars, dirs, sel, pos: P::default(), shorthand: false }));
    }
    if anonymous {
        s.features.insert("anonymous-operation".into());
    }
    for n in frag_names.iter().filter(|n| *n != "Missing") {
        let dirs = s.dirs("fragment-definition", true);
        let sel = s.selset(2);
        let at = s.rng.below(defs.len() + 1);
        let cond = s.name(&["T", "User", "Node"]);
        defs.insert(at, ExecDef::Frag(FragDef { name: n.clone(), name_pos: P::default(), cond, cond_pos: P::default(), dirs, sel, pos: P::default() }));
    }
    let f = s.features;
    (Doc { defs }, f, undefined)
}

fn spreads_of(sel: &[Sel], out: &mut Vec<String>) {
    for s in sel {
        match s {
            Sel::Field { sel: Some(ss), .. } => spreads_of(ss, out),
            Sel::Field { .. } => {}
            Sel::Spread { name, .. } => out.push(name.clone()),
            Sel::Inline { sel, .. } => spreads_of(sel, out),
        }
    }
}

/// does the fragment graph of the document contain a cycle?
fn has_cycle(doc: &Doc) -> bool {
    let mut edges: BTreeMap<String, Vec<String>> = BTreeMap::new();
    for d in &doc.defs {
        if let ExecDef::Frag(f) = d {
            let mut v = vec![];
            spreads_of(&f.sel, &mut v);
            edges.insert(f.name.clone(), v);
        }
    }
    fn dfs(n: &str, edges: &BTreeMap<String, Vec<String>>, stack: &mut Vec<String>, done: &mut BTreeSet<String>) -> bool {
        if stack.iter().any(|s| s == n) {
            return true;
        }
        if done.contains(n) {
            return false;
        }
        stack.push(n.to_string());
        let r = edges.get(n).map_or(false, |es| es.iter().any(|e| dfs(e, edges, stack, done)));
        stack.pop();
        done.insert(n.to_string());
        r
    }
    let mut done = BTreeSet::new();
    edges.keys().any(|k| dfs(k, &edges, &mut vec![], &mut done))
}

/// move a dependency-closed subset of the fragments into an imported file
fn split_imports(rng: &mut Rng, doc: &Doc) -> (Doc, Vec<(String, Doc)>) {
    let frags: Vec<&FragDef> = doc.defs.iter().filter_map(|d| if let ExecDef::Frag(f) = d { Some(f) } else { None }).collect();
    if frags.is_empty() {
        return (doc.clone(), vec![]);
    }
    // start from a random fragment and close under "spreads"
    let mut moved: BTreeSet<String> = BTreeSet::new();
    let mut todo = vec![frags[rng.below(frags.len())].name.clone()];
    while let Some(n) = todo.pop() {
        if moved.insert(n.clone()) {
            if let Some(f) = frags.iter().find(|f| f.name == n) {
                spreads_of(&f.sel, &mut todo);
            }
        }
    }
    let mut main = vec![];
    let mut imported = vec![];
    for d in &doc.defs {
        match d {
            ExecDef::Frag(f) if moved.contains(&f.name) => imported.push(d.clone()),
            _ => main.push(d.clone()),
        }
    }
    let targets = if rng.coin() {
        vec![None]
    } else {
        imported.iter().filter_map(|d| d.name().map(|n| Some((n.to_string(), P::default())))).collect()
    };
    main.insert(0, ExecDef::Import(ImportDef { targets, path: "./frags.graphql".into(), pos: P::default() }));
    (Doc { defs: main }, vec![("/p/frags.graphql".to_string(), Doc { defs: imported })])
}

fn render(rng: &mut Rng, doc: &Doc) -> String {
    if rng.chance(1, 3) {
        let mut d = doc.clone();
        render_doc(&mut d, Style::noisy(), rng.fork()).0
    } else {
        doc_text(doc)
    }
}

// ---------------------------------------------------------------------------------------- the comparison

struct Ctx<'a> {
    rep: &'a mut Report,
    drv: &'a mut Driver,
    with_loader: bool,
}

struct Prepared {
    case: Case,
    real: RealOut,
    /// request index of (json.of i) / (closure i) per definition, of (read …) per (path, definition)
    json_of: Vec<usize>,
    closure: Vec<usize>,
    reads: Vec<Vec<usize>>,
}

impl<'a> Ctx<'a> {
    /// an O failure. On the interleaved-loader path the signature is the coarse class (the one-at-a-time result of the
    /// same files is judged separately, so what fails here is owed to the interleaving, and WHICH component of the
    /// foreign / stale document differs first depends on the random neighbours, not on the defect)
    fn ofail(&mut self, path: &str, sig: &str, what: &str, case: Value) {
        if path == "loader-interleaved" {
            let class = if sig.starts_with("roundtrip:") || sig == "module:definition-count" {
                "not-the-source-document"
            } else if sig.starts_with("closure:") {
                "closure"
            } else {
                sig
            };
            self.rep.fail("O", &format!("loader-interleaved:{class}"), what, case);
        } else {
            self.rep.fail("O", sig, what, case);
        }
    }

    fn run(&mut self, cases: &[(Case, BTreeSet<String>)]) {
        let mut reqs: Vec<Sexp> = vec![];
        let mut prepared: Vec<Prepared> = vec![];
        for (case, features) in cases {
            self.rep.evaluations += 1;
            self.rep.count(&format!("origin:{}", case.origin));
            let real = match run_real(case, self.with_loader) {
                Ok(r) => r,
                Err(e) => {
                    // not a C12 matter (the text did not reach the printers); counted so that it stays visible
                    let stage = e.split(':').next().unwrap_or("?").split(' ').take(2).collect::<Vec<_>>().join("-");
                    self.rep.count(&format!("skipped:{stage}"));
                    continue;
                }
            };
            for f in features {
                self.rep.count(&format!("feature:{f}"));
            }
            if case.external.is_some() {
                self.rep.count("checker:not-run(session build)");
            } else if let Some(n) = real.check_errors {
                self.rep.count(if n == 0 { "checker:accepted" } else { "checker:rejected(js path only)" });
            } else {
                self.rep.count("checker:no-schema(syntactic document)");
            }
            let doc_sexp = real.source.to_sexp();
            let n = real.source.defs.len();
            let mut p = Prepared { case: case.clone(), real, json_of: vec![], closure: vec![], reads: vec![] };
            for i in 0..n {
                p.json_of.push(reqs.len());
                reqs.push(Sexp::call("json.of", vec![doc_sexp.clone(), Sexp::int(i as i128)]));
                p.closure.push(reqs.len());
                reqs.push(Sexp::call("closure", vec![doc_sexp.clone(), Sexp::int(i as i128)]));
            }
            for (_, out) in &p.real.outputs {
                let mut idx = vec![];
                if let Ok(vals) = out {
                    for v in vals {
                        idx.push(reqs.len());
                        reqs.push(Sexp::call("read", vec![json_to_sexp(v)]));
                    }
                }
                p.reads.push(idx);
            }
            prepared.push(p);
        }
        let ans = self.drv.batch(&reqs);
        for p in &prepared {
            self.judge(p, &ans);
        }
    }

    fn judge(&mut self, p: &Prepared, ans: &[Sexp]) {
        let case_json = p.case.to_json();
        let defs = &p.real.source.defs;
        let n = defs.len();
        let model: Vec<&Sexp> = p.json_of.iter().map(|&i| &ans[i]).collect();
        let model_panics = model.iter().any(|m| m.head() == Some("panic"));
        if model.iter().any(|m| m.head() != Some("ok") && m.head() != Some("panic")) {
            self.rep.fail("K", "model-error", &format!("the model driver answered {}", model.iter().find(|m| m.head() != Some("ok")).unwrap().to_line()), case_json.clone());
            return;
        }
        // expected abstract definitions, positions stripped; fragments by name (the LAST definition of a name, like the HashMap)
        let src: Vec<Sexp> = defs.iter().map(|d| strip_pos(&d.to_sexp())).collect();
        let mut frag_by_name: BTreeMap<String, &Sexp> = BTreeMap::new();
        for s in &src {
            if let Some(nm) = def_name(s) {
                frag_by_name.insert(nm, s);
            }
        }
        for (pi, (path, out)) in p.real.outputs.iter().enumerate() {
            match out {
                Err(e) => {
                    self.rep.k_cases += 1;
                    let real_panics = e.starts_with("panic: ") || (e.starts_with("error: ") && e.contains("is not defined"));
                    if real_panics != model_panics || !real_panics {
                        self.rep.fail("K", &format!("{path}:no-output"), &format!("{path}: the code gives no runtime documents ({e}); model panics: {model_panics}"), case_json.clone());
                        if *path == "loader-interleaved" && !p.case.k_only && !model_panics {
                            // one at a time the same files give a module: this build's documents are lost to the interleaving
                            self.rep.o_cases += 1;
                            self.ofail(path, "no-module", &format!("{path}: no module for this build ({e}) although its files are an accepted document"), case_json.clone());
                        }
                    } else {
                        self.rep.count(&format!("{path}:panic-agreed(undefined fragment)"));
                    }
                }
                Ok(vals) => {
                    if vals.len() != n {
                        self.rep.k_cases += 1;
                        self.rep.fail("K", &format!("{path}:definition-count"), &format!("{path}: {} constants for {n} definitions", vals.len()), case_json.clone());
                        if !p.case.k_only {
                            // the property quantifies over every definition X of the source: JSON(X) must exist, and nothing else
                            self.rep.o_cases += 1;
                            self.ofail(path, "module:definition-count", &format!("{path}: the module embeds {} documents, the source has {n} definitions", vals.len()), case_json.clone());
                        }
                        continue;
                    }
                    for i in 0..n {
                        self.rep.k_cases += 1;
                        self.rep.count(&format!("k:{path}"));
                        let real_tree = json_to_sexp(&vals[i]);
                        if std::env::var("C12_DEBUG").is_ok() {
                            eprintln!("--- real tree\n{}\n--- model\n{}", real_tree.to_line(), model[i].to_line());
                        }
                        match model[i].head() {
                            Some("ok") => {
                                let m = canon_json(&model[i].args()[0]);
                                if let Some((sig, detail)) = json_diff(&m, &real_tree, "Document") {
                                    self.rep.fail("K", &format!("json:{sig}"), &format!("{path}, definition {i}: {detail}"), case_json.clone());
                                }
                            }
                            _ => self.rep.fail("K", &format!("{path}:model-panics-code-does-not"), &format!("{path}, definition {i}: model {}", model[i].to_line()), case_json.clone()),
                        }
                        if p.case.k_only {
                            continue;
                        }
                        // ---- O: the property on the implementation
                        self.rep.o_cases += 1;
                        let got = &ans[p.reads[pi][i]];
                        if got.head() != Some("ok") {
                            self.ofail(path, "unreadable", &format!("{path}, definition {i}: the emitted JSON is not a graphql-js DocumentNode ({})", got.to_line()), case_json.clone());
                            continue;
                        }
                        let got_defs: Vec<Sexp> = got.args()[0].args().iter().map(strip_pos).collect();
                        if got_defs.is_empty() {
                            self.ofail(path, "empty-document", &format!("{path}, definition {i}: no definitions"), case_json.clone());
                            continue;
                        }
                        if let Some(d) = sexp_diff(&src[i], &got_defs[0], "definition") {
                            self.ofail(path, &format!("roundtrip:{d}"), &format!("{path}, definition {i}: the JSON denotes {} but the source is {}", got_defs[0].to_line(), src[i].to_line()), case_json.clone());
                        }
                        let refc = &ans[p.closure[i]];
                        if refc.head() != Some("ok") {
                            self.rep.fail("K", "reference-closure-error", &format!("reference closure answered {}", refc.to_line()), case_json.clone());
                            continue;
                        }
                        let mut want: Vec<String> = refc.args().iter().filter_map(|s| s.as_str().map(|s| s.to_string())).collect();
                        let want_in_order = want.clone();
                        let mut have: Vec<String> = vec![];
                        let mut bad_tail = false;
                        for d in &got_defs[1..] {
                            match def_name(d) {
                                Some(nm) => have.push(nm),
                                None => bad_tail = true,
                            }
                        }
                        if bad_tail {
                            self.ofail(path, "closure:non-fragment-appended", &format!("{path}, definition {i}: a non-fragment definition follows the first one"), case_json.clone());
                        }
                        let have_in_order = have.clone();
                        want.sort();
                        have.sort();
                        if want != have {
                            let missing: Vec<&String> = want.iter().filter(|w| !have.contains(w)).collect();
                            let extra: Vec<&String> = have.iter().filter(|h| !want.contains(h)).collect();
                            let base = if !missing.is_empty() { "closure:missing" } else if !extra.is_empty() { "closure:extra" } else { "closure:duplicate" };
                            // class of the defect: how the offending fragment names relate to the name of the head definition
                            // (names live in separate namespaces; a printer that confuses them drops / adds exactly these)
                            let head = defs[i].name().map(|s| s.to_string());
                            let offending: &Vec<&String> = if !missing.is_empty() { &missing } else { &extra };
                            let rel = match &head {
                                Some(h) if !offending.is_empty() && offending.iter().all(|o| *o == h) => ":named-like-the-head-definition",
                                Some(h) if !offending.is_empty() && offending.iter().all(|o| o.eq_ignore_ascii_case(h)) => ":named-like-the-head-definition-up-to-case",
                                _ => "",
                            };
                            let sig = &format!("{base}{rel}");
                            self.ofail(path, sig, &format!("{path}, definition {i}: appended fragments {have_in_order:?}, needed {want_in_order:?}"), case_json.clone());
                        }
                        for d in &got_defs[1..] {
                            if let Some(nm) = def_name(d) {
                                if let Some(s) = frag_by_name.get(&nm) {
                                    if let Some(df) = sexp_diff(s, d, "definition") {
                                        self.ofail(path, &format!("roundtrip:{df}"), &format!("{path}, definition {i}: appended fragment {nm} denotes {} but the source is {}", d.to_line(), s.to_line()), case_json.clone());
                                    }
                                }
                            }
                        }
                        self.rep.count(&format!("closure-size:{}", want.len().min(4)));
                        let has_vars = matches!(&defs[i], ExecDef::Op(o) if !o.vars.is_empty());
                        if !want.is_empty() || has_vars {
                            self.rep.nontrivial(&real_tree.to_line());
                        }
                    }
                }
            }
        }
        if self.rep.samples.len() < 4 && n > 1 {
            self.rep.sample(json!({"main": p.case.main, "imports": p.case.imports, "definitions": n}));
        }
    }
}

// ---------------------------------------------------------------------------------------- interleaved loader sessions

/// several builds on one loader instance: (the case, the directory its files live in) and the interleavings to try
struct SessionCase {
    builds: Vec<(Case, String)>,
    /// `{"schedule":[k…], "abandon":[null|n…]}` each, with a label for the evidence
    specs: Vec<(Value, String)>,
}

fn in_dir(path: &str, dir: &str) -> String {
    match path.strip_prefix("/p/") {
        Some(rest) => format!("{dir}/{rest}"),
        None => path.to_string(),
    }
}

/// estimated number of ABI calls of a build (initiate, required, [loads, required], emit, free)
fn calls_of(case: &Case) -> usize {
    4 + if case.imports.is_empty() { 0 } else { case.imports.len() + 1 }
}

impl SessionCase {
    fn builds_json(&self) -> Value {
        Value::Array(
            self.builds
                .iter()
                .map(|(c, dir)| {
                    json!({"path": in_dir(MAIN_PATH, dir), "text": c.main,
                           "files": c.imports.iter().map(|(p, t)| json!([in_dir(p, dir), t])).collect::<Vec<_>>()})
                })
                .collect(),
        )
    }
    /// the replayable case: the builds and ONE interleaving
    fn case_json(&self, spec: &Value) -> Value {
        json!({"session": {
            "builds": self.builds.iter().map(|(c, dir)| json!({"dir": dir, "schema": c.schema, "main": c.main, "imports": c.imports, "k_only": c.k_only})).collect::<Vec<_>>(),
            "schedule": spec["schedule"], "abandon": spec["abandon"]}})
    }
    fn from_json(v: &Value) -> SessionCase {
        let s = &v["session"];
        SessionCase {
            builds: s["builds"].as_array().map(|a| a.iter().map(|b| (Case::from_json(b), b["dir"].as_str().unwrap_or("/p").to_string())).collect()).unwrap_or_default(),
            specs: vec![(json!({"schedule": s["schedule"], "abandon": s["abandon"]}), "replay".to_string())],
        }
    }
}

impl<'a> Ctx<'a> {
    /// run every session in the worker; judge, per build, the one-at-a-time module and every module that differs from it
    fn run_sessions(&mut self, client: &mut sessions::Client, scs: &[SessionCase]) {
        let mut items: Vec<(Case, BTreeSet<String>)> = vec![];
        for sc in scs {
            if sc.builds.is_empty() {
                continue;
            }
            let mut specs = vec![json!({"schedule": [], "abandon": []})];
            specs.extend(sc.specs.iter().map(|(v, _)| v.clone()));
            let answers = client.run(&sc.builds_json(), &specs);
            self.rep.count(&format!("session:builds:{}", sc.builds.len()));
            let build_item = |k: usize, spec: &Value, path: &'static str, out: Result<String, String>| -> (Case, BTreeSet<String>) {
                let mut cj = sc.case_json(spec);
                cj["build"] = json!(k);
                let mut c = sc.builds[k].0.clone();
                c.origin = format!("session-build({path})");
                c.external = Some(External { case_json: cj, outputs: vec![(path, out)] });
                (c, BTreeSet::new())
            };
            let read_out = |o: &Value| -> Option<Result<String, String>> {
                match (o[0].as_str(), o[1].as_str()) {
                    (Some("js"), Some(t)) => Some(Ok(t.to_string())),
                    (Some("err"), Some(e)) => Some(Err(e.to_string())),
                    _ => None,
                }
            };
            for (si, a) in answers.iter().enumerate() {
                let label = if si == 0 { "one-at-a-time".to_string() } else { sc.specs[si - 1].1.clone() };
                self.rep.count(&format!("session:schedule:{label}"));
                let cj = sc.case_json(&specs[si]);
                match a {
                    sessions::Answer::Died(d) => {
                        // an abort inside the loader: no module for any build of the session
                        self.rep.o_cases += 1;
                        let path = if si == 0 { "loader-seq" } else { "loader-interleaved" };
                        self.ofail(path, &format!("worker-died:{}", d.call), &format!("{path}: the loader process died during the session ({label}): {}", d.why), cj);
                    }
                    sessions::Answer::Ok(v) if v["panic"].as_bool() == Some(true) || !v["out"].is_array() => {
                        self.rep.fail("K", "session:worker-thread-failed", &format!("the session thread of the worker failed ({label}): {v}"), cj);
                    }
                    sessions::Answer::Ok(v) => {
                        self.rep.count(&format!("session:max-live-tasks:{}", v["live_max"].as_u64().unwrap_or(0).min(4)));
                        for (k, o) in v["out"].as_array().unwrap().iter().enumerate().take(sc.builds.len()) {
                            match (si, o[0].as_str()) {
                                (0, _) => match read_out(o) {
                                    Some(r) => items.push(build_item(k, &specs[0], "loader-seq", r)),
                                    None => self.rep.fail("K", "session:protocol", &format!("unexpected answer {o}"), cj.clone()),
                                },
                                (_, Some("=")) => self.rep.count("session:module-same-as-one-at-a-time"),
                                (_, Some("abandoned")) => self.rep.count("session:build-given-up"),
                                _ => match read_out(o) {
                                    Some(r) => {
                                        let what = match &r {
                                            Ok(t) => format!("a different module ({} bytes)", t.len()),
                                            Err(e) => format!("an error: {e}"),
                                        };
                                        self.rep.k_cases += 1;
                                        self.rep.fail(
                                            "K",
                                            "loader-interleaved:differs-from-one-at-a-time",
                                            &format!("build {k} ({label}): interleaved with the other builds its task gives {what}; trace: {}", v["trace"]),
                                            cj.clone(),
                                        );
                                        items.push(build_item(k, &specs[si], "loader-interleaved", r));
                                    }
                                    None => self.rep.fail("K", "session:protocol", &format!("unexpected answer {o}"), cj.clone()),
                                },
                            }
                        }
                    }
                }
            }
        }
        self.run(&items);
    }
}

/// sessions of fixed general shapes over small builds: non-LIFO frees with a later start, a build given up, two builds of
/// the same module, an erroring build (never freed, like loader-core) among good ones
fn corpus_sessions() -> Vec<SessionCase> {
    let with_import = |main: &str, frags: &str| Case { schema: None, main: main.to_string(), imports: vec![("/p/frags.graphql".into(), frags.to_string())], origin: "corpus".into(), k_only: false, external: None };
    let a = Case::text("query A { a ...FA } fragment FA on T { x }");
    let b = with_import("#import * from \"./frags.graphql\"\nquery B($v: Int = 1) { b(x: $v) { ...P } }", "fragment P on T { p ...Q } fragment Q on T { q } fragment R on T { r }");
    let c = Case::text("mutation C { c { ...G } } fragment G on T { g }");
    let d = with_import("#import Z from \"./frags.graphql\"\nsubscription D { ...Z } fragment L on T { ...Z l }", "fragment Z on T { z }");
    let mut bad = Case::text("query E { ...Nowhere }");
    bad.k_only = true;
    let spec = |s: &[usize], ab: &[Option<usize>]| (json!({"schedule": s, "abandon": ab}), "corpus".to_string());
    let dirs = |cs: Vec<Case>| -> Vec<(Case, String)> { cs.into_iter().enumerate().map(|(k, c)| (c, format!("/p{k}"))).collect() };
    vec![
        SessionCase {
            builds: dirs(vec![a.clone(), b.clone(), c.clone()]),
            specs: vec![
                // A and B start, A is finished and freed, C starts while B waits for its file
                spec(&[0, 1, 1, 0, 0, 0, 2, 1, 2, 1, 2, 1, 2, 1], &[]),
                // all start, the middle one is finished first
                spec(&[0, 1, 2, 1, 1, 1, 1, 1, 0, 2, 0, 2, 0, 2], &[]),
                // B is given up while waiting; the others go on
                spec(&[0, 1, 1, 2, 0, 2, 0, 2], &[None, Some(2), None]),
            ],
        },
        SessionCase {
            builds: dirs(vec![b.clone(), d.clone(), a.clone(), c.clone()]),
            specs: vec![
                spec(&[0, 1, 0, 1, 1, 1, 1, 1, 2, 0, 2, 3, 0, 3, 0, 2, 3, 2, 3], &[]),
                spec(&[0, 1, 2, 2, 2, 2, 3, 0, 1, 3, 0, 1, 3, 3], &[]),
            ],
        },
        SessionCase {
            // the same module built twice at the same time (two compilations of a bundler), next to another one
            builds: vec![(b.clone(), "/p0".into()), (b.clone(), "/p0".into()), (d.clone(), "/p2".into())],
            specs: vec![spec(&[0, 1, 0, 1, 0, 0, 0, 0, 2, 1, 2, 1, 2], &[]), spec(&[0, 2, 1, 0, 2, 1, 0, 2, 1, 0, 0, 0, 2, 2, 2], &[])],
        },
        SessionCase {
            builds: dirs(vec![bad.clone(), a.clone(), c.clone(), d.clone()]),
            specs: vec![spec(&[0, 1, 0, 0, 2, 1, 1, 1, 3, 2, 3, 2, 3, 2], &[]), spec(&[1, 0, 2, 0, 0, 2, 2, 2, 3, 1, 3, 1], &[])],
        },
    ]
}

fn corpus() -> Vec<Case> {
    let mut v = vec![
        // minimised past failures first
        Case::text("query Q($v: Int @d) { a }"),
        Case::text("query Q($v: [Int!]! = [1] @d(x: [1, {k: \"s\"}]) @e, $w: ID) { a(x: $v) }"),
        // fragment graphs
        Case::text("query Q { ...A } fragment A on T { x ...B } fragment B on T { y ...A }"),
        Case::text("query Q { ...A } fragment A on T { x ...A }"),
        Case::text("query Q { a } fragment F on T { b }"),
        Case::text("query Q { ...A } fragment D on T { d } fragment A on T { ...B ...C } fragment B on T { ...D } fragment C on T { ...D }"),
        Case::text("query Q { u { ... on T { v { ...A } } } } fragment A on T { u { ... { ...B } } } fragment B on T { b } fragment Unused on T { ...B }"),
        Case::text("fragment A on T { ...B ...A } fragment B on T { ...A b }"),
        // node kinds
        Case::text("query { f(a: 1, b: -0.5e10, c: \"s\\\"\\\\\\n\\u00e9\", d: true, e: null, g: RED, h: [1, [2, []]], i: {x: {y: []}, x: 2}, j: $v) }"),
        Case::text("query Q($v: [[Int!]!]! = [[1]], $s: String = \"\"\"\n  block \"quoted\"\n\"\"\") { a }"),
        Case::text("query Q @od(x: 1) { z: a @fd { ... on T @id { b } ... @skip(if: true) { c } ...F @sd } } fragment F on T @frd(y: [E]) { c }"),
        Case::text("mutation M { m } subscription S { s } query { q }"),
    ];
    // names shared across namespaces (operation / fragment / field / alias / variable / directive / type), case
    // variants, keyword-like names, derived identifiers, anonymous operation next to fragments
    for c in [
        "query A { ...A } fragment A on T { a }",
        "mutation A { m { ...B } } fragment B on T { b ...A } fragment A on T { x }",
        "query A { ...A } subscription B { ...A ...B } fragment A on T { a ...B } fragment B on T { b ...A }",
        "query a { ...A ...a } fragment A on T { x } fragment a on T { y } query A { ...a }",
        "{ ...query } fragment query on T { a ...Query } fragment Query on T { b }",
        "query f($f: Int = 1 @f) @f { f: f(f: $f) @f(f: f) { ...f ... on f { f } } } fragment f on f @f { f }",
        "query Get { ...GetQuery ...Get } fragment GetQuery on T { a } fragment Get on T { b } mutation get { ...get } fragment get on T { c ...GetQuery }",
        "query ($v: Int) { a(x: $v) { ...v ...a } } fragment v on T { v } fragment a on T { a ...x } fragment x on T { x }",
    ] {
        v.push(Case::text(c));
    }
    v.push(Case {
        schema: None,
        main: "#import A, B from \"./frags.graphql\"\nquery A { ...B } mutation B { ...B } fragment C on T { ...A }".into(),
        imports: vec![("/p/frags.graphql".into(), "fragment B on T { b ...A } fragment A on T { a }".into())],
        origin: "corpus".into(),
        k_only: false,
        external: None,
    });
    v.push(Case {
        schema: Some("type Query { me: Person! } type Mutation { rename(name: String): Person } type Person { id: ID! name: String best: Person }".into()),
        main: "query Person($name: String) { me { ...Person best { ...name } } } mutation name($name: String) { rename(name: $name) { ...name } } fragment Person on Person { id best { ...name } } fragment name on Person { name }".into(),
        imports: vec![],
        origin: "corpus".into(),
        k_only: false,
        external: None,
    });
    for c in [
        "query Q { ...Missing }",
        "query Q { ...F } fragment F on T { ...Missing }",
        "query Q { ...F } fragment F on T { a } fragment F on T { b }",
    ] {
        let mut k = Case::text(c);
        k.k_only = true;
        v.push(k);
    }
    v.push(Case {
        schema: None,
        main: "#import * from \"./frags.graphql\"\nquery Q { ...A } fragment L on T { l }".into(),
        imports: vec![("/p/frags.graphql".into(), "fragment A on T { ...B } fragment B on T { b } fragment C on T { c }".into())],
        origin: "corpus".into(),
        k_only: false,
        external: None,
    });
    v.push(Case {
        schema: Some("type Query { me: User } type User { id: ID! name: String friend: User }".into()),
        main: "query Q($b: Boolean! = true @deprecated) { me { ...U } } fragment U on User { id friend { ...U } name @skip(if: $b) }".into(),
        imports: vec![],
        origin: "corpus".into(),
        k_only: false,
        external: None,
    });
    v
}

fn main() {
    if std::env::args().nth(1).as_deref() == Some("--session-worker") {
        sessions::worker_main();
        return;
    }
    let args = Args::parse();
    quiet_panics();
    loader_native::init(0);
    let mut rep = Report::new(
        "C12",
        "case = (schema?, main file text, imported file texts) → every definition of the resolved document × output path (js / ts standalone / loader ABI); non-trivial = the definition has variable definitions or at least one appended fragment; distinct by the emitted JSON",
    );
    let mut drv = Driver::spawn(&args.driver);
    let mut ctx = Ctx { rep: &mut rep, drv: &mut drv, with_loader: true };

    if let Some(path) = &args.replay {
        let v: Value = serde_json::from_str(&std::fs::read_to_string(path).expect("replay file")).expect("replay json");
        if v["case"].get("session").is_some() {
            let mut client = sessions::Client::new();
            ctx.run_sessions(&mut client, &[SessionCase::from_json(&v["case"])]);
        } else {
            let case = Case::from_json(&v["case"]);
            ctx.run(&[(case, BTreeSet::new())]);
        }
        rep.write(&args);
        return;
    }

    // C12_SKIP_CORPUS=1 (debugging aid): only the generated streams, to see what THEY find
    let mut client = sessions::Client::new();
    if std::env::var("C12_SKIP_CORPUS").is_err() {
        ctx.run(&corpus().into_iter().map(|c| (c, BTreeSet::new())).collect::<Vec<_>>());
        ctx.run_sessions(&mut client, &corpus_sessions());
    }
    // builds for the interleaved loader sessions (C) are drawn from the cases of (A) and (B)
    let mut pool: Vec<Case> = vec![];

    let search = args.extra.get("search").map_or(false, |s| s == "1");
    let mut rng = Rng::new(args.seed);
    // (A) schema-valid documents (all three paths)
    let n_valid = if search { 2000 } else { args.budget(120, 1500) };
    let mut batch = vec![];
    for _ in 0..n_valid {
        let cfg = GenCfg { hostile_text: true, max_depth: 3, ..GenCfg::default() };
        let schema = gen_schema(&mut rng, &cfg);
        let (mut doc, mut features) = gen_doc(&mut rng, &schema, &cfg);
        // directives on variable definitions (never checked by the checker; @deprecated / @tag exist in every schema or not — irrelevant)
        for d in doc.defs.iter_mut() {
            if let ExecDef::Op(o) = d {
                for v in o.vars.iter_mut() {
                    if rng.chance(1, 3) {
                        v.dirs.push(Dir::new("vd", if rng.coin() { vec![] } else { vec![Arg::new("note", Val::Str("n\"q".into(), P::default()))] }));
                        features.insert("directive-on:variable-definition".into());
                    }
                }
            }
        }
        // names from the other namespaces (operation / field / alias / variable / directive / type …) as fragment and
        // operation names: legal, and the printers select the appended fragments by name
        if rng.chance(2, 5) {
            let type_names: Vec<String> = schema.types().map(|t| t.name.clone()).collect();
            features.extend(names::collide_names(&mut rng, &mut doc, &type_names));
        }
        let (main_doc, imports) = if rng.chance(1, 3) { split_imports(&mut rng, &doc) } else { (doc.clone(), vec![]) };
        if !imports.is_empty() {
            features.insert("imported-fragments".into());
        }
        let main = render(&mut rng, &main_doc);
        let imports: Vec<(String, String)> = imports.iter().map(|(p, d)| (p.clone(), doc_text(d))).collect();
        batch.push((Case { schema: Some(format!("{}\ndirective @vd(note: String) on VARIABLE_DEFINITION\n", schema.sdl())), main, imports, origin: "valid-by-construction".into(), k_only: false, external: None }, features));
        if pool.len() < 4000 {
            // without the schema: the loader never sees one, and the session judge needs none
            let mut c = batch.last().unwrap().0.clone();
            c.schema = None;
            pool.push(c);
        }
        if batch.len() >= 100 {
            ctx.run(&batch);
            batch.clear();
        }
    }
    ctx.run(&batch);
    batch.clear();
    // (B) syntactic documents (js + loader paths): every value kind, directives everywhere, cyclic fragment graphs
    let n_syn = if search { 12000 } else { args.budget(600, 8000) };
    for _ in 0..n_syn {
        let (mut doc, mut features, undefined) = gen_syntactic(&mut rng, true);
        if rng.chance(2, 5) {
            features.extend(names::collide_names(&mut rng, &mut doc, &[]));
        }
        if has_cycle(&doc) {
            features.insert("fragment-cycle".into());
        }
        if undefined {
            features.insert("undefined-fragment-name(K only unless unreachable)".into());
        }
        let (main_doc, imports) = if !undefined && rng.chance(1, 4) { split_imports(&mut rng, &doc) } else { (doc.clone(), vec![]) };
        if !imports.is_empty() {
            features.insert("imported-fragments".into());
        }
        let main = render(&mut rng, &main_doc);
        let imports: Vec<(String, String)> = imports.iter().map(|(p, d)| (p.clone(), doc_text(d))).collect();
        batch.push((Case { schema: None, main, imports, origin: "syntactic".into(), k_only: undefined, external: None }, features));
        if pool.len() < 4000 {
            pool.push(batch.last().unwrap().0.clone());
        }
        if batch.len() >= 200 {
            ctx.run(&batch);
            batch.clear();
        }
    }
    ctx.run(&batch);
    // (C) interleaved loader sessions (loader ABI in a child process): 2–4 builds on one loader instance, each served
    //     only from its own files; per build the module of ITS task is judged like any other output
    let n_sessions = if search { 1200 } else { args.budget(40, 500) };
    let with_imports: Vec<usize> = pool.iter().enumerate().filter(|(_, c)| !c.imports.is_empty()).map(|(i, _)| i).collect();
    let mut scs = vec![];
    for _ in 0..n_sessions {
        if pool.is_empty() {
            break;
        }
        let nb = [2, 3, 3, 4, 4][rng.below(5)];
        let mut builds: Vec<(Case, String)> = vec![];
        for k in 0..nb {
            if k > 0 && rng.chance(1, 8) {
                // the same module once more (same path, same files)
                let j = rng.below(k);
                builds.push(builds[j].clone());
                continue;
            }
            // builds that wait for imported files are where a host suspends: half of the draws
            let i = if !with_imports.is_empty() && rng.coin() { with_imports[rng.below(with_imports.len())] } else { rng.below(pool.len()) };
            builds.push((pool[i].clone(), format!("/p{k}")));
        }
        let calls: Vec<usize> = builds.iter().map(|(c, _)| calls_of(c)).collect();
        let specs = (0..3).map(|_| sessions::gen_schedule(&mut rng, &calls)).collect();
        scs.push(SessionCase { builds, specs });
        if scs.len() >= 50 {
            ctx.run_sessions(&mut client, &scs);
            scs.clear();
        }
    }
    ctx.run_sessions(&mut client, &scs);
    ctx.rep.count_n("session:worker-processes", client.spawned);
    ctx.rep.count_n("session:worker-deaths", client.deaths);
    rep.write(&args);
}
