//! C07 — parsing yields exactly the document the text denotes, with true positions.
//!
//! Texts: abstract documents from `nvh::gen` (operation documents AND type-system documents; `#import` lines,
//! extensions, descriptions, hostile strings, anonymous shorthand, optional leading `|`/`&`, BOM, block-string
//! descriptions, `\r\n` trivia) rendered canonically and with random legal trivia; plus a hand-written corpus,
//! block-string literals with their spec value, and token-level mutations (for error positions).
//!
//! K: REAL `parse_operation_document` / `parse_type_system_document` vs the Lean parser model (generated grammar
//!    run by the PEG interpreter + builder model): full AST with positions, parse-error position, panic site.
//! O: REAL result vs the abstract document the text was rendered from — structure first, then positions (= the
//!    token starts the renderer recorded); block strings vs the spec's BlockStringValue().
//!
//! Large documents (`c07/big.rs`, 100 KB … several MB: many / wide / deep definitions, long selection sets, big
//! descriptions and values) are judged by O against the document they were rendered from (all positions); K only
//! on a sample (byte budget). Stateful sequences (`c07/seq.rs`): sequences of parse calls (operation / type-system,
//! valid / invalid, small / large) in ONE child process vs each call alone in a fresh process — parsing must be a
//! function of the text.
use nvh::gen::*;
use nvh::gm::*;
use nvh::render::*;
use nvh::*;
use serde_json::{json, Value};

#[path = "c07/common.rs"]
mod common;
#[path = "c07/mutate.rs"]
mod mutate;
#[path = "c07/big.rs"]
mod big;
#[path = "c07/seq.rs"]
mod seq;
#[path = "c07/lookalike.rs"]
mod lookalike;
#[path = "c07/gaps.rs"]
mod gaps;
#[path = "c07/escapes.rs"]
mod escapes;
use common::*;
use seq::{Call, GenParams, Runner, Summ};

const RULE: &str = "a text is non-trivial if it parses to ≥ 2 definitions or contains an argument, directive, description or fragment (distinct by text)";

#[derive(Clone, Debug)]
struct Case {
    kind: &'static str,
    text: String,
    /// the abstract document (with the renderer's positions) the text denotes, if known
    expect: Option<Sexp>,
    label: String,
    features: Vec<String>,
}

impl Case {
    fn json(&self) -> Value {
        json!({"kind": self.kind, "text": self.text, "expect": self.expect.as_ref().map(|e| e.to_line()), "label": self.label})
    }
}

/// first top-level item (definition) at which two documents differ, as a short tag
fn first_diff(a: &Sexp, b: &Sexp) -> String {
    let (x, y) = (a.args(), b.args());
    for i in 0..x.len().max(y.len()) {
        match (x.get(i), y.get(i)) {
            (Some(p), Some(q)) if p == q => {}
            (Some(p), _) => return p.head().unwrap_or("?").to_string(),
            (None, Some(q)) => return format!("extra-{}", q.head().unwrap_or("?")),
            _ => {}
        }
    }
    "same".into()
}

/// long texts are shown by their head in messages
fn show_text(t: &str) -> String {
    if t.len() > 4000 { format!("{}… ({} bytes)", t.chars().take(300).collect::<String>(), t.len()) } else { t.to_string() }
}

struct Ctx<'a> {
    rep: &'a mut Report,
    drv: &'a mut Driver,
    slowest_ms: u128,
    /// judge by O in `run` (off for the K sample of the large-document stream, which has its own O)
    judge_o: bool,
}

impl<'a> Ctx<'a> {
    fn run(&mut self, cases: &[Case]) {
        let reqs: Vec<Sexp> = cases.iter().map(|c| request(c.kind, &c.text)).collect();
        let answers = self.drv.batch(&reqs);
        // `run_children_in_shape` (Props/C08, stated OPEN) evaluated on every text: a violation is a K failure
        let sreqs: Vec<Sexp> = cases.iter().map(|c| Sexp::call("gql.shapecheck", vec![Sexp::atom(c.kind), Sexp::str(c.text.as_str())])).collect();
        let shapes = self.drv.batch(&sreqs);
        for (c, sh) in cases.iter().zip(shapes.iter()) {
            match sh.head() {
                Some("ok") => self.rep.count_n("shape:pairs-checked", sh.args()[0].as_int().unwrap_or(0) as u64),
                Some("noparse") => {}
                _ => self.rep.fail("K", "shape:children-not-in-shape", &format!("{:?}: a pair's children are outside Shape.ruleShape of its rule: {}", show_text(&c.text), sh.to_line()), c.json()),
            }
        }
        for (c, ans) in cases.iter().zip(answers.iter()) {
            self.rep.evaluations += 1;
            let t0 = std::time::Instant::now();
            let real = real_parse(c.kind, &c.text);
            let ms = t0.elapsed().as_millis();
            self.slowest_ms = self.slowest_ms.max(ms);
            let model = model_res(ans);
            self.rep.k_cases += 1;
            self.rep.count(&format!("outcome:{}:{}", c.kind, real.kind()));
            self.rep.count(&format!("stream:{}", c.label.split(':').next().unwrap_or("")));
            for f in &c.features {
                self.rep.count(&format!("feature:{f}"));
            }
            // ---- K: model = code
            if real != model {
                let sig = match (&real, &model) {
                    (Res::Ok(a), Res::Ok(b)) if strip_pos(a) == strip_pos(b) => format!("parse-{}:positions", c.kind),
                    (Res::Ok(_), Res::Ok(_)) => format!("parse-{}:ast", c.kind),
                    (Res::Err(..), Res::Err(..)) => format!("parse-{}:error-position", c.kind),
                    (Res::Panic(_), Res::Panic(_)) => format!("parse-{}:panic-site", c.kind),
                    _ => format!("parse-{}:outcome-{}-vs-{}", c.kind, real.kind(), model.kind()),
                };
                self.rep.fail("K", &sig, &format!("{:?}: code → {} ; model → {}", show_text(&c.text), real.show(), model.show()), c.json());
            }
            // ---- O: code = the denoted document
            if !self.judge_o {
                continue;
            }
            if let Some(exp) = &c.expect {
                self.rep.o_cases += 1;
                match &real {
                    Res::Ok(got) => {
                        if strip_pos(got) != strip_pos(exp) {
                            let what = first_diff(&strip_pos(exp), &strip_pos(got));
                            let sig = if c.label.contains("block-string") { "block-string-raw".to_string() } else { format!("structure:{what}") };
                            self.rep.fail("O", &sig, &format!("{:?} parses to a different document than it denotes: expected {} got {}", c.text, strip_pos(exp).to_line(), strip_pos(got).to_line()), c.json());
                        } else if got != exp && !c.label.starts_with("block-string") && !c.label.contains("escape-forms") {
                            let what = first_diff(exp, got);
                            self.rep.fail("O", &format!("positions:{what}"), &format!("{:?}: a reported position is not the token start: expected {} got {}", c.text, exp.to_line(), got.to_line()), c.json());
                        }
                    }
                    Res::Err(l, col) => {
                        let sig = format!("syntax-error:{}", c.label.split(':').nth(1).unwrap_or("valid-document"));
                        self.rep.fail("O", &sig, &format!("valid text {:?} is rejected with a syntax error at {l}:{col}", c.text), c.json());
                    }
                    Res::Panic(m) => {
                        self.rep.fail("O", &format!("panic:{m}"), &format!("valid text {:?} makes the parser panic: {m}", c.text), c.json());
                    }
                    Res::Other(m) => self.rep.fail("O", "other", m, c.json()),
                }
            } else if let Res::Panic(m) = &real {
                // texts without a known denotation must still not panic
                self.rep.o_cases += 1;
                self.rep.fail("O", &format!("panic:{m}"), &format!("{:?} makes the parser panic: {m}", c.text), c.json());
            }
            if let Res::Ok(s) = &real {
                let t = &c.text;
                if s.args().len() >= 2 || t.contains('(') || t.contains('@') || t.contains("fragment") || t.contains('"') {
                    self.rep.nontrivial(&format!("{}|{}", c.kind, t));
                }
            }
        }
    }
}

// ------------------------------------------------------------------------------------------------
// rendering with the extra switches

struct RenderOpts {
    noisy: bool,
    bom: bool,
    block_desc: bool,
    crlf: bool,
}

fn style_of(o: &RenderOpts) -> Style {
    Style { trivia: o.noisy, block_desc: o.block_desc, exotic_newlines: o.crlf && o.noisy, unicode_comments: o.noisy }
}

fn render_op(doc: &mut Doc, o: &RenderOpts, rng: Rng) -> (String, Vec<&'static str>) {
    let mut e = Emitter::new(style_of(o), rng);
    if o.bom {
        e.bom();
    }
    for d in doc.defs.iter_mut() {
        r_execdef(&mut e, d);
    }
    e.finish()
}

fn render_ts(doc: &mut TsDoc, o: &RenderOpts, rng: Rng, lead: &mut Rng) -> (String, Vec<&'static str>) {
    let mut e = Emitter::new(style_of(o), rng);
    if o.bom {
        e.bom();
    }
    for d in doc.items.iter_mut() {
        let l = lead.chance(1, 4);
        if l {
            e.features.push("leading-separator");
        }
        r_tsitem(&mut e, d, l);
    }
    e.finish()
}

fn add_imports(rng: &mut Rng, doc: &mut Doc, feats: &mut Vec<String>) {
    let n = rng.below(3);
    for _ in 0..n {
        let k = 1 + rng.below(3);
        let mut targets = vec![];
        for j in 0..k {
            if rng.chance(1, 4) {
                targets.push(None);
            } else {
                targets.push(Some((format!("{}{}", ["Frag", "_f", "on1", "fromage", "importX"][rng.below(5)], j), P::default())));
            }
        }
        let path = ["./frags.graphql", "../x.graphql", "a b/ç.graphql", "q\"uote\\.graphql", ""][rng.below(5)].to_string();
        let at = rng.below(doc.defs.len() + 1);
        doc.defs.insert(at, ExecDef::Import(ImportDef { targets, path, pos: P::default() }));
        feats.push("import".into());
    }
}

fn set_shorthand(rng: &mut Rng, doc: &mut Doc, feats: &mut Vec<String>) {
    for d in doc.defs.iter_mut() {
        if let ExecDef::Op(o) = d {
            if o.kind == OpKind::Query && o.name.is_none() && o.vars.is_empty() && o.dirs.is_empty() && rng.chance(1, 2) {
                o.shorthand = true;
                feats.push("shorthand".into());
            }
        }
    }
}

// ------------------------------------------------------------------------------------------------
// block strings: the spec's BlockStringValue()

/// GraphQL spec §2.9.4 BlockStringValue(rawValue) (rawValue = the token's characters with `\"""` → `"""`)
fn block_string_value(raw: &str) -> String {
    // split on line terminators
    let mut lines: Vec<String> = vec![];
    let mut cur = String::new();
    let cs: Vec<char> = raw.chars().collect();
    let mut i = 0;
    while i < cs.len() {
        if cs[i] == '\r' {
            if i + 1 < cs.len() && cs[i + 1] == '\n' {
                i += 1;
            }
            lines.push(std::mem::take(&mut cur));
        } else if cs[i] == '\n' {
            lines.push(std::mem::take(&mut cur));
        } else {
            cur.push(cs[i]);
        }
        i += 1;
    }
    lines.push(cur);
    let is_ws = |c: char| c == ' ' || c == '\t';
    let mut common: Option<usize> = None;
    for l in lines.iter().skip(1) {
        let len = l.chars().count();
        let indent = l.chars().take_while(|c| is_ws(*c)).count();
        if indent < len && common.map_or(true, |c| indent < c) {
            common = Some(indent);
        }
    }
    if let Some(c) = common {
        for l in lines.iter_mut().skip(1) {
            *l = l.chars().skip(c).collect();
        }
    }
    while lines.first().map_or(false, |l| l.chars().all(is_ws)) {
        lines.remove(0);
    }
    while lines.last().map_or(false, |l| l.chars().all(is_ws)) {
        lines.pop();
    }
    lines.join("\n")
}

fn block_cases(rng: &mut Rng, n: usize) -> Vec<Case> {
    let bodies = ["a", "a\nb", "a\n  b\nc", "  indented first", "say \"hi\"", "tri \"\"\" ple", "é😀 ok", "x\n\ny", "tab\tin", "back\\slash \\n stays"];
    let mut out = vec![];
    for _ in 0..n {
        let s = bodies[rng.below(bodies.len())].to_string();
        let mut feats = vec![];
        // token text with the chosen layout
        let mut raw = s.replace("\"\"\"", "\\\"\"\"");
        if s.contains("\"\"\"") {
            feats.push("escaped-triple-quote".to_string());
        }
        let indent = if rng.coin() { 0 } else { 1 + rng.below(4) };
        let wrap = rng.coin() || indent > 0;
        if wrap {
            let pad = " ".repeat(indent);
            let body: Vec<String> = raw.split('\n').map(|l| if l.is_empty() { String::new() } else { format!("{pad}{l}") }).collect();
            raw = format!("\n{}\n{}", body.join("\n"), if indent > 0 && rng.coin() { pad.clone() } else { String::new() });
            feats.push(if indent > 0 { "common-indent".to_string() } else { "blank-first-last-line".to_string() });
        }
        if raw.ends_with('"') {
            continue;
        }
        // the denoted value, by the spec algorithm (self-check of the generator: it must be `s` unless the
        // first line of `s` itself starts with whitespace that the algorithm keeps)
        let denoted = block_string_value(&raw.replace("\\\"\"\"", "\"\"\""));
        let token = format!("\"\"\"{raw}\"\"\"");
        if rng.coin() {
            let text = format!("query {{ f(a: {token}) }}");
            let exp = Doc {
                defs: vec![ExecDef::Op(OpDef {
                    kind: OpKind::Query, name: None, vars: vec![], dirs: vec![], pos: P::default(), shorthand: false,
                    sel: vec![Sel::Field { alias: None, name: "f".into(), name_pos: P::default(), args: vec![Arg::new("a", Val::Str(denoted, P::default()))], dirs: vec![], sel: None }],
                })],
            };
            out.push(Case { kind: "op", text, expect: Some(strip_pos(&exp.to_sexp())), label: "block-string:value".into(), features: feats });
        } else {
            let text = format!("{token}\ntype T {{ f: Int }}");
            let mut t = TypeDef::new(TypeKind::Object, "T");
            t.desc = Some(denoted);
            t.fields = vec![FieldDef { desc: None, name: "f".into(), pos: P::default(), args: vec![], ty: Ty::named("Int"), dirs: vec![] }];
            let exp = TsDoc { items: vec![TsItem::TypeDef(t)] };
            out.push(Case { kind: "ts", text, expect: Some(strip_pos(&exp.to_sexp())), label: "block-string:description".into(), features: feats });
        }
    }
    out
}

// ------------------------------------------------------------------------------------------------

fn corpus() -> Vec<Case> {
    let mut v = vec![];
    let mut add = |kind: &'static str, text: &str, expect: Option<&str>, label: &str| {
        v.push(Case { kind, text: text.to_string(), expect: expect.map(|e| Sexp::parse(e).expect("corpus sexp")), label: format!("corpus:{label}"), features: vec![] });
    };
    // the defects of DESIGN §9 t–w (minimal witnesses), each with the document it denotes
    add("op", "{ a }", Some("(doc (op query (noname) () () ((field (noalias) \"a\" (p 0 2) () () (nosel))) (p 0 0)))"), "shorthand");
    add("op", "{a} #x", Some("(doc (op query (noname) () () ((field (noalias) \"a\" (p 0 1) () () (nosel))) (p 0 0)))"), "comment-at-eof");
    add("op", "query { a } # c", Some("(doc (op query (noname) () () ((field (noalias) \"a\" (p 0 8) () () (nosel))) (p 0 0)))"), "comment-at-eof");
    add("ts", "scalar S #", Some("(tsdoc (typedef scalar (nodesc) \"S\" (p 0 7) () () () () () () (p 0 0)))"), "comment-at-eof");
    add("op", "query { a(s: \"\\uD800\") }", None, "lone-surrogate");
    add("op", "query { a(s: \"\\u{110000}\") }", None, "code-point-out-of-range");
    add("op", "query { a(s: \"\\u{123456789}\") }", None, "hex-overflow");
    add("op", "query { a(s: \"\\u{00000000041}\") }", Some("(doc (op query (noname) () () ((field (noalias) \"a\" (p 0 8) ((arg \"s\" (p 0 10) (str \"A\" (p 0 13)))) () (nosel))) (p 0 0)))"), "long-hex");
    // fix fff8e9c: a surrogate pair written as two \uXXXX escapes in ONE literal is one supplementary character
    add("op", "query { a(s: \"\\uD83D\\uDE00\") }", Some("(doc (op query (noname) () () ((field (noalias) \"a\" (p 0 8) ((arg \"s\" (p 0 10) (str \"\u{1F600}\" (p 0 13)))) () (nosel))) (p 0 0)))"), "surrogate-pair");
    add("op", "query { a(s: \"x\\ud83d\\ude00\\uDBFF\\uDFFFy\") }", Some("(doc (op query (noname) () () ((field (noalias) \"a\" (p 0 8) ((arg \"s\" (p 0 10) (str \"x\u{1F600}\u{10FFFF}y\" (p 0 13)))) () (nosel))) (p 0 0)))"), "surrogate-pair");
    add("ts", "\"\\uD83D\\uDE00\" scalar S", Some("(tsdoc (typedef scalar (desc \"\u{1F600}\") \"S\" (p 0 22) () () () () () () (p 0 15)))"), "surrogate-pair");
    for t in ["query { a(s: \"\\uD83D\") }", "query { a(s: \"\\uDE00\\uD83D\") }", "query { a(s: \"\\uD83Dx\\uDE00\") }", "query { a(s: \"\\uD83D\\u{DE00}\") }",
        "query { a(s: \"\\uD83D\\uD83D\\uDE00\") }", "query { a(s: \"\\uD83D\") b(t: \"\\uDE00\") }", "query { a(s: \"\\uD83D\\n\") }", "query { a(s: \"ok\\uD83D\\uDE00\" t: \"\\uDC00\") }"] {
        add("op", t, None, "surrogate-misuse");
    }
    add("op", "query { a(s: \"\"\"\n  a\n\"\"\") }", Some("(doc (op query (noname) () () ((field (noalias) \"a\" (p 0 8) ((arg \"s\" (p 0 10) (str \"a\" (p 0 13)))) () (nosel))) (p 0 0)))"), "block-string");
    // text that looks like an escape / token of another lexical context (after an escaped backslash, in a comment,
    // in a block string): it denotes itself
    add("op", "query { a(s: \"\\\\uDBFF \\\\u{110000} \\\\q\") }", Some("(doc (op query (noname) () () ((field (noalias) \"a\" (p 0 8) ((arg \"s\" (p 0 10) (str \"\\\\uDBFF \\\\u{110000} \\\\q\" (p 0 13)))) () (nosel))) (p 0 0)))"), "lookalike-string");
    add("op", "query { # \\uDBFF \\u{110000} \\q \"\"\" \"\n a }", Some("(doc (op query (noname) () () ((field (noalias) \"a\" (p 1 1) () () (nosel))) (p 0 0)))"), "lookalike-comment");
    add("ts", "\"\"\"not \\uDBFF, \\u{110000}, \\q or # { $v\"\"\" scalar S", Some("(tsdoc (typedef scalar (desc \"not \\\\uDBFF, \\\\u{110000}, \\\\q or # { $v\") \"S\" (p 0 50) () () () () () () (p 0 43)))"), "lookalike-blockstr");
    // assorted shapes
    for t in ["", " ", "\u{feff}", "#", "# c\n", "query", "query {", "query { }", "{", "}", "query Q { a", "fragment on on T { a }", "fragment F on T { a }",
        "query { ...on }", "query { ... on T { a } }", "query { ...on T { a } }", "query { ...F }", "query { on }", "query { true }", "query { a(x: true1) }",
        "query { a(x: nullx) }", "query { a(x: -) }", "query { a(x: 1.) }", "query { a(x: 1.e5) }", "query { a(x: 01) }", "query { a(x: 1a) }", "query { a(x: 1.5.2) }",
        "query { a(x: .5) }", "query { a(x: \"\") }", "query { a(x: \"\"\"\"\"\") }", "query { a(x: \"\"\"\"\"\"\") }", "query { a(x: \"a\nb\") }", "query { a(x: [) }",
        "query { a(x: []) }", "query { a(x: {}) }", "query { a(x: {a:1,,b:[1,2]}) }", "query($a:[[Int!]]!=[[1]] @d){a}", "query Q @a @b(c:1) { a }", "mutation { a } subscription S { b }",
        "#import A from \"x\"\nquery { a }", "#import A, B from \"x\"\n", "# import A from \"x\"\nquery { a }", "#import * from \"x\"", "#  import A from \"x\"\nquery{a}", "#importA from \"x\"\nquery{a}",
        "#import A from \"x\" query { a }", "#import from \"x\"\nquery{a}", "#import A from\nquery{a}", "query { a } #import A from \"x\"\n", "query { a #import A from \"x\"\n }",
        "query { a # import B from \"y\"\n }", "#import A from \"\\u0041\"\n", "#import A,, B from \"\"\"b\"\"\"\n", "query { a(x: $v) }", "query { a(x: $ v) }", "query { a @ d }", "query{a\r\nb\rc}",
        "query { a }\u{feff}", "\u{feff}query { a }", "query { a\u{2028} }", "query { a\u{0} }", "query { é }", "query { a(x: \"é😀\") }", "{ a } { b }", "{ a } query { b }", "query { a { b { c } } }"] {
        add("op", t, None, "shape");
    }
    for t in ["", "type", "type T", "type T {", "type T { }", "type T { f: Int }", "type T implements I", "type T implements & I & J { f: Int }", "type T implements I & { f: Int }",
        "type T @d", "type T @d { f: Int }", "type T implements I @d", "extend type T", "extend type T implements I", "extend type T @d", "extend type T { f: Int }",
        "interface I", "interface I { f: Int }", "interface I implements J", "extend interface I", "extend interface I implements J", "extend interface I @d", "union U", "union U =", "union U = A",
        "union U = | A | B", "union U @d = A | B", "union U = A |", "extend union U", "extend union U @d", "extend union U = A", "extend union U =", "enum E", "enum E { A }", "enum E { true }",
        "enum E { A @d \"x\" B }", "extend enum E", "extend enum E @d", "extend enum E { A }", "input I", "input I { a: Int = 1 }", "extend input I", "extend input I { a: Int }",
        "scalar S", "scalar S @d", "extend scalar S", "extend scalar S @d", "schema { query: Q }", "schema @d { query: Q mutation: M subscription: S }", "schema { q: Q }", "schema",
        "extend schema @d", "extend schema { query: Q }", "extend schema @d { query: Q }", "extend schema", "extend schema @d {", "\"d\" schema { query: Q }", "\"d\" extend type T { f: Int }",
        "directive @d on FIELD", "directive @d on FIELD | FIELD_DEFINITION", "directive @d on | FIELD", "directive @d on FIELDX", "directive @d on FIELD_DEFINITION", "directive @d on ENUM_VALUE | ENUM",
        "directive @d(a: Int = 1 @x, \"d\" b: [T!]!) repeatable on OBJECT", "directive @d repeatable on", "directive d on FIELD", "directive @ d on FIELD", "\"\"\"b\"\"\" directive @d on QUERY",
        "type T { f(a: Int): Int }", "type T { f(): Int }", "type T { f: [Int }", "type T { f: [[[[[[[[Int]]]]]]]] }", "type T { f: Int!! }", "type T { \"d\" f: Int \"\"\"e\"\"\" g: Int }",
        "type T { f: Int } #", "type T { f: Int } # c\n", "type type { type: type }", "type T { on: on }", "type T { f: Int @deprecated(reason: \"\\uD800\") }", "query { a }"] {
        add("ts", t, None, "shape");
    }
    v
}

// ------------------------------------------------------------------------------------------------
// large documents and stateful sequences

fn call_of_big(b: &big::Big, g: &GenParams) -> Call {
    Call { kind: b.kind, text: b.text.clone(), expect: Some(b.expect.clone()), bounds: b.bounds.clone(), tag: seq::large_tag(b.kind, "valid", b.shape), gen: Some(g.clone()) }
}

/// the smallest documents of each kind and outcome (predecessors tried when a failure depends on the process state)
fn tiny_calls() -> Vec<Call> {
    let mk = |kind: &'static str, text: &str, valid: bool| Call::literal(kind, text.to_string(), None, format!("{kind}:tiny:{}", if valid { "valid" } else { "invalid" }));
    vec![mk("op", "{ a }", true), mk("ts", "scalar S", true), mk("op", "query {", false), mk("ts", "type T {", false)]
}

/// A valid document was judged wrong in THIS process (which has parsed thousands of texts before). Reduce it to
/// something a fresh process reproduces: the document alone, or a predecessor followed by the document.
fn reduce_in_process_failure(rep: &mut Report, run: &mut Runner, c: &Call, here: &Summ, budget: &mut usize) {
    let fresh = run.fresh(c);
    if let Some((sig, what)) = seq::judge_expect(run, c, &fresh) {
        let m = if *budget > 0 { *budget -= 1; seq::minimise_single(run, c, &sig) } else { c.clone() };
        rep.fail("O", &sig, &what, seq::seq_case(&[], &m, "large-document"));
        return;
    }
    // fine in a fresh process: the result depends on what the process parsed before
    for p in tiny_calls() {
        if let Some((f, s)) = seq::differs(run, std::slice::from_ref(&p), c) {
            if *budget > 0 {
                *budget -= 1;
                let (mp, ml) = seq::minimise(run, vec![p.clone()], c.clone());
                if let Some((f2, s2)) = seq::differs(run, &mp, &ml) {
                    seq::report_state(rep, &mp, &ml, &f2, &s2, "large-document-in-long-lived-process");
                    return;
                }
            }
            seq::report_state(rep, &[p], c, &f, &s, "large-document-in-long-lived-process");
            return;
        }
    }
    let sig = format!("stateful:{}-after-long-session:{}-became-{}", c.kind, fresh.outcome, here.outcome);
    rep.fail("O", &sig, &format!("the {} document {:?}… ({} bytes) gives [{}] in a fresh process but [{}] in this process after the earlier streams (not reproduced by one predecessor)", c.kind, c.text.chars().take(120).collect::<String>(), c.text.len(), fresh.show(), here.show()),
        seq::seq_case(&[], c, "large-document-in-long-lived-process"));
}

/// no document larger than this goes through the Lean interpreter
const K_DOC_LIMIT: usize = 400_000;

/// (documents, bytes, largest, K-sampled bytes)
fn large_stream(ctx: &mut Ctx, run: &mut Runner, rng: &mut Rng, args: &Args) -> (u64, u64, u64, u64) {
    let n = args.budget(8, 40);
    let (lo, hi) = (105_000usize, args.budget(250_000, 2_600_000));
    let depth = args.budget(48, 120);
    // the Lean interpreter needs ≈ 10 s per MB on these texts: K only while this byte budget lasts
    let mut k_left = args.budget(170_000, 3_000_000);
    let mut reduce_budget = 2usize;
    let (mut docs, mut bytes, mut largest, mut k_bytes) = (0u64, 0u64, 0u64, 0u64);
    let first_shape = rng.below(8);
    for i in 0..n {
        // every shape in turn (starting anywhere, so the K sample moves over the shapes with the seed); sizes grow
        let target = lo + (hi - lo) * i / (n - 1);
        let tg = std::time::Instant::now();
        let params = GenParams { rng_state: rng.0, shape: first_shape + i, target, depth, prefix: None, mutate_state: None };
        let b = big::gen_big(rng, first_shape + i, target, depth);
        let gen_ms = tg.elapsed().as_millis();
        docs += 1;
        bytes += b.text.len() as u64;
        largest = largest.max(b.text.len() as u64);
        ctx.rep.count(&format!("large:{}", b.shape));
        ctx.rep.count(&format!("large:size:{}", match b.text.len() { 0..=99_999 => "<100K", 100_000..=249_999 => "100K-250K", 250_000..=499_999 => "250K-500K", 500_000..=999_999 => "500K-1M", _ => ">=1M" }));
        ctx.rep.count_n("large:definitions", b.defs() as u64);
        for f in &b.features {
            ctx.rep.count(&format!("feature:{f}"));
        }
        // ---- O in this long-lived process: all of the structure and every position
        let t0 = std::time::Instant::now();
        let real = real_parse(b.kind, &b.text);
        let parse_ms = t0.elapsed().as_millis();
        ctx.slowest_ms = ctx.slowest_ms.max(parse_ms);
        if std::env::var("C07_TIMING").is_ok() {
            eprintln!("large {} {} bytes {} defs: gen {gen_ms} ms, real parse+convert {parse_ms} ms", b.shape, b.text.len(), b.defs());
        }
        let here = Summ::of(&real);
        ctx.rep.o_cases += 1;
        ctx.rep.evaluations += 1;
        ctx.rep.count(&format!("outcome:{}:{}", b.kind, real.kind()));
        ctx.rep.count("stream:large");
        let good = matches!(&real, Res::Ok(got) if *got == b.expect);
        if good {
            ctx.rep.nontrivial(&format!("{}|{}", b.kind, b.text));
        } else {
            reduce_in_process_failure(ctx.rep, run, &call_of_big(&b, &params), &here, &mut reduce_budget);
        }
        // ---- K on a sample (the Lean interpreter needs ≈ 2 s per MB)
        if b.text.len() <= k_left && b.text.len() <= K_DOC_LIMIT {
            k_left -= b.text.len();
            k_bytes += b.text.len() as u64;
            ctx.judge_o = false;
            ctx.run(&[Case { kind: b.kind, text: b.text.clone(), expect: None, label: format!("large:{}", b.shape), features: vec!["large:k-sampled".into()] }]);
            ctx.judge_o = true;
            ctx.rep.evaluations -= 1;
            if std::env::var("C07_TIMING").is_ok() {
                eprintln!("   K on it: {} ms", t0.elapsed().as_millis() - parse_ms);
            }
        }
    }
    (docs, bytes, largest, k_bytes)
}

fn small_calls(rng: &mut Rng) -> Vec<Call> {
    let cfg = GenCfg { hostile_text: rng.coin(), descriptions: true, max_depth: 2 + rng.below(3), ..GenCfg::default() };
    let schema = gen_schema(rng, &cfg);
    let mut out = vec![];
    let o = RenderOpts { noisy: rng.coin(), bom: rng.chance(1, 8), block_desc: rng.chance(1, 3), crlf: rng.chance(1, 4) };
    let mut m = if rng.coin() { schema.doc.clone() } else { split_into_extensions(rng, &schema) };
    let mut lead = rng.fork();
    let (text, _) = render_ts(&mut m, &o, rng.fork(), &mut lead);
    let (mt, ml) = mutate::mutate(rng, &text);
    out.push(Call::literal("ts", text, Some(m.to_sexp()), "ts:small:valid:type-system".into()));
    out.push(Call::literal("ts", mt, None, format!("ts:small:mutated:{ml}")));
    let (doc, _) = gen_doc(rng, &schema, &cfg);
    let mut d = doc.clone();
    let mut fs = vec![];
    add_imports(rng, &mut d, &mut fs);
    set_shorthand(rng, &mut d, &mut fs);
    let o = RenderOpts { noisy: rng.coin(), bom: rng.chance(1, 8), block_desc: false, crlf: rng.chance(1, 4) };
    let (text, _) = render_op(&mut d, &o, rng.fork());
    let (mt, ml) = mutate::mutate(rng, &text);
    out.push(Call::literal("op", text, Some(d.to_sexp()), "op:small:valid:operation".into()));
    out.push(Call::literal("op", mt, None, format!("op:small:mutated:{ml}")));
    out
}

/// (sequences, calls)
fn sequence_stream(ctx: &mut Ctx, run: &mut Runner, rng: &mut Rng, args: &Args) -> (u64, u64) {
    let rounds = args.budget(2, 8);
    let per_round = args.budget(4, 8);
    let (lo, hi) = (112_000usize, args.budget(200_000, 2_000_000));
    let depth = args.budget(48, 120);
    let mut min_budget = 2usize;
    let (mut n_seq, mut n_calls) = (0u64, 0u64);
    for r in 0..rounds {
        // ---- the pool of this round: tiny, small (valid + mutated) and large (valid + mutated) documents of both kinds
        let tr = std::time::Instant::now();
        let mut pool = small_calls(rng);
        let smalls = pool.len();
        pool.extend(tiny_calls());
        let target = |rng: &mut Rng| lo + rng.below(hi - lo);
        let t1 = target(rng);
        let s1 = rng.below(4);
        let g1 = GenParams { rng_state: rng.0, shape: s1, target: t1, depth, prefix: None, mutate_state: None };
        let big_ts = big::gen_big(rng, s1, t1, depth);
        let t2 = target(rng);
        let s2 = 4 + rng.below(4);
        let g2 = GenParams { rng_state: rng.0, shape: s2, target: t2, depth, prefix: None, mutate_state: None };
        let big_op = big::gen_big(rng, s2, t2, depth);
        let larges = pool.len();
        pool.push(call_of_big(&big_ts, &g1));
        pool.push(call_of_big(&big_op, &g2));
        let (victim, gv) = if r % 2 == 0 { (&big_ts, &g1) } else { (&big_op, &g2) };
        let ms = rng.0;
        let (mt, ml) = mutate::mutate(rng, &victim.text);
        pool.push(Call { kind: victim.kind, text: mt, expect: None, bounds: vec![], tag: format!("{}:large:mutated:{ml}", victim.kind), gen: Some(GenParams { mutate_state: Some(ms), ..gv.clone() }) });
        // ---- every document alone in a fresh process; rendered ones must give the document they denote
        let tf = std::time::Instant::now();
        let fresh: Vec<Summ> = pool.iter().map(|c| run.fresh(c)).collect();
        if std::env::var("C07_TIMING").is_ok() {
            eprintln!("round {r}: pool generated in {} ms, {} fresh runs in {} ms", tr.elapsed().as_millis() - tf.elapsed().as_millis(), pool.len(), tf.elapsed().as_millis());
        }
        for (c, s) in pool.iter().zip(fresh.iter()) {
            ctx.rep.evaluations += 1;
            ctx.rep.count(&format!("fresh-call:{}:{}", c.tag.split(':').take(3).collect::<Vec<_>>().join(":"), s.outcome));
            if c.expect.is_some() {
                ctx.rep.o_cases += 1;
                if let Some((sig, what)) = seq::judge_expect(run, c, s) {
                    let m = if min_budget > 0 { min_budget -= 1; seq::minimise_single(run, c, &sig) } else { c.clone() };
                    ctx.rep.fail("O", &sig, &what, seq::seq_case(&[], &m, "document-in-fresh-process"));
                }
            } else if s.outcome == "panic" || s.outcome == "crash" {
                // texts without a known denotation must still not panic or kill the process
                ctx.rep.o_cases += 1;
                let sig = if s.outcome == "panic" { format!("panic:{}", s.detail) } else { format!("crash:{}", c.tag.split(':').take(3).collect::<Vec<_>>().join("-")) };
                ctx.rep.fail("O", &sig, &format!("{:?}… makes the parser {}: {}", c.text.chars().take(200).collect::<String>(), s.outcome, s.detail), seq::seq_case(&[], c, "document-in-fresh-process"));
            }
        }
        // ---- sequences over the pool in ONE process each, in varying orders
        for k in 0..per_round {
            let mut order: Vec<usize> = vec![];
            // every (small or tiny predecessor, large successor) pair is met within the rounds; then random calls,
            // repetitions allowed (the same text twice in one process must give the same answer)
            order.push((r * per_round + k) % larges);
            order.push(larges + rng.below(pool.len() - larges));
            for _ in 0..rng.below(5) {
                order.push(rng.below(pool.len()));
            }
            if rng.chance(1, 3) {
                // sometimes the large document comes first
                order.swap(0, 1);
            }
            let _ = smalls;
            let calls: Vec<&Call> = order.iter().map(|&i| &pool[i]).collect();
            let fr: Vec<&Summ> = order.iter().map(|&i| &fresh[i]).collect();
            let judged = seq::check_sequence(ctx.rep, run, &calls, &fr, "sequence", false, &mut min_budget);
            ctx.rep.o_cases += judged;
            ctx.rep.count("stream:sequence");
            ctx.rep.count(&format!("sequence:length:{}", calls.len()));
            n_seq += 1;
            n_calls += judged;
        }
        if std::env::var("C07_TIMING").is_ok() {
            eprintln!("round {r}: total {} ms", tr.elapsed().as_millis());
        }
    }
    (n_seq, n_calls)
}

/// replay of a stored sequence case: each call alone in a fresh process, then the whole sequence in one process
fn replay_sequence(rep: &mut Report, run: &mut Runner, calls: &[Call], label: &str) {
    let fresh: Vec<Summ> = calls.iter().map(|c| run.fresh(c)).collect();
    for (c, s) in calls.iter().zip(fresh.iter()) {
        rep.evaluations += 1;
        if c.expect.is_some() {
            rep.o_cases += 1;
            if let Some((sig, what)) = seq::judge_expect(run, c, s) {
                rep.fail("O", &sig, &what, seq::seq_case(&[], c, label));
            }
        } else if s.outcome == "panic" || s.outcome == "crash" {
            rep.o_cases += 1;
            let sig = if s.outcome == "panic" { format!("panic:{}", s.detail) } else { format!("crash:{}", c.tag.split(':').take(3).collect::<Vec<_>>().join("-")) };
            rep.fail("O", &sig, &format!("{:?}… makes the parser {}: {}", c.text.chars().take(200).collect::<String>(), s.outcome, s.detail), seq::seq_case(&[], c, label));
        }
    }
    let mut none = 0usize;
    let refs: Vec<&Call> = calls.iter().collect();
    let fr: Vec<&Summ> = fresh.iter().collect();
    rep.o_cases += seq::check_sequence(rep, run, &refs, &fr, label, true, &mut none);
}

fn main() {
    let args = Args::parse();
    if let Some(job) = args.extra.get("seq-child") {
        // child of the stateful-sequence stream: run the calls of the job file in this (fresh) process
        seq::child_main(job, &args.out);
        return;
    }
    quiet_panics();
    let mut rep = Report::new("C07", RULE);
    let mut drv = Driver::spawn(&args.driver);
    let mut ctx = Ctx { rep: &mut rep, drv: &mut drv, slowest_ms: 0, judge_o: true };

    if let Some(path) = &args.replay {
        let v: Value = serde_json::from_str(&std::fs::read_to_string(path).expect("replay file")).expect("replay json");
        let c = &v["case"];
        if c["kind"].as_str() == Some("seq") {
            let calls: Vec<Call> = c["calls"].as_array().map(|a| a.iter().map(Call::from_json).collect()).unwrap_or_default();
            let mut run = Runner::new(&args.scratch);
            replay_sequence(ctx.rep, &mut run, &calls, c["label"].as_str().unwrap_or("replay"));
            rep.write(&args);
            return;
        }
        let kind = if c["kind"].as_str() == Some("ts") { "ts" } else { "op" };
        let case = Case {
            kind,
            text: c["text"].as_str().unwrap_or("").to_string(),
            expect: c["expect"].as_str().and_then(Sexp::parse),
            label: c["label"].as_str().unwrap_or("replay").to_string(),
            features: vec![],
        };
        ctx.run(&[case]);
        rep.write(&args);
        return;
    }

    // corpus first
    ctx.run(&corpus());

    let mut rng = Rng::new(args.seed);
    let search = args.extra.get("search").is_some();
    // `--streams new` (debugging aid): only the large-document and stateful-sequence streams
    let only_new = args.extra.get("streams").map(|s| s.as_str()) == Some("new");
    let n_schemas = if only_new { 0 } else if search { 1500 } else { args.budget(260, 2600) };
    let mut batch: Vec<Case> = vec![];
    for i in 0..n_schemas {
        let cfg = GenCfg { hostile_text: i % 3 == 0, descriptions: true, max_depth: 2 + rng.below(3), ..GenCfg::default() };
        let schema = gen_schema(&mut rng, &cfg);
        // ---- type-system documents: as generated, and split into extensions
        let tsdocs = [schema.doc.clone(), split_into_extensions(&mut rng, &schema)];
        for (k, d) in tsdocs.iter().enumerate() {
            for noisy in [false, true] {
                let o = RenderOpts { noisy, bom: rng.chance(1, 8), block_desc: rng.chance(1, 3), crlf: rng.chance(1, 4) };
                let mut m = d.clone();
                let mut lead = rng.fork();
                let (text, feats) = render_ts(&mut m, &o, rng.fork(), &mut lead);
                let mut features: Vec<String> = feats.iter().map(|s| s.to_string()).collect();
                features.push(if noisy { "render:noisy".into() } else { "render:canonical".into() });
                if k == 1 {
                    features.push("extensions".into());
                }
                if o.block_desc {
                    features.push("block-descriptions".into());
                }
                if cfg.hostile_text {
                    features.push("hostile-text".into());
                }
                if i < 2 && !noisy {
                    ctx.rep.sample(json!({"kind": "ts", "text": text.chars().take(400).collect::<String>()}));
                }
                // a mutation of the same text (K: error positions / panic agreement)
                let (mt, ml) = mutate::mutate(&mut rng, &text);
                batch.push(Case { kind: "ts", text: mt, expect: None, label: format!("mutation:{ml}"), features: vec![format!("mutation:{ml}")] });
                if rng.chance(1, 6) {
                    let mut t = text.trim_end().to_string();
                    t.push_str([" #", " # trailing comment", "\n#x é"][rng.below(3)]);
                    batch.push(Case { kind: "ts", text: t, expect: Some(m.to_sexp()), label: "valid:comment-at-eof".into(), features: vec!["comment-at-eof".into()] });
                }
                batch.push(Case { kind: "ts", text, expect: Some(m.to_sexp()), label: "valid:type-system".into(), features });
            }
        }
        // ---- operation documents
        for _ in 0..2 {
            let (doc, fs) = gen_doc(&mut rng, &schema, &cfg);
            let mut base_feats: Vec<String> = fs.into_iter().filter(|f| !f.starts_with("ops:")).collect();
            let mut d = doc.clone();
            add_imports(&mut rng, &mut d, &mut base_feats);
            set_shorthand(&mut rng, &mut d, &mut base_feats);
            for noisy in [false, true] {
                let o = RenderOpts { noisy, bom: rng.chance(1, 8), block_desc: false, crlf: rng.chance(1, 4) };
                let mut m = d.clone();
                let (text, feats) = render_op(&mut m, &o, rng.fork());
                let mut features: Vec<String> = feats.iter().map(|s| s.to_string()).collect();
                features.extend(base_feats.iter().cloned());
                features.push(if noisy { "render:noisy".into() } else { "render:canonical".into() });
                if i < 2 && !noisy {
                    ctx.rep.sample(json!({"kind": "op", "text": text.chars().take(400).collect::<String>()}));
                }
                let (mt, ml) = mutate::mutate(&mut rng, &text);
                batch.push(Case { kind: "op", text: mt, expect: None, label: format!("mutation:{ml}"), features: vec![format!("mutation:{ml}")] });
                if rng.chance(1, 6) {
                    let mut t = text.trim_end().to_string();
                    t.push_str([" #", " # trailing comment", "\n#x é"][rng.below(3)]);
                    batch.push(Case { kind: "op", text: t, expect: Some(m.to_sexp()), label: "valid:comment-at-eof".into(), features: vec!["comment-at-eof".into()] });
                }
                let label = if features.iter().any(|f| f == "shorthand") { "valid:shorthand" } else { "valid:operation" };
                batch.push(Case { kind: "op", text, expect: Some(m.to_sexp()), label: label.into(), features });
            }
        }
        if batch.len() >= 600 {
            ctx.run(&batch);
            batch.clear();
        }
    }
    ctx.run(&batch);
    let blocks = block_cases(&mut rng, args.budget(200, 2000));
    ctx.run(&blocks);
    // ---- every way of writing a character in a normal string (plain, simple escape, \uXXXX, \u{…}, surrogate pair), and
    //      surrogate misuse; an own generator state, so that the streams that follow are unchanged
    if !only_new {
        let mut erng = Rng::new(args.seed ^ 0x00E5_CA9E_F0B3);
        let mut batch: Vec<Case> = vec![];
        for (i, e) in escapes::valid_cases(&mut erng, args.budget(400, 4000)).into_iter().chain(escapes::invalid_cases(&mut erng, args.budget(300, 3000))).enumerate() {
            if i < 3 {
                ctx.rep.sample(json!({"kind": e.kind, "escape-forms": e.text.chars().take(200).collect::<String>()}));
            }
            let label = if e.expect.is_some() { format!("valid:{}", e.label.replace(':', "-")) } else { e.label.to_string() };
            batch.push(Case { kind: e.kind, text: e.text, expect: e.expect, label, features: e.features });
        }
        ctx.run(&batch);
    }
    // ---- look-alikes of other lexical contexts in comments, block strings, normal strings, import paths
    if !only_new || args.extra.get("lookalike").is_some() {
        let n_look = if search { 3000 } else { args.budget(500, 6000) };
        let mut batch: Vec<Case> = vec![];
        for i in 0..n_look {
            let lc = lookalike::gen_lookalike(&mut rng, i);
            if i < 5 {
                ctx.rep.sample(json!({"kind": lc.kind, "lookalike": lc.place.name(), "text": lc.text.chars().take(400).collect::<String>()}));
            }
            batch.push(Case { kind: lc.kind, text: lc.text, expect: Some(lc.expect), label: format!("valid:{}", lc.place.name()), features: lc.features });
            if batch.len() >= 600 {
                ctx.run(&batch);
                batch.clear();
            }
        }
        ctx.run(&batch);
    }
    // ---- every kind of ignored token (and runs of them) at every class of gap between tokens
    if !only_new || args.extra.get("gaps").is_some() {
        let t_gaps = std::time::Instant::now();
        let cases = gaps::gap_cases(&mut rng, if search { 12 } else { args.budget(2, 40) }, args.budget(4, 8));
        let n_gap_cases = cases.len();
        let mut batch: Vec<Case> = vec![];
        for (i, gc) in cases.into_iter().enumerate() {
            if i % 397 == 0 {
                ctx.rep.sample(json!({"kind": gc.kind, "trivia": gc.trivia, "gap": gc.class, "text": gc.text.chars().take(300).collect::<String>()}));
            }
            let features = vec![format!("trivia-kind:{}", gc.trivia), format!("gap:{}", gc.class)];
            batch.push(Case { kind: gc.kind, text: gc.text, expect: Some(gc.expect), label: format!("valid:trivia-{}", gc.trivia), features });
            if batch.len() >= 600 {
                ctx.run(&batch);
                batch.clear();
            }
        }
        ctx.run(&batch);
        ctx.rep.extra.insert("gap_stream".into(), json!({"cases": n_gap_cases, "ms": t_gaps.elapsed().as_millis() as u64}));
    }
    let mut run = Runner::new(&args.scratch);
    let t_large = std::time::Instant::now();
    let large = large_stream(&mut ctx, &mut run, &mut rng, &args);
    let large_ms = t_large.elapsed().as_millis() as u64;
    let t_seq = std::time::Instant::now();
    let seqs = sequence_stream(&mut ctx, &mut run, &mut rng, &args);
    let seq_ms = t_seq.elapsed().as_millis() as u64;
    let slow = ctx.slowest_ms;
    rep.extra.insert("large_documents".into(), json!({"documents": large.0, "bytes": large.1, "largest_bytes": large.2, "k_sampled_bytes": large.3, "ms": large_ms}));
    rep.extra.insert("stateful_sequences".into(), json!({"sequences": seqs.0, "calls": seqs.1, "child_processes": run.children, "ms": seq_ms}));
    rep.extra.insert("slowest_real_parse_ms".into(), json!(slow as u64));
    rep.extra.insert("schemas".into(), json!(n_schemas));
    rep.write(&args);
}
