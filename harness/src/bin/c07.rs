//! C07 — parsing yields exactly the document the text denotes, with true positions.
//!
//! Texts: abstract documents from `nvh::gen` (operation documents AND type-system documents; `#import` lines,
//! extensions, descriptions, hostile strings, anonymous shorthand, optional leading `|`/`&`, BOM, block-string
//! descriptions, `\r\n` trivia) rendered canonically and with random legal trivia; plus a hand-written corpus,
//! block-string literals with their spec value, and token-level mutations (for error positions).
//!
//! K: REAL `parse_operation_document` / `parse_type_system_document` vs the Lean parser model (generated grammar
//!    run by the PEG interpreter + builder model): full AST with positions, parse-error position, panic site.
//! O: REAL result vs the abstract document the text was rendered from — structure first, then positions (= the
//!    token starts the renderer recorded); block strings vs the spec's BlockStringValue().
use nvh::gen::*;
use nvh::gm::*;
use nvh::render::*;
use nvh::*;
use serde_json::{json, Value};

#[path = "c07/common.rs"]
mod common;
#[path = "c07/mutate.rs"]
mod mutate;
use common::*;

const RULE: &str = "a text is non-trivial if it parses to ≥ 2 definitions or contains an argument, directive, description or fragment (distinct by text)";

#[derive(Clone, Debug)]
struct Case {
    kind: &'static str,
    text: String,
    /// the abstract document (with the renderer's positions) the text denotes, if known
    expect: Option<Sexp>,
    label: String,
    features: Vec<String>,
}

impl Case {
    fn json(&self) -> Value {
        json!({"kind": self.kind, "text": self.text, "expect": self.expect.as_ref().map(|e| e.to_line()), "label": self.label})
    }
}

/// first top-level item (definition) at which two documents differ, as a short tag
fn first_diff(a: &Sexp, b: &Sexp) -> String {
    let (x, y) = (a.args(), b.args());
    for i in 0..x.len().max(y.len()) {
        match (x.get(i), y.get(i)) {
            (Some(p), Some(q)) if p == q => {}
            (Some(p), _) => return p.head().unwrap_or("?").to_string(),
            (None, Some(q)) => return format!("extra-{}", q.head().unwrap_or("?")),
            _ => {}
        }
    }
    "same".into()
}

struct Ctx<'a> {
    rep: &'a mut Report,
    drv: &'a mut Driver,
    slowest_ms: u128,
}

impl<'a> Ctx<'a> {
    fn run(&mut self, cases: &[Case]) {
        let reqs: Vec<Sexp> = cases.iter().map(|c| request(c.kind, &c.text)).collect();
        let answers = self.drv.batch(&reqs);
        // `run_children_in_shape` (Props/C08, stated OPEN) evaluated on every text: a violation is a K failure
        let sreqs: Vec<Sexp> = cases.iter().map(|c| Sexp::call("gql.shapecheck", vec![Sexp::atom(c.kind), Sexp::str(c.text.as_str())])).collect();
        let shapes = self.drv.batch(&sreqs);
        for (c, sh) in cases.iter().zip(shapes.iter()) {
            match sh.head() {
                Some("ok") => self.rep.count_n("shape:pairs-checked", sh.args()[0].as_int().unwrap_or(0) as u64),
                Some("noparse") => {}
                _ => self.rep.fail("K", "shape:children-not-in-shape", &format!("{:?}: a pair's children are outside Shape.ruleShape of its rule: {}", c.text, sh.to_line()), c.json()),
            }
        }
        for (c, ans) in cases.iter().zip(answers.iter()) {
            self.rep.evaluations += 1;
            let t0 = std::time::Instant::now();
            let real = real_parse(c.kind, &c.text);
            let ms = t0.elapsed().as_millis();
            self.slowest_ms = self.slowest_ms.max(ms);
            let model = model_res(ans);
            self.rep.k_cases += 1;
            self.rep.count(&format!("outcome:{}:{}", c.kind, real.kind()));
            self.rep.count(&format!("stream:{}", c.label.split(':').next().unwrap_or("")));
            for f in &c.features {
                self.rep.count(&format!("feature:{f}"));
            }
            // ---- K: model = code
            if real != model {
                let sig = match (&real, &model) {
                    (Res::Ok(a), Res::Ok(b)) if strip_pos(a) == strip_pos(b) => format!("parse-{}:positions", c.kind),
                    (Res::Ok(_), Res::Ok(_)) => format!("parse-{}:ast", c.kind),
                    (Res::Err(..), Res::Err(..)) => format!("parse-{}:error-position", c.kind),
                    (Res::Panic(_), Res::Panic(_)) => format!("parse-{}:panic-site", c.kind),
                    _ => format!("parse-{}:outcome-{}-vs-{}", c.kind, real.kind(), model.kind()),
                };
                self.rep.fail("K", &sig, &format!("{:?}: code → {} ; model → {}", c.text, real.show(), model.show()), c.json());
            }
            // ---- O: code = the denoted document
            if let Some(exp) = &c.expect {
                self.rep.o_cases += 1;
                match &real {
                    Res::Ok(got) => {
                        if strip_pos(got) != strip_pos(exp) {
                            let what = first_diff(&strip_pos(exp), &strip_pos(got));
                            let sig = if c.label.contains("block-string") { "block-string-raw".to_string() } else { format!("structure:{what}") };
                            self.rep.fail("O", &sig, &format!("{:?} parses to a different document than it denotes: expected {} got {}", c.text, strip_pos(exp).to_line(), strip_pos(got).to_line()), c.json());
                        } else if got != exp && !c.label.starts_with("block-string") {
                            let what = first_diff(exp, got);
                            self.rep.fail("O", &format!("positions:{what}"), &format!("{:?}: a reported position is not the token start: expected {} got {}", c.text, exp.to_line(), got.to_line()), c.json());
                        }
                    }
                    Res::Err(l, col) => {
                        let sig = format!("syntax-error:{}", c.label.split(':').nth(1).unwrap_or("valid-document"));
                        self.rep.fail("O", &sig, &format!("valid text {:?} is rejected with a syntax error at {l}:{col}", c.text), c.json());
                    }
                    Res::Panic(m) => {
                        self.rep.fail("O", &format!("panic:{m}"), &format!("valid text {:?} makes the parser panic: {m}", c.text), c.json());
                    }
                    Res::Other(m) => self.rep.fail("O", "other", m, c.json()),
                }
            } else if let Res::Panic(m) = &real {
                // texts without a known denotation must still not panic
                self.rep.o_cases += 1;
                self.rep.fail("O", &format!("panic:{m}"), &format!("{:?} makes the parser panic: {m}", c.text), c.json());
            }
            if let Res::Ok(s) = &real {
                let t = &c.text;
                if s.args().len() >= 2 || t.contains('(') || t.contains('@') || t.contains("fragment") || t.contains('"') {
                    self.rep.nontrivial(&format!("{}|{}", c.kind, t));
                }
            }
        }
    }
}

// ------------------------------------------------------------------------------------------------
// rendering with the extra switches

struct RenderOpts {
    noisy: bool,
    bom: bool,
    block_desc: bool,
    crlf: bool,
}

fn style_of(o: &RenderOpts) -> Style {
    Style { trivia: o.noisy, block_desc: o.block_desc, exotic_newlines: o.crlf && o.noisy, unicode_comments: o.noisy }
}

fn render_op(doc: &mut Doc, o: &RenderOpts, rng: Rng) -> (String, Vec<&'static str>) {
    let mut e = Emitter::new(style_of(o), rng);
    if o.bom {
        e.bom();
    }
    for d in doc.defs.iter_mut() {
        r_execdef(&mut e, d);
    }
    e.finish()
}

fn render_ts(doc: &mut TsDoc, o: &RenderOpts, rng: Rng, lead: &mut Rng) -> (String, Vec<&'static str>) {
    let mut e = Emitter::new(style_of(o), rng);
    if o.bom {
        e.bom();
    }
    for d in doc.items.iter_mut() {
        let l = lead.chance(1, 4);
        if l {
            e.features.push("leading-separator");
        }
        r_tsitem(&mut e, d, l);
    }
    e.finish()
}

fn add_imports(rng: &mut Rng, doc: &mut Doc, feats: &mut Vec<String>) {
    let n = rng.below(3);
    for _ in 0..n {
        let k = 1 + rng.below(3);
        let mut targets = vec![];
        for j in 0..k {
            if rng.chance(1, 4) {
                targets.push(None);
            } else {
                targets.push(Some((format!("{}{}", ["Frag", "_f", "on1", "fromage", "importX"][rng.below(5)], j), P::default())));
            }
        }
        let path = ["./frags.graphql", "../x.graphql", "a b/ç.graphql", "q\"uote\\.graphql", ""][rng.below(5)].to_string();
        let at = rng.below(doc.defs.len() + 1);
        doc.defs.insert(at, ExecDef::Import(ImportDef { targets, path, pos: P::default() }));
        feats.push("import".into());
    }
}

fn set_shorthand(rng: &mut Rng, doc: &mut Doc, feats: &mut Vec<String>) {
    for d in doc.defs.iter_mut() {
        if let ExecDef::Op(o) = d {
            if o.kind == OpKind::Query && o.name.is_none() && o.vars.is_empty() && o.dirs.is_empty() && rng.chance(1, 2) {
                o.shorthand = true;
                feats.push("shorthand".into());
            }
        }
    }
}

// ------------------------------------------------------------------------------------------------
// block strings: the spec's BlockStringValue()

/// GraphQL spec §2.9.4 BlockStringValue(rawValue) (rawValue = the token's characters with `\"""` → `"""`)
fn block_string_value(raw: &str) -> String {
    // split on line terminators
    let mut lines: Vec<String> = vec![];
    let mut cur = String::new();
    let cs: Vec<char> = raw.chars().collect();
    let mut i = 0;
    while i < cs.len() {
        if cs[i] == '\r' {
            if i + 1 < cs.len() && cs[i + 1] == '\n' {
                i += 1;
            }
            lines.push(std::mem::take(&mut cur));
        } else if cs[i] == '\n' {
            lines.push(std::mem::take(&mut cur));
        } else {
            cur.push(cs[i]);
        }
        i += 1;
    }
    lines.push(cur);
    let is_ws = |c: char| c == ' ' || c == '\t';
    let mut common: Option<usize> = None;
    for l in lines.iter().skip(1) {
        let len = l.chars().count();
        let indent = l.chars().take_while(|c| is_ws(*c)).count();
        if indent < len && common.map_or(true, |c| indent < c) {
            common = Some(indent);
        }
    }
    if let Some(c) = common {
        for l in lines.iter_mut().skip(1) {
            *l = l.chars().skip(c).collect();
        }
    }
    while lines.first().map_or(false, |l| l.chars().all(is_ws)) {
        lines.remove(0);
    }
    while lines.last().map_or(false, |l| l.chars().all(is_ws)) {
        lines.pop();
    }
    lines.join("\n")
}

fn block_cases(rng: &mut Rng, n: usize) -> Vec<Case> {
    let bodies = ["a", "a\nb", "a\n  b\nc", "  indented first", "say \"hi\"", "tri \"\"\" ple", "é😀 ok", "x\n\ny", "tab\tin", "back\\slash \\n stays"];
    let mut out = vec![];
    for _ in 0..n {
        let s = bodies[rng.below(bodies.len())].to_string();
        let mut feats = vec![];
        // token text with the chosen layout
        let mut raw = s.replace("\"\"\"", "\\\"\"\"");
        if s.contains("\"\"\"") {
            feats.push("escaped-triple-quote".to_string());
        }
        let indent = if rng.coin() { 0 } else { 1 + rng.below(4) };
        let wrap = rng.coin() || indent > 0;
        if wrap {
            let pad = " ".repeat(indent);
            let body: Vec<String> = raw.split('\n').map(|l| if l.is_empty() { String::new() } else { format!("{pad}{l}") }).collect();
            raw = format!("\n{}\n{}", body.join("\n"), if indent > 0 && rng.coin() { pad.clone() } else { String::new() });
            feats.push(if indent > 0 { "common-indent".to_string() } else { "blank-first-last-line".to_string() });
        }
        if raw.ends_with('"') {
            continue;
        }
        // the denoted value, by the spec algorithm (self-check of the generator: it must be `s` unless the
        // first line of `s` itself starts with whitespace that the algorithm keeps)
        let denoted = block_string_value(&raw.replace("\\\"\"\"", "\"\"\""));
        let token = format!("\"\"\"{raw}\"\"\"");
        if rng.coin() {
            let text = format!("query {{ f(a: {token}) }}");
            let exp = Doc {
                defs: vec![ExecDef::Op(OpDef {
                    kind: OpKind::Query, name: None, vars: vec![], dirs: vec![], pos: P::default(), shorthand: false,
                    sel: vec![Sel::Field { alias: None, name: "f".into(), name_pos: P::default(), args: vec![Arg::new("a", Val::Str(denoted, P::default()))], dirs: vec![], sel: None }],
                })],
            };
            out.push(Case { kind: "op", text, expect: Some(strip_pos(&exp.to_sexp())), label: "block-string:value".into(), features: feats });
        } else {
            let text = format!("{token}\ntype T {{ f: Int }}");
            let mut t = TypeDef::new(TypeKind::Object, "T");
            t.desc = Some(denoted);
            t.fields = vec![FieldDef { desc: None, name: "f".into(), pos: P::default(), args: vec![], ty: Ty::named("Int"), dirs: vec![] }];
            let exp = TsDoc { items: vec![TsItem::TypeDef(t)] };
            out.push(Case { kind: "ts", text, expect: Some(strip_pos(&exp.to_sexp())), label: "block-string:description".into(), features: feats });
        }
    }
    out
}

// ------------------------------------------------------------------------------------------------

fn corpus() -> Vec<Case> {
    let mut v = vec![];
    let mut add = |kind: &'static str, text: &str, expect: Option<&str>, label: &str| {
        v.push(Case { kind, text: text.to_string(), expect: expect.map(|e| Sexp::parse(e).expect("corpus sexp")), label: format!("corpus:{label}"), features: vec![] });
    };
    // the defects of DESIGN §9 t–w (minimal witnesses), each with the document it denotes
    add("op", "{ a }", Some("(doc (op query (noname) () () ((field (noalias) \"a\" (p 0 2) () () (nosel))) (p 0 0)))"), "shorthand");
    add("op", "{a} #x", Some("(doc (op query (noname) () () ((field (noalias) \"a\" (p 0 1) () () (nosel))) (p 0 0)))"), "comment-at-eof");
    add("op", "query { a } # c", Some("(doc (op query (noname) () () ((field (noalias) \"a\" (p 0 8) () () (nosel))) (p 0 0)))"), "comment-at-eof");
    add("ts", "scalar S #", Some("(tsdoc (typedef scalar (nodesc) \"S\" (p 0 7) () () () () () () (p 0 0)))"), "comment-at-eof");
    add("op", "query { a(s: \"\\uD800\") }", None, "lone-surrogate");
    add("op", "query { a(s: \"\\u{110000}\") }", None, "code-point-out-of-range");
    add("op", "query { a(s: \"\\u{123456789}\") }", None, "hex-overflow");
    add("op", "query { a(s: \"\\u{00000000041}\") }", Some("(doc (op query (noname) () () ((field (noalias) \"a\" (p 0 8) ((arg \"s\" (p 0 10) (str \"A\" (p 0 13)))) () (nosel))) (p 0 0)))"), "long-hex");
    add("op", "query { a(s: \"\\uD83D\\uDE00\") }", None, "surrogate-pair");
    add("op", "query { a(s: \"\"\"\n  a\n\"\"\") }", Some("(doc (op query (noname) () () ((field (noalias) \"a\" (p 0 8) ((arg \"s\" (p 0 10) (str \"a\" (p 0 13)))) () (nosel))) (p 0 0)))"), "block-string");
    // assorted shapes
    for t in ["", " ", "\u{feff}", "#", "# c\n", "query", "query {", "query { }", "{", "}", "query Q { a", "fragment on on T { a }", "fragment F on T { a }",
        "query { ...on }", "query { ... on T { a } }", "query { ...on T { a } }", "query { ...F }", "query { on }", "query { true }", "query { a(x: true1) }",
        "query { a(x: nullx) }", "query { a(x: -) }", "query { a(x: 1.) }", "query { a(x: 1.e5) }", "query { a(x: 01) }", "query { a(x: 1a) }", "query { a(x: 1.5.2) }",
        "query { a(x: .5) }", "query { a(x: \"\") }", "query { a(x: \"\"\"\"\"\") }", "query { a(x: \"\"\"\"\"\"\") }", "query { a(x: \"a\nb\") }", "query { a(x: [) }",
        "query { a(x: []) }", "query { a(x: {}) }", "query { a(x: {a:1,,b:[1,2]}) }", "query($a:[[Int!]]!=[[1]] @d){a}", "query Q @a @b(c:1) { a }", "mutation { a } subscription S { b }",
        "#import A from \"x\"\nquery { a }", "#import A, B from \"x\"\n", "# import A from \"x\"\nquery { a }", "#import * from \"x\"", "#  import A from \"x\"\nquery{a}", "#importA from \"x\"\nquery{a}",
        "#import A from \"x\" query { a }", "#import from \"x\"\nquery{a}", "#import A from\nquery{a}", "query { a } #import A from \"x\"\n", "query { a #import A from \"x\"\n }",
        "query { a # import B from \"y\"\n }", "#import A from \"\\u0041\"\n", "#import A,, B from \"\"\"b\"\"\"\n", "query { a(x: $v) }", "query { a(x: $ v) }", "query { a @ d }", "query{a\r\nb\rc}",
        "query { a }\u{feff}", "\u{feff}query { a }", "query { a\u{2028} }", "query { a\u{0} }", "query { é }", "query { a(x: \"é😀\") }", "{ a } { b }", "{ a } query { b }", "query { a { b { c } } }"] {
        add("op", t, None, "shape");
    }
    for t in ["", "type", "type T", "type T {", "type T { }", "type T { f: Int }", "type T implements I", "type T implements & I & J { f: Int }", "type T implements I & { f: Int }",
        "type T @d", "type T @d { f: Int }", "type T implements I @d", "extend type T", "extend type T implements I", "extend type T @d", "extend type T { f: Int }",
        "interface I", "interface I { f: Int }", "interface I implements J", "extend interface I", "extend interface I implements J", "extend interface I @d", "union U", "union U =", "union U = A",
        "union U = | A | B", "union U @d = A | B", "union U = A |", "extend union U", "extend union U @d", "extend union U = A", "extend union U =", "enum E", "enum E { A }", "enum E { true }",
        "enum E { A @d \"x\" B }", "extend enum E", "extend enum E @d", "extend enum E { A }", "input I", "input I { a: Int = 1 }", "extend input I", "extend input I { a: Int }",
        "scalar S", "scalar S @d", "extend scalar S", "extend scalar S @d", "schema { query: Q }", "schema @d { query: Q mutation: M subscription: S }", "schema { q: Q }", "schema",
        "extend schema @d", "extend schema { query: Q }", "extend schema @d { query: Q }", "extend schema", "extend schema @d {", "\"d\" schema { query: Q }", "\"d\" extend type T { f: Int }",
        "directive @d on FIELD", "directive @d on FIELD | FIELD_DEFINITION", "directive @d on | FIELD", "directive @d on FIELDX", "directive @d on FIELD_DEFINITION", "directive @d on ENUM_VALUE | ENUM",
        "directive @d(a: Int = 1 @x, \"d\" b: [T!]!) repeatable on OBJECT", "directive @d repeatable on", "directive d on FIELD", "directive @ d on FIELD", "\"\"\"b\"\"\" directive @d on QUERY",
        "type T { f(a: Int): Int }", "type T { f(): Int }", "type T { f: [Int }", "type T { f: [[[[[[[[Int]]]]]]]] }", "type T { f: Int!! }", "type T { \"d\" f: Int \"\"\"e\"\"\" g: Int }",
        "type T { f: Int } #", "type T { f: Int } # c\n", "type type { type: type }", "type T { on: on }", "type T { f: Int @deprecated(reason: \"\\uD800\") }", "query { a }"] {
        add("ts", t, None, "shape");
    }
    v
}

fn main() {
    let args = Args::parse();
    quiet_panics();
    let mut rep = Report::new("C07", RULE);
    let mut drv = Driver::spawn(&args.driver);
    let mut ctx = Ctx { rep: &mut rep, drv: &mut drv, slowest_ms: 0 };

    if let Some(path) = &args.replay {
        let v: Value = serde_json::from_str(&std::fs::read_to_string(path).expect("replay file")).expect("replay json");
        let c = &v["case"];
        let kind = if c["kind"].as_str() == Some("ts") { "ts" } else { "op" };
        let case = Case {
            kind,
            text: c["text"].as_str().unwrap_or("").to_string(),
            expect: c["expect"].as_str().and_then(Sexp::parse),
            label: c["label"].as_str().unwrap_or("replay").to_string(),
            features: vec![],
        };
        ctx.run(&[case]);
        rep.write(&args);
        return;
    }

    // corpus first
    ctx.run(&corpus());

    let mut rng = Rng::new(args.seed);
    let search = args.extra.get("search").is_some();
    let n_schemas = if search { 1500 } else { args.budget(260, 2600) };
    let mut batch: Vec<Case> = vec![];
    for i in 0..n_schemas {
        let cfg = GenCfg { hostile_text: i % 3 == 0, descriptions: true, max_depth: 2 + rng.below(3), ..GenCfg::default() };
        let schema = gen_schema(&mut rng, &cfg);
        // ---- type-system documents: as generated, and split into extensions
        let tsdocs = [schema.doc.clone(), split_into_extensions(&mut rng, &schema)];
        for (k, d) in tsdocs.iter().enumerate() {
            for noisy in [false, true] {
                let o = RenderOpts { noisy, bom: rng.chance(1, 8), block_desc: rng.chance(1, 3), crlf: rng.chance(1, 4) };
                let mut m = d.clone();
                let mut lead = rng.fork();
                let (text, feats) = render_ts(&mut m, &o, rng.fork(), &mut lead);
                let mut features: Vec<String> = feats.iter().map(|s| s.to_string()).collect();
                features.push(if noisy { "render:noisy".into() } else { "render:canonical".into() });
                if k == 1 {
                    features.push("extensions".into());
                }
                if o.block_desc {
                    features.push("block-descriptions".into());
                }
                if cfg.hostile_text {
                    features.push("hostile-text".into());
                }
                if i < 2 && !noisy {
                    ctx.rep.sample(json!({"kind": "ts", "text": text.chars().take(400).collect::<String>()}));
                }
                // a mutation of the same text (K: error positions / panic agreement)
                let (mt, ml) = mutate::mutate(&mut rng, &text);
                batch.push(Case { kind: "ts", text: mt, expect: None, label: format!("mutation:{ml}"), features: vec![format!("mutation:{ml}")] });
                if rng.chance(1, 6) {
                    let mut t = text.trim_end().to_string();
                    t.push_str([" #", " # trailing comment", "\n#x é"][rng.below(3)]);
                    batch.push(Case { kind: "ts", text: t, expect: Some(m.to_sexp()), label: "valid:comment-at-eof".into(), features: vec!["comment-at-eof".into()] });
                }
                batch.push(Case { kind: "ts", text, expect: Some(m.to_sexp()), label: "valid:type-system".into(), features });
            }
        }
        // ---- operation documents
        for _ in 0..2 {
            let (doc, fs) = gen_doc(&mut rng, &schema, &cfg);
            let mut base_feats: Vec<String> = fs.into_iter().filter(|f| !f.starts_with("ops:")).collect();
            let mut d = doc.clone();
            add_imports(&mut rng, &mut d, &mut base_feats);
            set_shorthand(&mut rng, &mut d, &mut base_feats);
            for noisy in [false, true] {
                let o = RenderOpts { noisy, bom: rng.chance(1, 8), block_desc: false, crlf: rng.chance(1, 4) };
                let mut m = d.clone();
                let (text, feats) = render_op(&mut m, &o, rng.fork());
                let mut features: Vec<String> = feats.iter().map(|s| s.to_string()).collect();
                features.extend(base_feats.iter().cloned());
                features.push(if noisy { "render:noisy".into() } else { "render:canonical".into() });
                if i < 2 && !noisy {
                    ctx.rep.sample(json!({"kind": "op", "text": text.chars().take(400).collect::<String>()}));
                }
                let (mt, ml) = mutate::mutate(&mut rng, &text);
                batch.push(Case { kind: "op", text: mt, expect: None, label: format!("mutation:{ml}"), features: vec![format!("mutation:{ml}")] });
                if rng.chance(1, 6) {
                    let mut t = text.trim_end().to_string();
                    t.push_str([" #", " # trailing comment", "\n#x é"][rng.below(3)]);
                    batch.push(Case { kind: "op", text: t, expect: Some(m.to_sexp()), label: "valid:comment-at-eof".into(), features: vec!["comment-at-eof".into()] });
                }
                let label = if features.iter().any(|f| f == "shorthand") { "valid:shorthand" } else { "valid:operation" };
                batch.push(Case { kind: "op", text, expect: Some(m.to_sexp()), label: label.into(), features });
            }
        }
        if batch.len() >= 600 {
            ctx.run(&batch);
            batch.clear();
        }
    }
    ctx.run(&batch);
    let blocks = block_cases(&mut rng, args.budget(200, 2000));
    ctx.run(&blocks);
    let slow = ctx.slowest_ms;
    rep.extra.insert("slowest_real_parse_ms".into(), json!(slow as u64));
    rep.extra.insert("schemas".into(), json!(n_schemas));
    rep.write(&args);
}
