//! Shared by the C10 and C09 harnesses: configuration cases (YAML text for the real code, S-expression for
//! the Lean driver), the abstract JSON value domain `J`, and the finite value domain of the properties.
#![allow(dead_code)]
use nvh::gen::{ProjectCfg, ScalarCfg};
use nvh::gm::*;
use nvh::tsparse;
use nvh::Sexp;
use serde_json::{json, Value};
use std::collections::{BTreeMap, BTreeSet};

pub const TARGETS: [(&str, &str); 4] = [("oi", "__OperationInput"), ("oo", "__OperationOutput"), ("ri", "__ResolverInput"), ("ro", "__ResolverOutput")];

pub fn is_output(t: &str) -> bool {
    t == "oo" || t == "ro"
}

pub fn kind_fits(k: TypeKind, target: &str) -> bool {
    match k {
        TypeKind::Scalar | TypeKind::Enum => true,
        TypeKind::Object | TypeKind::Interface | TypeKind::Union => is_output(target),
        TypeKind::Input => !is_output(target),
    }
}

// ---------------------------------------------------------------------------------------------
// configuration cases

#[derive(Clone, Debug)]
pub struct CfgCase {
    pub scalars: Vec<(String, ScalarCfg)>,
    pub optional: Option<bool>,
    pub runtime: bool,
}

pub const BUILTIN_SCALAR_CFG: [(&str, &str, &str); 5] =
    [("ID", "string | number", "string"), ("String", "string", "string"), ("Int", "number", "number"), ("Float", "number", "number"), ("Boolean", "boolean", "boolean")];

impl CfgCase {
    pub fn from_project(pc: &ProjectCfg) -> CfgCase {
        CfgCase { scalars: pc.scalars.clone(), optional: pc.allow_undefined_as_optional_input, runtime: pc.emit_schema_runtime }
    }
    pub fn project(&self) -> ProjectCfg {
        ProjectCfg {
            mode: "with-loader-ts-5.0",
            scalars: self.scalars.clone(),
            allow_undefined_as_optional_input: self.optional,
            emit_schema_runtime: self.runtime,
            extra_generate_lines: vec![],
        }
    }
    pub fn yaml(&self) -> String {
        self.project().yaml("s.graphql", "*.graphql", &[])
    }
    pub fn to_json(&self) -> Value {
        let sc: Vec<Value> = self
            .scalars
            .iter()
            .map(|(n, c)| match c {
                ScalarCfg::Single(t) => json!({"name": n, "single": t}),
                ScalarCfg::SendReceive { send, receive } => json!({"name": n, "send": send, "receive": receive}),
                ScalarCfg::Separate { resolver_output, resolver_input, operation_output, operation_input } => {
                    json!({"name": n, "resolverOutput": resolver_output, "resolverInput": resolver_input, "operationOutput": operation_output, "operationInput": operation_input})
                }
            })
            .collect();
        json!({"scalars": sc, "optional": self.optional, "runtime": self.runtime})
    }
    pub fn from_json(v: &Value) -> CfgCase {
        let s = |x: &Value| x.as_str().unwrap_or("").to_string();
        let scalars = v["scalars"]
            .as_array()
            .map(|a| {
                a.iter()
                    .map(|e| {
                        let n = s(&e["name"]);
                        let c = if e.get("single").is_some() {
                            ScalarCfg::Single(s(&e["single"]))
                        } else if e.get("send").is_some() {
                            ScalarCfg::SendReceive { send: s(&e["send"]), receive: s(&e["receive"]) }
                        } else {
                            ScalarCfg::Separate {
                                resolver_output: s(&e["resolverOutput"]),
                                resolver_input: s(&e["resolverInput"]),
                                operation_output: s(&e["operationOutput"]),
                                operation_input: s(&e["operationInput"]),
                            }
                        };
                        (n, c)
                    })
                    .collect()
            })
            .unwrap_or_default();
        CfgCase { scalars, optional: v["optional"].as_bool(), runtime: v["runtime"].as_bool().unwrap_or(false) }
    }
    pub fn texts_of(c: &ScalarCfg) -> Vec<String> {
        match c {
            ScalarCfg::Single(t) => vec![t.clone()],
            ScalarCfg::SendReceive { send, receive } => vec![send.clone(), receive.clone()],
            ScalarCfg::Separate { resolver_output, resolver_input, operation_output, operation_input } => {
                vec![resolver_output.clone(), resolver_input.clone(), operation_output.clone(), operation_input.clone()]
            }
        }
    }
    /// the configured text of a scalar for a target — computed by the HARNESS' own reading of the documentation
    /// table (send = what the client/resolver sends: operation input, resolver output; receive = the other two)
    pub fn text_for(c: &ScalarCfg, target: &str) -> String {
        match c {
            ScalarCfg::Single(t) => t.clone(),
            ScalarCfg::SendReceive { send, receive } => {
                if target == "oi" || target == "ro" {
                    send.clone()
                } else {
                    receive.clone()
                }
            }
            ScalarCfg::Separate { resolver_output, resolver_input, operation_output, operation_input } => match target {
                "ro" => resolver_output.clone(),
                "ri" => resolver_input.clone(),
                "oo" => operation_output.clone(),
                _ => operation_input.clone(),
            },
        }
    }
    /// `(cfg (scalars …) (optional b) (runtime b) (parses ("text" ty)…))`; `extra_texts` = texts supplied by
    /// `@nitrogql_ts_type` directives in the schema
    pub fn to_sexp(&self, extra_texts: &[String]) -> Result<Sexp, String> {
        let sc: Vec<Sexp> = self
            .scalars
            .iter()
            .map(|(n, c)| match c {
                ScalarCfg::Single(t) => Sexp::call("single", vec![Sexp::str(n.as_str()), Sexp::str(t.as_str())]),
                ScalarCfg::SendReceive { send, receive } => Sexp::call("sendrecv", vec![Sexp::str(n.as_str()), Sexp::str(send.as_str()), Sexp::str(receive.as_str())]),
                ScalarCfg::Separate { resolver_output, resolver_input, operation_output, operation_input } => Sexp::call(
                    "separate",
                    vec![Sexp::str(n.as_str()), Sexp::str(resolver_output.as_str()), Sexp::str(resolver_input.as_str()), Sexp::str(operation_output.as_str()), Sexp::str(operation_input.as_str())],
                ),
            })
            .collect();
        let mut texts: BTreeSet<String> = BTreeSet::new();
        for (_, c) in &self.scalars {
            texts.extend(Self::texts_of(c));
        }
        texts.extend(extra_texts.iter().cloned());
        let mut parses = vec![];
        for t in texts {
            let p = tsparse::parse_type(&t).map_err(|e| format!("configured text {t:?} does not parse: {}", e.msg))?;
            parses.push(Sexp::list(vec![Sexp::str(t), p]));
        }
        Ok(Sexp::call(
            "cfg",
            vec![
                Sexp::call("scalars", sc),
                Sexp::call("optional", vec![Sexp::bool(self.optional.unwrap_or(true))]),
                Sexp::call("runtime", vec![Sexp::bool(self.runtime)]),
                Sexp::call("parses", parses),
            ],
        ))
    }
}

/// `@nitrogql_ts_type(...)` texts of the scalars of a document: name ↦ (ro, ri, oo, oi)
pub fn directive_scalars(doc: &TsDoc) -> BTreeMap<String, ScalarCfg> {
    let mut out = BTreeMap::new();
    for it in &doc.items {
        if let TsItem::TypeDef(t) = it {
            if t.kind != TypeKind::Scalar {
                continue;
            }
            if let Some(d) = t.dirs.iter().find(|d| d.name == "nitrogql_ts_type") {
                let get = |k: &str| d.args.iter().rev().find(|a| a.name == k).and_then(|a| if let Val::Str(s, _) = &a.value { Some(s.clone()) } else { None });
                if let (Some(ri), Some(ro), Some(oi), Some(oo)) = (get("resolverInput"), get("resolverOutput"), get("operationInput"), get("operationOutput")) {
                    out.insert(t.name.clone(), ScalarCfg::Separate { resolver_output: ro, resolver_input: ri, operation_output: oo, operation_input: oi });
                }
            }
        }
    }
    out
}

/// effective scalar configuration of the scalars DEFINED in the document (config, built-in, directive)
pub fn effective_scalars(cfg: &CfgCase, doc: &TsDoc) -> BTreeMap<String, ScalarCfg> {
    let dirs = directive_scalars(doc);
    let mut out = BTreeMap::new();
    for it in &doc.items {
        if let TsItem::TypeDef(t) = it {
            if t.kind != TypeKind::Scalar {
                continue;
            }
            if let Some((_, c)) = cfg.scalars.iter().find(|(n, _)| *n == t.name) {
                out.insert(t.name.clone(), c.clone());
            } else if let Some((_, send, receive)) = BUILTIN_SCALAR_CFG.iter().find(|(n, _, _)| *n == t.name) {
                out.insert(t.name.clone(), if send == receive { ScalarCfg::Single(send.to_string()) } else { ScalarCfg::SendReceive { send: send.to_string(), receive: receive.to_string() } });
            } else if let Some(c) = dirs.get(&t.name) {
                out.insert(t.name.clone(), c.clone());
            }
        }
    }
    out
}

// ---------------------------------------------------------------------------------------------
// values

#[derive(Clone, Debug, PartialEq)]
pub enum J {
    Null,
    Absent,
    Str(String),
    Num,
    Bool(bool),
    Atom(String),
    Arr(Vec<J>),
    Obj(Vec<(String, J)>),
}

impl J {
    pub fn to_sexp(&self) -> Sexp {
        match self {
            J::Null => Sexp::call("null", vec![]),
            J::Absent => Sexp::call("absent", vec![]),
            J::Str(s) => Sexp::call("str", vec![Sexp::str(s.as_str())]),
            J::Num => Sexp::call("num", vec![]),
            J::Bool(b) => Sexp::call("bool", vec![Sexp::bool(*b)]),
            J::Atom(s) => Sexp::call("atom", vec![Sexp::str(s.as_str())]),
            J::Arr(xs) => Sexp::call("arr", xs.iter().map(|x| x.to_sexp()).collect()),
            J::Obj(kvs) => Sexp::call("obj", kvs.iter().map(|(k, v)| Sexp::list(vec![Sexp::str(k.as_str()), v.to_sexp()])).collect()),
        }
    }
    pub fn text(&self) -> String {
        match self {
            J::Null => "null".into(),
            J::Absent => "undefined".into(),
            J::Str(s) => format!("{s:?}"),
            J::Num => "<number>".into(),
            J::Bool(b) => b.to_string(),
            J::Atom(s) => format!("<{s}>"),
            J::Arr(xs) => format!("[{}]", xs.iter().map(|x| x.text()).collect::<Vec<_>>().join(", ")),
            J::Obj(kvs) => format!("{{{}}}", kvs.iter().map(|(k, v)| format!("{k}: {}", v.text())).collect::<Vec<_>>().join(", ")),
        }
    }
}

/// a sample member of a parsed TypeScript type (read globally), used to build records; `tags` = the opaque
/// atom tags the driver reports for the type
pub fn sample_of_ts(t: &Sexp, tags: &[String]) -> Option<J> {
    let args = t.args();
    match t.head()? {
        "prim" => match args.first()?.as_str()? {
            "string" => Some(J::Str("s".into())),
            "number" => Some(J::Num),
            "boolean" => Some(J::Bool(true)),
            "null" => Some(J::Null),
            "undefined" | "void" => Some(J::Absent),
            "unknown" | "any" => Some(J::Num),
            "never" => None,
            "true" => Some(J::Bool(true)),
            "false" => Some(J::Bool(false)),
            other => Some(J::Atom(other.to_string())),
        },
        "strlit" => Some(J::Str(args.first()?.as_str()?.to_string())),
        "union" => args.iter().find_map(|a| sample_of_ts(a, tags)),
        "arr" | "roarr" => Some(J::Arr(vec![])),
        "obj" => {
            let mut kvs = vec![];
            for f in args {
                if f.head() != Some("field") {
                    return tags.first().map(|x| J::Atom(x.clone()));
                }
                let fa = f.args();
                let optional = fa[2].as_atom() == Some("true");
                if optional {
                    continue;
                }
                kvs.push((fa[0].as_str()?.to_string(), sample_of_ts(&fa[3], tags)?));
            }
            Some(J::Obj(kvs))
        }
        "ref" => Some(J::Atom(args.first()?.as_str()?.to_string())),
        _ => tags.first().map(|x| J::Atom(x.clone())),
    }
}

/// schema view used by the domain builder
pub struct SchemaView<'a> {
    pub doc: &'a TsDoc,
    /// (scalar name, target) ↦ sample member of the configured text
    pub scalar_sample: BTreeMap<(String, String), Option<J>>,
    pub optional: bool,
}

impl<'a> SchemaView<'a> {
    pub fn type_defs(&self) -> Vec<&'a TypeDef> {
        self.doc.items.iter().filter_map(|i| if let TsItem::TypeDef(t) = i { Some(t) } else { None }).collect()
    }
    pub fn possible(&self, name: &str) -> Vec<String> {
        match self.doc.type_def(name) {
            Some(t) => match t.kind {
                TypeKind::Object => vec![t.name.clone()],
                TypeKind::Union => t.members.iter().map(|m| m.0.clone()).collect(),
                TypeKind::Interface => self.type_defs().iter().filter(|o| o.kind == TypeKind::Object && o.implements.iter().any(|i| i.0 == name)).map(|o| o.name.clone()).collect(),
                _ => vec![],
            },
            None => vec![],
        }
    }
    /// a member of the type position `ty` for `target`; `full` = descend where possible, else minimal
    pub fn sample_ty(&self, target: &str, ty: &Ty, depth: usize, full: bool) -> Option<J> {
        match ty {
            Ty::NonNull(t) => self.sample_core(target, t, depth, full),
            t => {
                if !full || depth > 2 {
                    Some(J::Null)
                } else {
                    Some(self.sample_core(target, t, depth, full).unwrap_or(J::Null))
                }
            }
        }
    }
    fn sample_core(&self, target: &str, ty: &Ty, depth: usize, full: bool) -> Option<J> {
        match ty {
            Ty::NonNull(t) => self.sample_core(target, t, depth, full),
            Ty::List(t, _) => {
                if !full || depth > 3 {
                    return Some(J::Arr(vec![]));
                }
                Some(match self.sample_ty(target, t, depth + 1, full) {
                    Some(x) => J::Arr(vec![x]),
                    None => J::Arr(vec![]),
                })
            }
            Ty::Named(n, _) => self.sample_named(target, n, depth + 1, full),
        }
    }
    pub fn sample_named(&self, target: &str, name: &str, depth: usize, full: bool) -> Option<J> {
        if depth > 5 {
            return None;
        }
        let t = self.doc.type_def(name)?;
        match t.kind {
            TypeKind::Scalar => self.scalar_sample.get(&(name.to_string(), target.to_string())).cloned().flatten(),
            TypeKind::Enum => t.values.first().map(|v| J::Str(v.name.clone())),
            TypeKind::Object => {
                let mut kvs = vec![("__typename".to_string(), J::Str(t.name.clone()))];
                for f in &t.fields {
                    kvs.push((f.name.clone(), self.sample_ty(target, &f.ty, depth, full)?));
                }
                Some(J::Obj(kvs))
            }
            TypeKind::Interface | TypeKind::Union => self.possible(name).iter().find_map(|o| self.sample_named(target, o, depth, full)),
            TypeKind::Input => {
                let mut kvs = vec![];
                for f in &t.inputs {
                    kvs.push((f.name.clone(), self.sample_ty(target, &f.ty, depth, full)?));
                }
                Some(J::Obj(kvs))
            }
        }
    }
}

/// replacement values tried for a field ("one wrong")
pub fn wrong_values(good: &J) -> Vec<(&'static str, J)> {
    vec![
        ("field-null", J::Null),
        ("field-absent", J::Absent),
        ("field-number", J::Num),
        ("field-string", J::Str("zzz".into())),
        ("field-foreign-atom", J::Atom("Foreign__".into())),
        ("field-empty-list", J::Arr(vec![])),
        ("field-singleton-list", J::Arr(vec![good.clone()])),
        ("field-list-of-null", J::Arr(vec![J::Null])),
        ("field-nested-list", J::Arr(vec![J::Arr(vec![good.clone()])])),
        ("field-nested-list-null", J::Arr(vec![J::Arr(vec![J::Null]), J::Null])),
        ("field-empty-record", J::Obj(vec![])),
    ]
}

/// mutations of a record: exact, one field dropped, one extra key, one field wrong
pub fn record_mutations(prefix: &str, rec: &J, out: &mut Vec<(String, J)>) {
    let J::Obj(kvs) = rec else {
        return;
    };
    out.push((format!("{prefix}:exact"), rec.clone()));
    for i in 0..kvs.len() {
        let mut d = kvs.clone();
        d.remove(i);
        out.push((format!("{prefix}:dropped-field"), J::Obj(d)));
        for (label, w) in wrong_values(&kvs[i].1) {
            let mut m = kvs.clone();
            m[i].1 = w;
            out.push((format!("{prefix}:{label}"), J::Obj(m)));
        }
    }
    let mut e = kvs.clone();
    e.push(("__extra".into(), J::Num));
    out.push((format!("{prefix}:extra-key"), J::Obj(e)));
    let mut e = kvs.clone();
    e.push(("__extra".into(), J::Absent));
    out.push((format!("{prefix}:extra-key-undefined"), J::Obj(e)));
}

pub fn base_values(view: &SchemaView, atom_tags: &[String]) -> Vec<(String, J)> {
    let mut base: Vec<(String, J)> = vec![
        ("null".into(), J::Null),
        ("absent".into(), J::Absent),
        ("string".into(), J::Str("zzz".into())),
        ("number".into(), J::Num),
        ("boolean".into(), J::Bool(true)),
        ("boolean".into(), J::Bool(false)),
        ("foreign-atom".into(), J::Atom("Foreign__".into())),
    ];
    for t in atom_tags {
        base.push(("scalar-atom".into(), J::Atom(t.clone())));
    }
    for t in view.type_defs() {
        base.push(("type-name-literal".into(), J::Str(t.name.clone())));
        base.push(("type-name-atom".into(), J::Atom(t.name.clone())));
        for v in &t.values {
            base.push(("enum-literal".into(), J::Str(v.name.clone())));
        }
    }
    base
}

pub fn list_values(base: &[(String, J)]) -> Vec<(String, J)> {
    let mut out = vec![("list-empty".to_string(), J::Arr(vec![])), ("list-nested-empty".to_string(), J::Arr(vec![J::Arr(vec![])]))];
    for (l, b) in base {
        if *b == J::Absent {
            continue;
        }
        out.push((format!("list-of-{l}"), J::Arr(vec![b.clone()])));
        out.push((format!("list-of-{l}-and-null"), J::Arr(vec![b.clone(), J::Null])));
        out.push((format!("nested-list-of-{l}"), J::Arr(vec![J::Arr(vec![b.clone()])])));
    }
    out
}

pub fn dedup(values: Vec<(String, J)>) -> Vec<(String, J)> {
    let mut seen = BTreeSet::new();
    let mut out = vec![];
    for (l, v) in values {
        let key = v.to_sexp().to_line();
        if seen.insert(key) {
            out.push((l, v));
        }
    }
    out
}

/// normalise the text of a `/** … */` token (as lexed: everything between `/*` + `*` and `*/`) into the lines
/// the printer wrote after " * ", joined by "\n"; `None` if the comment does not have the printer's shape
pub fn normalise_doc(text: &str) -> Option<String> {
    let lines: Vec<&str> = text.split('\n').collect();
    if lines.len() < 2 || lines[0] != "*" || !lines[lines.len() - 1].chars().all(|c| c == ' ') {
        return None;
    }
    let mut out = vec![];
    for l in &lines[1..lines.len() - 1] {
        let t = l.trim_start_matches(' ');
        let rest = t.strip_prefix("* ").or_else(|| if t == "*" { Some("") } else { None })?;
        out.push(rest.to_string());
    }
    Some(out.join("\n"))
}

/// replace the text of every `(doc "…")` statement by its normal form
pub fn normalise_docs(s: &Sexp) -> Sexp {
    match s {
        Sexp::List(xs) => {
            if xs.len() == 2 && xs[0].as_atom() == Some("doc") {
                if let Some(t) = xs[1].as_str() {
                    return Sexp::call("doc", vec![Sexp::str(normalise_doc(t).unwrap_or_else(|| format!("<malformed>{t}")))]);
                }
            }
            Sexp::List(xs.iter().map(normalise_docs).collect())
        }
        x => x.clone(),
    }
}

/// first difference between two trees, as a short path description
pub fn first_diff(a: &Sexp, b: &Sexp, path: &mut Vec<String>) -> Option<String> {
    if a == b {
        return None;
    }
    match (a, b) {
        (Sexp::List(xs), Sexp::List(ys)) => {
            let head = xs.first().and_then(|h| h.as_atom()).unwrap_or("").to_string();
            let name = xs.iter().skip(1).find_map(|x| x.as_str()).unwrap_or("").to_string();
            path.push(format!("{head}[{name}]"));
            for (x, y) in xs.iter().zip(ys.iter()) {
                if let Some(d) = first_diff(x, y, path) {
                    return Some(d);
                }
            }
            let r = format!("{}: arity {} vs {}", path.join("/"), xs.len(), ys.len());
            path.pop();
            Some(r)
        }
        _ => Some(format!("{}: {} vs {}", path.join("/"), a.to_line(), b.to_line())),
    }
}

/// kind tag (head atom) of the statement where two files first differ
pub fn diff_kind(a: &Sexp, b: &Sexp) -> String {
    let (Some(xs), Some(ys)) = (a.as_list(), b.as_list()) else {
        return "shape".into();
    };
    for (x, y) in xs.iter().zip(ys.iter()) {
        if x != y {
            if x.head() == Some("namespace") && y.head() == Some("namespace") && x.args().len() == 3 && y.args().len() == 3 {
                return format!("namespace/{}", diff_kind(&x.args()[2], &y.args()[2]));
            }
            return x.head().unwrap_or("atom").to_string();
        }
    }
    "length".into()
}
