//! Descriptions and deprecation reasons made of comment-delimiter-like tokens (family "delimiter texts").
//!
//! `decorate` puts a `nvh::gen::delimiter_text` (one token such as `*/` REPEATED 2–4 times on a line, glued / separated /
//! at line start / at line end, over 1–4 lines, mixed with `/*`, `*/*/`, `/**/`, `*\/`, `\*/`, `\\*/` …) on every kind of
//! description site of a generated schema: schema definition, type (all six kinds), field, argument, enum value, input
//! field, and the `reason` of `@deprecated` on fields, input fields and enum values. `render` writes the schema with
//! descriptions / reasons as block strings where the raw text is the denoted value, as quoted strings otherwise.
//!
//! Oracle helpers: `plain_doc` = the same schema without any description and without `@deprecated` (the property says
//! descriptions contribute COMMENTS only); `code_tokens` = the token stream of an emitted file without its comments.
use nvh::gen::*;
use nvh::gm::*;
use nvh::render::{r_tsitem, Emitter, Style};
use nvh::*;
use std::collections::BTreeSet;

fn reason(rng: &mut Rng, dirs: &mut Vec<Dir>, feats: &mut BTreeSet<String>, site: &str) {
    let arg = Arg::new("reason", Val::Str(delimiter_text(rng), P::default()));
    match dirs.iter_mut().find(|d| d.name == "deprecated") {
        Some(d) => d.args = vec![arg],
        None => dirs.push(Dir::new("deprecated", vec![arg])),
    }
    feats.insert(format!("delimiter-text:deprecated-reason:{site}"));
}

/// sprinkle delimiter texts over every description site (`p` in 8 of the sites of each kind)
pub fn decorate(rng: &mut Rng, schema: &mut SchemaModel, p: u32) -> BTreeSet<String> {
    let mut feats = BTreeSet::new();
    let hit = |rng: &mut Rng, d: &mut Option<String>, feats: &mut BTreeSet<String>, site: &str| {
        if rng.chance(p, 8) {
            *d = Some(delimiter_text(rng));
            feats.insert(format!("delimiter-text:description:{site}"));
        }
    };
    for it in schema.doc.items.iter_mut() {
        match it {
            TsItem::SchemaDef(s) => hit(rng, &mut s.desc, &mut feats, "schema"),
            TsItem::TypeDef(t) => {
                hit(rng, &mut t.desc, &mut feats, &format!("type:{}", t.kind.as_str()));
                for f in t.fields.iter_mut() {
                    hit(rng, &mut f.desc, &mut feats, "field");
                    for a in f.args.iter_mut() {
                        hit(rng, &mut a.desc, &mut feats, "argument");
                    }
                    if rng.chance(p, 16) {
                        reason(rng, &mut f.dirs, &mut feats, "field");
                    }
                }
                for v in t.values.iter_mut() {
                    hit(rng, &mut v.desc, &mut feats, "enum-value");
                    if rng.chance(p, 24) {
                        reason(rng, &mut v.dirs, &mut feats, "enum-value");
                    }
                }
                for f in t.inputs.iter_mut() {
                    hit(rng, &mut f.desc, &mut feats, "input-field");
                    if (!f.ty.is_non_null() || f.default.is_some()) && rng.chance(p, 16) {
                        reason(rng, &mut f.dirs, &mut feats, "input-field");
                    }
                }
            }
            _ => {}
        }
    }
    feats
}

/// SDL of the document; `block`: descriptions (and, by the emitter's coin, string values such as deprecation reasons) are
/// written as block strings `"""…"""` whenever the raw text is the denoted value (several lines and backslashes included)
pub fn render(doc: &TsDoc, block: bool, seed: u64) -> String {
    let mut d = doc.clone();
    let mut e = Emitter::new(Style { block_desc: block, ..Style::canonical() }, Rng::new(seed));
    e.block_values = block;
    e.block_rich = block;
    for it in d.items.iter_mut() {
        r_tsitem(&mut e, it, false);
    }
    e.finish().0
}

/// the source document (definitions and extensions, in source order; built-in items, if any, dropped) without any
/// description and without `@deprecated`: what the declaration files must equal up to comments
pub fn plain_doc(doc: &TsDoc) -> TsDoc {
    let strip = |dirs: &mut Vec<Dir>| dirs.retain(|d| d.name != "deprecated");
    let mut items = vec![];
    for it in &doc.items {
        let mut it = it.clone();
        match &mut it {
            TsItem::TypeDef(t) | TsItem::TypeExt(t) => {
                if t.name_pos.builtin || t.pos.builtin {
                    continue;
                }
                t.desc = None;
                for f in t.fields.iter_mut() {
                    f.desc = None;
                    strip(&mut f.dirs);
                    for a in f.args.iter_mut() {
                        a.desc = None;
                        strip(&mut a.dirs);
                    }
                }
                for v in t.values.iter_mut() {
                    v.desc = None;
                    strip(&mut v.dirs);
                }
                for f in t.inputs.iter_mut() {
                    f.desc = None;
                    strip(&mut f.dirs);
                }
            }
            TsItem::SchemaDef(s) | TsItem::SchemaExt(s) => s.desc = None,
            TsItem::DirectiveDef(d) => {
                if d.pos.builtin || d.name_pos.builtin {
                    continue;
                }
                d.desc = None;
                for a in d.args.iter_mut() {
                    a.desc = None;
                    strip(&mut a.dirs);
                }
            }
        }
        items.push(it);
    }
    TsDoc { items }
}

/// the description-free version of a schema source text (parsed with the real parser, re-rendered canonically)
pub fn plain_sdl(sdl: &str) -> Result<String, String> {
    let parsed = catch(std::panic::AssertUnwindSafe(|| nitrogql_parser::parse_type_system_document(sdl).map(|d| from_real_tsdoc_ext(&d)).map_err(|e| format!("{e:?}")))).and_then(|x| x)?;
    // `resolve_schema_extensions` orders the definitions by a STABLE sort on (line, column) of their keyword, the
    // built-ins (position 0:0) inserted after the user's items: a user definition sorts before the built-ins iff it
    // starts at 0:0. Removing the description of the first definition must not move it there (the order of the
    // declarations in the emitted files would change, which is not what this oracle is about).
    let first_at_origin = match parsed.items.first() {
        Some(TsItem::TypeDef(t)) => t.pos.line == 0 && t.pos.col == 0,
        Some(TsItem::SchemaDef(d)) => d.pos.line == 0 && d.pos.col == 0,
        Some(TsItem::DirectiveDef(d)) => d.pos.line == 0 && d.pos.col == 0,
        _ => false,
    };
    Ok(format!("{}{}", if first_at_origin { "" } else { "\n" }, nvh::render::tsdoc_text(&plain_doc(&parsed))))
}

/// does the resolved document carry any description or `@deprecated`?
pub fn has_comments(doc: &TsDoc) -> bool {
    let dep = |dirs: &Vec<Dir>| dirs.iter().any(|d| d.name == "deprecated");
    doc.items.iter().any(|it| match it {
        TsItem::TypeDef(t) => {
            !(t.name_pos.builtin || t.pos.builtin)
                && (t.desc.is_some()
                    || t.fields.iter().any(|f| f.desc.is_some() || dep(&f.dirs) || f.args.iter().any(|a| a.desc.is_some() || dep(&a.dirs)))
                    || t.values.iter().any(|v| v.desc.is_some() || dep(&v.dirs))
                    || t.inputs.iter().any(|f| f.desc.is_some() || dep(&f.dirs)))
        }
        TsItem::SchemaDef(s) => s.desc.is_some(),
        _ => false,
    })
}

/// every description / deprecation reason of the user's part of the document, with its site
pub fn comment_sources(doc: &TsDoc) -> Vec<(&'static str, String)> {
    let mut out = vec![];
    let dep = |dirs: &Vec<Dir>, out: &mut Vec<(&'static str, String)>| {
        for d in dirs.iter().filter(|d| d.name == "deprecated") {
            for a in &d.args {
                if let Val::Str(s, _) = &a.value {
                    out.push(("deprecated-reason", s.clone()));
                }
            }
        }
    };
    for it in &doc.items {
        match it {
            TsItem::TypeDef(t) if !(t.name_pos.builtin || t.pos.builtin) => {
                out.extend(t.desc.iter().map(|d| ("type", d.clone())));
                for f in &t.fields {
                    out.extend(f.desc.iter().map(|d| ("field", d.clone())));
                    dep(&f.dirs, &mut out);
                    for a in &f.args {
                        out.extend(a.desc.iter().map(|d| ("argument", d.clone())));
                    }
                }
                for v in &t.values {
                    out.extend(v.desc.iter().map(|d| ("enum-value", d.clone())));
                    dep(&v.dirs, &mut out);
                }
                for f in &t.inputs {
                    out.extend(f.desc.iter().map(|d| ("input-field", d.clone())));
                    dep(&f.dirs, &mut out);
                }
            }
            TsItem::SchemaDef(s) => out.extend(s.desc.iter().map(|d| ("schema", d.clone()))),
            _ => {}
        }
    }
    out
}

/// the token stream of a TypeScript text without its comments (`None`: the text cannot even be tokenised)
pub fn code_tokens(text: &str) -> Option<Vec<tsparse::Tok>> {
    let toks = tsparse::lex(text).ok()?;
    Some(toks.into_iter().map(|(t, _)| t).filter(|t| !matches!(t, tsparse::Tok::Doc(_))).collect())
}

/// short rendering of the first position where two token streams differ
pub fn first_token_diff(with: &[tsparse::Tok], plain: &[tsparse::Tok]) -> String {
    let k = with.iter().zip(plain.iter()).position(|(a, b)| a != b).unwrap_or(with.len().min(plain.len()));
    let show = |t: &[tsparse::Tok]| t.iter().skip(k.saturating_sub(2)).take(6).map(|x| format!("{x:?}")).collect::<Vec<_>>().join(" ");
    format!("token {k}: with descriptions … {} …; without … {} …", show(with), show(plain))
}

/// shape class of the repeated-delimiter content of a text (for feature counts): how often the most frequent line
/// repeats `*/`
pub fn max_close_per_line(s: &str) -> usize {
    s.split('\n').map(|l| l.matches("*/").count()).max().unwrap_or(0)
}
