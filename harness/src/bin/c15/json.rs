//! JSON trees with ordered (possibly repeated) keys, their text and wire forms, and the harness's OWN rendering of
//! the introspection result of a schema model (`introspection_json`) — written against the GraphQL spec §4 from the
//! `gm` model, independently of the Lean `introspectSpec`; the two are compared on every case.
use nvh::gen::SchemaModel;
use nvh::gm::*;
use nvh::Sexp;
use serde_json::{json, Value};

#[derive(Clone, Debug, PartialEq)]
pub enum J {
    Null,
    Bool(bool),
    Num(String),
    Str(String),
    Arr(Vec<J>),
    Obj(Vec<(String, J)>),
}

impl J {
    pub fn from_value(v: &Value) -> J {
        match v {
            Value::Null => J::Null,
            Value::Bool(b) => J::Bool(*b),
            Value::Number(n) => J::Num(n.to_string()),
            Value::String(s) => J::Str(s.clone()),
            Value::Array(a) => J::Arr(a.iter().map(J::from_value).collect()),
            Value::Object(o) => J::Obj(o.iter().map(|(k, v)| (k.clone(), J::from_value(v))).collect()),
        }
    }
    pub fn to_value(&self) -> Value {
        match self {
            J::Null => Value::Null,
            J::Bool(b) => Value::Bool(*b),
            J::Num(n) => serde_json::from_str(n).unwrap_or(Value::Null),
            J::Str(s) => Value::String(s.clone()),
            J::Arr(a) => Value::Array(a.iter().map(|x| x.to_value()).collect()),
            J::Obj(o) => Value::Object(o.iter().map(|(k, v)| (k.clone(), v.to_value())).collect()),
        }
    }
    pub fn to_sexp(&self) -> Sexp {
        match self {
            J::Null => Sexp::call("null", vec![]),
            J::Bool(b) => Sexp::call("bool", vec![Sexp::bool(*b)]),
            J::Num(n) => Sexp::call("num", vec![Sexp::str(n.as_str())]),
            J::Str(s) => Sexp::call("str", vec![Sexp::str(s.as_str())]),
            J::Arr(a) => Sexp::call("arr", a.iter().map(|x| x.to_sexp()).collect()),
            J::Obj(o) => Sexp::call("obj", o.iter().map(|(k, v)| Sexp::list(vec![Sexp::str(k.as_str()), v.to_sexp()])).collect()),
        }
    }
    pub fn from_sexp(s: &Sexp) -> Option<J> {
        match s.head()? {
            "null" => Some(J::Null),
            "bool" => Some(J::Bool(s.args().first()?.as_atom()? == "true")),
            "num" => Some(J::Num(s.args().first()?.as_str()?.to_string())),
            "str" => Some(J::Str(s.args().first()?.as_str()?.to_string())),
            "arr" => s.args().iter().map(J::from_sexp).collect::<Option<Vec<_>>>().map(J::Arr),
            "obj" => s
                .args()
                .iter()
                .map(|kv| {
                    let l = kv.as_list()?;
                    Some((l.first()?.as_str()?.to_string(), J::from_sexp(l.get(1)?)?))
                })
                .collect::<Option<Vec<_>>>()
                .map(J::Obj),
            _ => None,
        }
    }
    pub fn text(&self) -> String {
        let mut s = String::new();
        self.write(&mut s);
        s
    }
    fn write(&self, out: &mut String) {
        match self {
            J::Null => out.push_str("null"),
            J::Bool(b) => out.push_str(if *b { "true" } else { "false" }),
            J::Num(n) => out.push_str(n),
            J::Str(s) => write_str(s, out),
            J::Arr(a) => {
                out.push('[');
                for (i, x) in a.iter().enumerate() {
                    if i > 0 {
                        out.push(',');
                    }
                    x.write(out);
                }
                out.push(']');
            }
            J::Obj(o) => {
                out.push('{');
                for (i, (k, v)) in o.iter().enumerate() {
                    if i > 0 {
                        out.push(',');
                    }
                    write_str(k, out);
                    out.push(':');
                    v.write(out);
                }
                out.push('}');
            }
        }
    }
}

fn write_str(s: &str, out: &mut String) {
    out.push('"');
    for c in s.chars() {
        match c {
            '"' => out.push_str("\\\""),
            '\\' => out.push_str("\\\\"),
            '\n' => out.push_str("\\n"),
            '\r' => out.push_str("\\r"),
            '\t' => out.push_str("\\t"),
            c if (c as u32) < 0x20 => out.push_str(&format!("\\u{:04x}", c as u32)),
            c => out.push(c),
        }
    }
    out.push('"');
}

pub const INTROSPECTION_TYPES: [&str; 8] = ["__Schema", "__Type", "__TypeKind", "__Field", "__InputValue", "__EnumValue", "__Directive", "__DirectiveLocation"];
const BUILTIN_SCALARS: [&str; 5] = ["Int", "Float", "String", "Boolean", "ID"];

/// `Display for Value` of nitrogql (the text the SDL route keeps as a default value)
pub fn val_text(v: &Val) -> String {
    match v {
        Val::Var(n, _) => format!("${n}"),
        Val::Int(s, _) | Val::Float(s, _) | Val::Enum(s, _) => s.clone(),
        Val::Str(s, _) => format!("\"{s}\""),
        Val::Bool(b, _) => b.to_string(),
        Val::Null(_) => "null".into(),
        Val::List(vs, _) => format!("[{}]", vs.iter().map(val_text).collect::<Vec<_>>().join(",")),
        Val::Obj(fs, _) => format!("{{{}}}", fs.iter().map(|a| format!("{}: {}", a.name, val_text(&a.value))).collect::<Vec<_>>().join(",")),
    }
}

/// (isDeprecated, deprecationReason) of a list of applied directives
pub fn deprecation(dirs: &[Dir]) -> Option<String> {
    let d = dirs.iter().find(|d| d.name == "deprecated")?;
    match d.args.iter().find(|a| a.name == "reason").map(|a| &a.value) {
        Some(Val::Str(s, _)) => Some(s.clone()),
        _ => Some("No longer supported".into()),
    }
}

fn ostr(s: &Option<String>) -> Value {
    match s {
        Some(s) => Value::String(s.clone()),
        None => Value::Null,
    }
}

struct Ctx<'a> {
    m: &'a SchemaModel,
}

impl Ctx<'_> {
    fn kind_of(&self, name: &str) -> &'static str {
        if let Some(t) = self.m.doc.type_def(name) {
            return kind_str(t.kind);
        }
        match name {
            "__TypeKind" | "__DirectiveLocation" => "ENUM",
            n if INTROSPECTION_TYPES.contains(&n) => "OBJECT",
            _ => "SCALAR",
        }
    }
    fn named(&self, n: &str) -> Value {
        json!({"kind": self.kind_of(n), "name": n, "ofType": null})
    }
    fn ty(&self, t: &Ty) -> Value {
        match t {
            Ty::Named(n, _) => self.named(n),
            Ty::List(i, _) => json!({"kind": "LIST", "name": null, "ofType": self.ty(i)}),
            Ty::NonNull(i) => json!({"kind": "NON_NULL", "name": null, "ofType": self.ty(i)}),
        }
    }
    fn iv(&self, v: &InputValueDef) -> Value {
        let dep = deprecation(&v.dirs);
        json!({"name": v.name, "description": ostr(&v.desc), "type": self.ty(&v.ty), "defaultValue": ostr(&v.default.as_ref().map(val_text)),
               "isDeprecated": dep.is_some(), "deprecationReason": ostr(&dep)})
    }
    fn field(&self, f: &FieldDef) -> Value {
        let dep = deprecation(&f.dirs);
        json!({"name": f.name, "description": ostr(&f.desc), "args": f.args.iter().map(|a| self.iv(a)).collect::<Vec<_>>(), "type": self.ty(&f.ty),
               "isDeprecated": dep.is_some(), "deprecationReason": ostr(&dep)})
    }
    fn type_def(&self, t: &TypeDef) -> Value {
        let has_fields = matches!(t.kind, TypeKind::Object | TypeKind::Interface);
        let possible: Option<Vec<String>> = match t.kind {
            TypeKind::Union => Some(t.members.iter().map(|m| m.0.clone()).collect()),
            TypeKind::Interface => Some(
                self.m.types().filter(|o| o.kind == TypeKind::Object && o.implements.iter().any(|i| i.0 == t.name)).map(|o| o.name.clone()).collect(),
            ),
            _ => None,
        };
        let url = if t.kind == TypeKind::Scalar {
            t.dirs.iter().find(|d| d.name == "specifiedBy").and_then(|d| d.args.iter().find(|a| a.name == "url")).and_then(|a| match &a.value {
                Val::Str(s, _) => Some(s.clone()),
                _ => None,
            })
        } else {
            None
        };
        json!({
            "kind": kind_str(t.kind), "name": t.name, "description": ostr(&t.desc), "specifiedByURL": ostr(&url),
            "fields": if has_fields { Value::Array(t.fields.iter().map(|f| self.field(f)).collect()) } else { Value::Null },
            "inputFields": if t.kind == TypeKind::Input { Value::Array(t.inputs.iter().map(|f| self.iv(f)).collect()) } else { Value::Null },
            "interfaces": if has_fields { Value::Array(t.implements.iter().map(|i| self.named(&i.0)).collect()) } else { Value::Null },
            "enumValues": if t.kind == TypeKind::Enum { Value::Array(t.values.iter().map(|v| {
                let dep = deprecation(&v.dirs);
                json!({"name": v.name, "description": ostr(&v.desc), "isDeprecated": dep.is_some(), "deprecationReason": ostr(&dep)})
            }).collect()) } else { Value::Null },
            "possibleTypes": match possible { Some(ps) => Value::Array(ps.iter().map(|p| self.named(p)).collect()), None => Value::Null },
        })
    }
    fn directive(&self, d: &DirectiveDef) -> Value {
        json!({"name": d.name, "description": ostr(&d.desc), "isRepeatable": d.repeatable, "locations": d.locations,
               "args": d.args.iter().map(|a| self.iv(a)).collect::<Vec<_>>()})
    }
}

pub fn kind_str(k: TypeKind) -> &'static str {
    match k {
        TypeKind::Scalar => "SCALAR",
        TypeKind::Object => "OBJECT",
        TypeKind::Interface => "INTERFACE",
        TypeKind::Union => "UNION",
        TypeKind::Enum => "ENUM",
        TypeKind::Input => "INPUT_OBJECT",
    }
}

fn t_named(n: &str) -> Ty {
    Ty::named(n)
}
fn t_nn(n: &str) -> Ty {
    Ty::non_null(Ty::named(n))
}
fn t_list(n: &str) -> Ty {
    Ty::list(Ty::non_null(Ty::named(n)))
}
fn t_list_nn(n: &str) -> Ty {
    Ty::non_null(Ty::list(Ty::non_null(Ty::named(n))))
}
fn fd(name: &str, ty: Ty, include_deprecated: bool) -> FieldDef {
    let args = if include_deprecated {
        vec![InputValueDef { desc: None, name: "includeDeprecated".into(), pos: P::default(), ty: t_named("Boolean"), default: Some(Val::Bool(false, P::default())), dirs: vec![] }]
    } else {
        vec![]
    };
    FieldDef { desc: None, name: name.into(), pos: P::default(), args, ty, dirs: vec![] }
}
fn obj(name: &str, fields: Vec<FieldDef>) -> TypeDef {
    let mut t = TypeDef::new(TypeKind::Object, name);
    t.fields = fields;
    t
}
fn en(name: &str, values: &[&str]) -> TypeDef {
    let mut t = TypeDef::new(TypeKind::Enum, name);
    t.values = values.iter().map(|v| EnumValueDef { desc: None, name: v.to_string(), pos: P::default(), dirs: vec![] }).collect();
    t
}

/// spec §4.2 "Schema Introspection Schema" (October 2021), without descriptions
pub fn introspection_type_defs() -> Vec<TypeDef> {
    vec![
        obj("__Schema", vec![
            fd("description", t_named("String"), false), fd("types", t_list_nn("__Type"), false), fd("queryType", t_nn("__Type"), false),
            fd("mutationType", t_named("__Type"), false), fd("subscriptionType", t_named("__Type"), false), fd("directives", t_list_nn("__Directive"), false),
        ]),
        obj("__Type", vec![
            fd("kind", t_nn("__TypeKind"), false), fd("name", t_named("String"), false), fd("description", t_named("String"), false),
            fd("specifiedByURL", t_named("String"), false), fd("fields", t_list("__Field"), true), fd("interfaces", t_list("__Type"), false),
            fd("possibleTypes", t_list("__Type"), false), fd("enumValues", t_list("__EnumValue"), true), fd("inputFields", t_list("__InputValue"), true),
            fd("ofType", t_named("__Type"), false),
        ]),
        en("__TypeKind", &["SCALAR", "OBJECT", "INTERFACE", "UNION", "ENUM", "INPUT_OBJECT", "LIST", "NON_NULL"]),
        obj("__Field", vec![
            fd("name", t_nn("String"), false), fd("description", t_named("String"), false), fd("args", t_list_nn("__InputValue"), true),
            fd("type", t_nn("__Type"), false), fd("isDeprecated", t_nn("Boolean"), false), fd("deprecationReason", t_named("String"), false),
        ]),
        obj("__InputValue", vec![
            fd("name", t_nn("String"), false), fd("description", t_named("String"), false), fd("type", t_nn("__Type"), false),
            fd("defaultValue", t_named("String"), false), fd("isDeprecated", t_nn("Boolean"), false), fd("deprecationReason", t_named("String"), false),
        ]),
        obj("__EnumValue", vec![
            fd("name", t_nn("String"), false), fd("description", t_named("String"), false), fd("isDeprecated", t_nn("Boolean"), false),
            fd("deprecationReason", t_named("String"), false),
        ]),
        obj("__Directive", vec![
            fd("name", t_nn("String"), false), fd("description", t_named("String"), false), fd("isRepeatable", t_nn("Boolean"), false),
            fd("locations", t_list_nn("__DirectiveLocation"), false), fd("args", t_list_nn("__InputValue"), true),
        ]),
        en("__DirectiveLocation", &[
            "QUERY", "MUTATION", "SUBSCRIPTION", "FIELD", "FRAGMENT_DEFINITION", "FRAGMENT_SPREAD", "INLINE_FRAGMENT", "VARIABLE_DEFINITION", "SCHEMA", "SCALAR",
            "OBJECT", "FIELD_DEFINITION", "ARGUMENT_DEFINITION", "INTERFACE", "UNION", "ENUM", "ENUM_VALUE", "INPUT_OBJECT", "INPUT_FIELD_DEFINITION",
        ]),
    ]
}

fn arg(name: &str, ty: Ty, default: Option<Val>) -> InputValueDef {
    InputValueDef { desc: None, name: name.into(), pos: P::default(), ty, default, dirs: vec![] }
}

/// spec §3.13 built-in directives
pub fn builtin_directive_defs() -> Vec<DirectiveDef> {
    let d = |name: &str, args: Vec<InputValueDef>, locs: &[&str]| DirectiveDef {
        desc: None,
        name: name.into(),
        name_pos: P::default(),
        args,
        repeatable: false,
        locations: locs.iter().map(|s| s.to_string()).collect(),
        pos: P::default(),
    };
    vec![
        d("skip", vec![arg("if", t_nn("Boolean"), None)], &["FIELD", "FRAGMENT_SPREAD", "INLINE_FRAGMENT"]),
        d("include", vec![arg("if", t_nn("Boolean"), None)], &["FIELD", "FRAGMENT_SPREAD", "INLINE_FRAGMENT"]),
        d("deprecated", vec![arg("reason", t_named("String"), Some(Val::Str("No longer supported".into(), P::default())))], &["FIELD_DEFINITION", "ARGUMENT_DEFINITION", "INPUT_FIELD_DEFINITION", "ENUM_VALUE"]),
        d("specifiedBy", vec![arg("url", t_nn("String"), None)], &["SCALAR"]),
    ]
}

/// root operation type names per spec §3.3.1
pub fn spec_roots(m: &SchemaModel) -> (Option<String>, Option<String>, Option<String>) {
    let sd = m.doc.items.iter().find_map(|i| match i {
        TsItem::SchemaDef(s) => Some(s),
        _ => None,
    });
    match sd {
        Some(s) => {
            let get = |k: OpKind| s.roots.iter().filter(|r| r.0 == k).last().map(|r| r.1.clone());
            (get(OpKind::Query), get(OpKind::Mutation), get(OpKind::Subscription))
        }
        None => {
            let get = |n: &str| m.doc.type_def(n).filter(|t| t.kind == TypeKind::Object).map(|t| t.name.clone());
            (get("Query"), get("Mutation"), get("Subscription"))
        }
    }
}

/// The `data` of the response to the standard introspection query (all optional parts on) for schema model `m`.
pub fn introspection_json(m: &SchemaModel) -> Value {
    let cx = Ctx { m };
    let intro = introspection_type_defs();
    let bdirs = builtin_directive_defs();
    let user_dirs: Vec<&DirectiveDef> = m.directive_defs().collect();
    // referenced named types (fields, arguments, input fields, directive arguments)
    let mut refs: Vec<String> = vec![];
    for t in m.types().chain(intro.iter()) {
        for f in &t.fields {
            refs.push(f.ty.unwrapped().to_string());
            for a in &f.args {
                refs.push(a.ty.unwrapped().to_string());
            }
        }
        for f in &t.inputs {
            refs.push(f.ty.unwrapped().to_string());
        }
    }
    for d in bdirs.iter().chain(user_dirs.iter().copied()) {
        for a in &d.args {
            refs.push(a.ty.unwrapped().to_string());
        }
    }
    let mut types: Vec<Value> = m.types().map(|t| cx.type_def(t)).collect();
    for b in BUILTIN_SCALARS {
        if refs.iter().any(|r| r == b) {
            types.push(cx.type_def(&TypeDef::new(TypeKind::Scalar, b)));
        }
    }
    for t in &intro {
        types.push(cx.type_def(t));
    }
    let (q, mu, su) = spec_roots(m);
    let root = |r: Option<String>| match r {
        Some(n) => json!({"name": n}),
        None => Value::Null,
    };
    let desc = m.doc.items.iter().find_map(|i| match i {
        TsItem::SchemaDef(s) => Some(s.desc.clone()),
        _ => None,
    });
    json!({"__schema": {
        "description": ostr(&desc.flatten()),
        "queryType": root(q), "mutationType": root(mu), "subscriptionType": root(su),
        "types": types,
        "directives": bdirs.iter().chain(user_dirs.iter().copied()).map(|d| cx.directive(d)).collect::<Vec<_>>(),
    }})
}

/// minimal JSON text parser that keeps key order and repeated keys (for replays of damaged texts)
pub fn parse_text(text: &str) -> Option<J> {
    let cs: Vec<char> = text.chars().collect();
    let mut i = 0;
    let v = parse_value(&cs, &mut i)?;
    skip_ws(&cs, &mut i);
    if i == cs.len() {
        Some(v)
    } else {
        None
    }
}
fn skip_ws(cs: &[char], i: &mut usize) {
    while *i < cs.len() && cs[*i].is_whitespace() {
        *i += 1;
    }
}
fn parse_string(cs: &[char], i: &mut usize) -> Option<String> {
    if cs.get(*i) != Some(&'"') {
        return None;
    }
    *i += 1;
    let mut s = String::new();
    loop {
        let c = *cs.get(*i)?;
        *i += 1;
        match c {
            '"' => return Some(s),
            '\\' => {
                let e = *cs.get(*i)?;
                *i += 1;
                match e {
                    'n' => s.push('\n'),
                    'r' => s.push('\r'),
                    't' => s.push('\t'),
                    'b' => s.push('\u{8}'),
                    'f' => s.push('\u{c}'),
                    'u' => {
                        let h: String = cs.get(*i..*i + 4)?.iter().collect();
                        *i += 4;
                        s.push(char::from_u32(u32::from_str_radix(&h, 16).ok()?)?);
                    }
                    other => s.push(other),
                }
            }
            c => s.push(c),
        }
    }
}
fn parse_value(cs: &[char], i: &mut usize) -> Option<J> {
    skip_ws(cs, i);
    match *cs.get(*i)? {
        '"' => parse_string(cs, i).map(J::Str),
        '{' => {
            *i += 1;
            let mut kvs = vec![];
            skip_ws(cs, i);
            if cs.get(*i) == Some(&'}') {
                *i += 1;
                return Some(J::Obj(kvs));
            }
            loop {
                skip_ws(cs, i);
                let k = parse_string(cs, i)?;
                skip_ws(cs, i);
                if cs.get(*i) != Some(&':') {
                    return None;
                }
                *i += 1;
                let v = parse_value(cs, i)?;
                kvs.push((k, v));
                skip_ws(cs, i);
                match cs.get(*i)? {
                    ',' => *i += 1,
                    '}' => {
                        *i += 1;
                        return Some(J::Obj(kvs));
                    }
                    _ => return None,
                }
            }
        }
        '[' => {
            *i += 1;
            let mut xs = vec![];
            skip_ws(cs, i);
            if cs.get(*i) == Some(&']') {
                *i += 1;
                return Some(J::Arr(xs));
            }
            loop {
                xs.push(parse_value(cs, i)?);
                skip_ws(cs, i);
                match cs.get(*i)? {
                    ',' => *i += 1,
                    ']' => {
                        *i += 1;
                        return Some(J::Arr(xs));
                    }
                    _ => return None,
                }
            }
        }
        _ => {
            let start = *i;
            while *i < cs.len() && !matches!(cs[*i], ',' | '}' | ']') && !cs[*i].is_whitespace() {
                *i += 1;
            }
            let w: String = cs[start..*i].iter().collect();
            match w.as_str() {
                "null" => Some(J::Null),
                "true" => Some(J::Bool(true)),
                "false" => Some(J::Bool(false)),
                n if !n.is_empty() => Some(J::Num(n.to_string())),
                _ => None,
            }
        }
    }
}

/// remove the entries of `__schema.types` whose name satisfies `pred`
pub fn prune_types(j: &mut J, pred: &dyn Fn(&str) -> bool) {
    if let J::Obj(top) = j {
        if let Some((_, J::Obj(s))) = top.iter_mut().find(|(k, _)| k == "__schema") {
            if let Some((_, J::Arr(ts))) = s.iter_mut().find(|(k, _)| k == "types") {
                ts.retain(|t| match t {
                    J::Obj(kvs) => !kvs.iter().any(|(k, v)| k == "name" && matches!(v, J::Str(n) if pred(n))),
                    _ => true,
                });
            }
        }
    }
}

/// names of `__schema.types` in order
pub fn type_names(j: &J) -> Vec<String> {
    let mut out = vec![];
    if let J::Obj(top) = j {
        if let Some((_, J::Obj(s))) = top.iter().find(|(k, _)| k == "__schema") {
            if let Some((_, J::Arr(ts))) = s.iter().find(|(k, _)| k == "types") {
                for t in ts {
                    if let J::Obj(kvs) = t {
                        if let Some((_, J::Str(n))) = kvs.iter().find(|(k, _)| k == "name") {
                            out.push(n.clone());
                        }
                    }
                }
            }
        }
    }
    out
}

pub const BUILTIN_SCALAR_NAMES: [&str; 5] = ["Int", "Float", "String", "Boolean", "ID"];
